#!/bin/sh
# tools/try_seed.sh <patch.diff> <check id>... : run checks (quick) against a scratch worktree of /repo HEAD with the patch applied
patch="$1"; shift
wt=$(mktemp -d /tmp/seedwt_XXXXXX); rmdir "$wt"
git -C /repo worktree add -q --detach "$wt" HEAD || exit 2
if ! git -C "$wt" apply "$patch"; then echo "PATCH DOES NOT APPLY"; git -C /repo worktree remove --force "$wt"; exit 2; fi
scratch=$(mktemp -d /tmp/seedev_XXXXXX)
for c in "$@"; do
  out=$(VERIF_EVIDENCE_DIR="$scratch/evidence" VERIF_REPLAYS_DIR="$scratch/replays" VERIF_REPO="$wt" /verif/check "$c" --tier "${TIER:-quick}" 2>&1); rc=$?
  echo "== $c rc=$rc $(echo "$out" | grep -c '^VIOLATION') violations"; echo "$out" | grep -A1 "^  key:" | head -${SHOW:-6} | cut -c1-300; echo "$out" | tail -1
done
git -C /repo worktree remove --force "$wt"; rm -rf "$scratch"
