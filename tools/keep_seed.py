#!/usr/bin/env python3
"""tools/keep_seed.py <seed id> <property> <src dir> <k> <needs> <caught_by (comma sep)> <ran> : store a confirmed seeded change under /verif/seeded/<id>/"""
import json, shutil, sys
from pathlib import Path
sid, prop, src, k, needs, caught, ran = sys.argv[1:8]
d = Path("/verif/seeded") / sid
d.mkdir(parents=True, exist_ok=True)
shutil.copy(f"{src}/patch{k}.diff", d / "patch.diff")
shutil.copy(f"{src}/demo{k}.py", d / "demo.py")
notes = Path(f"{src}/notes{k}.md")
if notes.exists():
    shutil.copy(notes, d / "notes.md")
meta = {"id": sid, "breaks_property": prop, "needs_to_manifest": needs, "caught_by": [c for c in caught.split(",") if c],
        "confirmed": ran, "origin": "independent sub-agent given only the property text and a scratch worktree"}
(d / "meta.json").write_text(json.dumps(meta, indent=1) + "\n")
print("kept", d)
