#!/bin/sh
# tools/confirm_seed.sh <patch> <demo.py> <pytest paths...> : confirm a seeded change in a scratch worktree of /repo HEAD
patch="$1"; demo="$2"; shift 2
wt=$(mktemp -d /tmp/confwt_XXXXXX); rmdir "$wt"
git -C /repo worktree add -q --detach "$wt" HEAD || exit 2
cd "$wt"
PYTHONPATH="$wt" /venv/bin/python -W ignore "$demo" >/tmp/conf_a.log 2>&1; a=$?
git apply "$patch" || { echo "PATCH DOES NOT APPLY"; cd /; git -C /repo worktree remove --force "$wt"; exit 2; }
PYTHONPATH="$wt" /venv/bin/python -W ignore "$demo" >/tmp/conf_b.log 2>&1; b=$?
t=0
if [ $# -gt 0 ]; then PYTHONPATH="$wt" /venv/bin/python -m pytest -q -x -p no:cacheprovider "$@" >/tmp/conf_t.log 2>&1; t=$?; fi
echo "demo unchanged rc=$a ; demo with change rc=$b ; tests with change rc=$t ($(tail -1 /tmp/conf_t.log 2>/dev/null))"
cd /; git -C /repo worktree remove --force "$wt"; rm -f /tmp/conf_a.log /tmp/conf_b.log /tmp/conf_t.log
[ $a -eq 0 ] && [ $b -ne 0 ] && [ $t -eq 0 ]
