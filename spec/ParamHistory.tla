---------------------------- MODULE ParamHistory ----------------------------
(* X04 (growth): the parameter history (glotaran/parameter/parameter_history.py) together with the parameter set that  *)
(* is recorded into it and restored from it (Parameters.set_from_history) - the mechanism behind the optimiser's        *)
(* per-iteration record and its fallback after a failed evaluation (C11, C15).                                          *)
(* State: the label tuple the history is bound to (none until the first append), the records <<iteration, values>>,     *)
(* the current parameter set (a label tuple and a value vector), and whether the history object is the one that was      *)
(* built by appends ("fresh") or one read back from a file / data frame ("loaded").  The abstract state must not         *)
(* depend on that origin: SaveLoad changes nothing but `origin`, and every action is enabled and behaves alike after it. *)
EXTENDS Integers, Sequences, SequencesExt, TLC

CONSTANTS LabelSets,     \* names of label tuples (the harness maps them to real parameter sets)
          Vals,          \* value vector ids
          MaxRecs, MaxOps

VARIABLES labels, recs, cur, origin, last, nops
vars == <<labels, recs, cur, origin, last, nops>>

Init == /\ labels = "none" /\ recs = <<>> /\ origin = "fresh" /\ nops = 0
        /\ cur \in [ls : LabelSets, v : Vals]
        /\ last = [op |-> "init", err |-> "", arg |-> 0]

Tick == nops < MaxOps /\ nops' = nops + 1

SetCur(ls, v) == /\ Tick /\ cur' = [ls |-> ls, v |-> v]
                 /\ last' = [op |-> "set", err |-> "", arg |-> 0] /\ UNCHANGED <<labels, recs, origin>>

Record(it) == /\ Tick /\ Len(recs) < MaxRecs
              /\ IF labels = "none" \/ labels = cur.ls
                 THEN /\ labels' = cur.ls /\ recs' = Append(recs, [it |-> it, v |-> cur.v])
                      /\ last' = [op |-> "append", err |-> "", arg |-> it]
                 ELSE /\ UNCHANGED <<labels, recs>>
                      /\ last' = [op |-> "append", err |-> "ValueError", arg |-> it]
              /\ UNCHANGED <<cur, origin>>

(* python index: -Len .. Len-1; anything else is an IndexError; restoring needs the labels of the current set *)
Restore(i) == /\ Tick /\ labels = cur.ls
              /\ IF i >= -Len(recs) /\ i < Len(recs)
                 THEN /\ cur' = [cur EXCEPT !.v = recs[IF i >= 0 THEN i + 1 ELSE Len(recs) + i + 1].v]
                      /\ last' = [op |-> "restore", err |-> "", arg |-> i]
                 ELSE /\ UNCHANGED cur /\ last' = [op |-> "restore", err |-> "IndexError", arg |-> i]
              /\ UNCHANGED <<labels, recs, origin>>

SaveLoad == /\ Tick /\ recs # <<>> /\ origin' = "loaded"
            /\ last' = [op |-> "saveload", err |-> "", arg |-> 0] /\ UNCHANGED <<labels, recs, cur>>

Next == \/ \E ls \in LabelSets, v \in Vals : SetCur(ls, v)
        \/ \E it \in 0..1 : Record(it)
        \/ \E i \in -(MaxRecs + 1)..MaxRecs : Restore(i)
        \/ SaveLoad
Spec == Init /\ [][Next]_vars

-----------------------------------------------------------------------------
TypeOK == /\ labels \in LabelSets \cup {"none"} /\ cur \in [ls : LabelSets, v : Vals] /\ origin \in {"fresh", "loaded"}
          /\ \A k \in 1..Len(recs) : recs[k] \in [it : 0..1, v : Vals]
BoundIffRecorded == (labels = "none") <=> (recs = <<>>)
AppendOnly == [][IsPrefix(recs, recs')]_vars                               \* a record is never changed or dropped
LabelsFixed == [][labels # "none" => labels' = labels]_vars
ErrorsArePure == [][last'.err # "" => UNCHANGED <<labels, recs, cur, origin>>]_vars
RestoreIsRecord == [][last'.op = "restore" /\ last'.err = "" => \E k \in 1..Len(recs) : cur'.v = recs[k].v]_vars
(* the origin of the history object is unobservable: whatever is enabled in a fresh history is enabled in a loaded one *)
OriginUnobservable == [][last'.op = "saveload" => UNCHANGED <<labels, recs, cur>>]_vars
=============================================================================
