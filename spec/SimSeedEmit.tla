---------------------------- MODULE SimSeedEmit ----------------------------
EXTENDS SimSeed, Json
Emit == PrintT(<<"EDGE", ToJson([src |-> <<rng, memo, nops>>, op |-> last'[1], seed |-> last'[2], dst |-> <<rng', memo', nops'>>])>>)
=============================================================================
