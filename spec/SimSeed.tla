------------------------------ MODULE SimSeed ------------------------------
(* C14, last clause: simulation with a fixed noise seed is reproducible, whatever was drawn from the *)
(* process-global random generator before.  The generator is a global variable; Draw advances it;    *)
(* Simulate(seed) re-seeds it and draws the noise.  The model of the generator is a counter stream.  *)
EXTENDS Naturals, Sequences, TLC
CONSTANTS Seeds, MaxOps, NoiseLen
VARIABLES rng,      \* state of the global generator: <<seed, position>>
          memo,     \* seed -> noise produced by the first Simulate(seed) ("none" position 0 = not yet)
          last,     \* last operation and its observable result
          nops
vars == <<rng, memo, last, nops>>
Stream(s, p) == s * 100 + p                      \* abstract value drawn at position p of stream s
Init == rng = <<0, 0>> /\ memo = [s \in Seeds |-> <<>>] /\ last = <<"init", 0, <<>>>> /\ nops = 0
Draw == /\ nops < MaxOps /\ nops' = nops + 1
        /\ rng' = <<rng[1], rng[2] + 1>>
        /\ last' = <<"draw", 0, <<Stream(rng[1], rng[2] + 1)>>>>
        /\ UNCHANGED memo
Simulate(s) == /\ nops < MaxOps /\ nops' = nops + 1
               /\ LET noise == [k \in 1..NoiseLen |-> Stream(s, k)] IN      \* seed, then draw NoiseLen values
                    /\ rng' = <<s, NoiseLen>>
                    /\ last' = <<"simulate", s, noise>>
                    /\ memo' = IF memo[s] = <<>> THEN [memo EXCEPT ![s] = noise] ELSE memo
SimulateUnseeded == /\ nops < MaxOps /\ nops' = nops + 1          \* noise without seed continues the global stream
                    /\ rng' = <<rng[1], rng[2] + NoiseLen>>
                    /\ last' = <<"unseeded", 0, [k \in 1..NoiseLen |-> Stream(rng[1], rng[2] + k)]>>
                    /\ UNCHANGED memo
Next == Draw \/ (\E s \in Seeds : Simulate(s)) \/ SimulateUnseeded
Spec == Init /\ [][Next]_vars
Reproducible == last[1] = "simulate" => last[3] = memo[last[2]]
=============================================================================
