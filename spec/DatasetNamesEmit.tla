-------------------------- MODULE DatasetNamesEmit --------------------------
EXTENDS DatasetNames, Json
Emit == IF Done THEN PrintT(<<"CASE", ToJson([mode |-> mode, input |-> input, keys |-> keys, result |-> result])>>) ELSE TRUE
=============================================================================
