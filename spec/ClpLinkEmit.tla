----------------------------- MODULE ClpLinkEmit -----------------------------
EXTENDS ClpLink, Json
Emit == IF outcome # "running"
        THEN PrintT(<<"CASE", ToJson([axes |-> axes, tol |-> tol, method |-> method, assign |-> assign, outcome |-> outcome])>>)
        ELSE TRUE
==============================================================================
