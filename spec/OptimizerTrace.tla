---------------------------- MODULE OptimizerTrace ----------------------------
(* Trace acceptor for Optimizer: event traces of real optimisations and of real evaluation     *)
(* histories (hooks in glotaran/optimization/optimizer.py and glotaran/utils/tee.py, call      *)
(* boundaries logged by the harness drivers) are accepted iff every recorded event is a step   *)
(* of the specification with the recorded arguments AND the recorded scalar state, and the     *)
(* specification's invariants / action properties hold along the recorded execution.           *)
(* Ids of points and penalty vectors are dense per family of traces (content digests are       *)
(* mapped by the harness); list lengths are normalised by the harness to 0 = empty,             *)
(* 1 = the per-evaluation length, 2 = partial, 3 = longer than one evaluation's worth.          *)
(* Many traces per run: tid is chosen in TraceInit (run with -workers 1).                       *)
EXTENDS Optimizer, Json, IOUtils, TLCExt

Input == JsonDeserialize(IOEnv.TRACE_FILE)
Traces == Input.traces
TracePoints == 1..Input.npoints

VARIABLES tid, l
tvars == <<vars, tid, l>>

SeqSet(s) == {s[i] : i \in 1..Len(s)}
Memo0(m) == [x \in Points |-> LET hits == {i \in 1..Len(m) : m[i][1] = x}
                              IN IF hits = {} THEN 0 ELSE m[CHOOSE i \in hits : TRUE][2]]

TraceInit ==
  /\ tid \in 1..Len(Traces) /\ l = 1
  /\ phase = "start" /\ hist = <<>> /\ ok = {} /\ stdoutOwner = "orig"
  /\ raiseFlag = Traces[tid].init.raise /\ verbose = Traces[tid].init.verbose /\ method = Traces[tid].init.method
  /\ outcome = NoOutcome /\ resultPoint = NoPoint
  /\ invalid = SeqSet(Traces[tid].init.invalid)
  /\ faultK = Traces[tid].init.k /\ faultKind = Traces[tid].init.kind
  /\ nevals = 0 /\ nreturned = 0 /\ fired = "none" /\ failed = FALSE /\ nanSeen = FALSE /\ swapped = FALSE
  /\ memo = Memo0(Traces[tid].init.memo0)
  /\ nomPen = Traces[tid].init.nomp /\ nomLen = Traces[tid].init.noml
  /\ lenClpPenalty = [g \in Groups |-> 0] /\ lenClps = [d \in Datasets |-> 0] /\ lenResiduals = [d \in Datasets |-> 0]
  /\ lastPen = 0 /\ lastEval = "none" /\ snapshot = Snap0

Ev == Traces[tid].events[l]
(* every event carries snapok: the digest of the caller's parameters is still the one seen first *)
IsEvent(e) == l <= Len(Traces[tid].events) /\ Ev.ev = e /\ Ev.snapok /\ l' = l + 1 /\ UNCHANGED tid
(* 9 = length not observed *)
LensAre == /\ Ev.lp = 9 \/ lenClpPenalty' = [g \in Groups |-> Ev.lp]
           /\ Ev.lc = 9 \/ lenClps' = [d \in Datasets |-> Ev.lc]
           /\ Ev.lr = 9 \/ lenResiduals' = [d \in Datasets |-> Ev.lr]

TReject == IsEvent("reject") /\ Reject(Ev.kind)
TConstruct == IsEvent("construct") /\ Construct(Ev.x) /\ Len(hist') = Ev.nh
TEnvSwap == IsEvent("envswap") /\ EnvSwap
TTeeEnter == IsEvent("tee_enter") /\ EnterTee

(* Pure, as a guard of the recorded step: a point seen before must give the penalty vector it gave before *)
Reproduced == memo[Ev.x] = 0 \/ memo[Ev.x] = Ev.pen
TEvalOk == /\ IsEvent("eval_ok") /\ Reproduced
           /\ \/ phase = "in_tee" /\ EvalP(Ev.x, Ev.pen)
              \/ phase = "constructed" /\ DirectEvalP(Ev.x, Ev.pen)
              \/ phase = "final" /\ ~IsFaulty /\ Ev.x = resultPoint /\ FinalEvalP(Ev.pen)
           /\ Len(hist') = Ev.nh
           /\ LensAre

TEvalNaN == /\ IsEvent("eval_nan")
            /\ \/ phase = "in_tee" /\ EvalNaN(Ev.x)
               \/ phase = "final" /\ Ev.x = resultPoint /\ FinalEvalNaN
            /\ Len(hist') = Ev.nh
            /\ LensAre

TEvalFail == /\ IsEvent("eval_fail")
             /\ \/ phase = "in_tee" /\ EvalFail(Ev.x)
                \/ phase = "constructed" /\ DirectEvalFail(Ev.x)
                \/ phase = "final" /\ Ev.x = resultPoint /\ LateFail
             /\ Len(hist') = Ev.nh
             /\ LensAre

TReturns == IsEvent("returns") /\ SciPyReturns(Ev.x)
TRaises == IsEvent("raises") /\ SciPyRaises
TSwallow == IsEvent("swallow") /\ Swallow
TPropagate == IsEvent("propagate") /\ Propagate
TTeeExit == IsEvent("tee_exit") /\ Ev.restored /\ ExitTee
TIpe == IsEvent("ipe") /\ RaiseInitialParameterError
(* python index -2 of a history of n records is record n - 1 *)
(* the record before the failing one; an earlier one only if non-finite values were seen (the last FINITE record is restored) *)
TFallback == IsEvent("fallback") /\ (Ev.i + 2 = 0 \/ (nanSeen /\ Ev.i + 2 < 0)) /\ Len(hist) + 1 + Ev.i >= 1
             /\ FallbackTo(Len(hist) + 1 + Ev.i) /\ Ev.x = resultPoint'
TToFinal == IsEvent("to_final") /\ ToFinal
TResultCalc == IsEvent("result_calc") /\ (ResultCalc \/ ResultCalcNaN) /\ LensAre
TResultCalcFail == IsEvent("result_calc_fail") /\ phase = "result_calc" /\ LateFail /\ LensAre
TLateChoke == IsEvent("late_choke") /\ LateChoke
TResult == /\ IsEvent("result") /\ BuildResult
           /\ outcome'.success = Ev.success
           /\ (outcome'.reason = "error") = Ev.reasonerr
           /\ Ev.x = resultPoint /\ Ev.nh = Len(hist)
(* the call returns / raises: what the caller saw must be the terminal state the specification reached *)
TEnd == /\ IsEvent("end") /\ phase \in Terminal
        /\ Ev.exc = outcome.exc
        /\ Ev.restored
        /\ UNCHANGED vars

TraceNext == \/ TReject \/ TConstruct \/ TEnvSwap \/ TTeeEnter \/ TEvalOk \/ TEvalNaN \/ TEvalFail \/ TReturns \/ TRaises
             \/ TSwallow \/ TPropagate \/ TTeeExit \/ TIpe \/ TFallback \/ TToFinal \/ TResultCalc \/ TResultCalcFail
             \/ TLateChoke \/ TResult \/ TEnd
TraceSpec == TraceInit /\ [][TraceNext]_tvars

N == Len(Traces)
Progress == IF l = Len(Traces[tid].events) + 1 THEN TLCSet(tid, TRUE)
            ELSE (IF TLCGet(tid + N) < l THEN TLCSet(tid + N, l) ELSE TRUE)
ASSUME \A i \in 1..N : TLCSet(i, FALSE) /\ TLCSet(i + N, 0)
Accepted == /\ PrintT(<<"VERDICT", [i \in 1..N |-> IF TLCGet(i) = TRUE THEN 0 ELSE TLCGet(i + N)]>>)
            /\ \A i \in 1..N : TLCGet(i) = TRUE

(* the base specification's action properties over tvars (stuttering on tid / l allowed) *)
TPure == [][\A x \in Points : memo[x] # 0 => memo'[x] = memo[x]]_tvars
TInputsUntouched == [][snapshot' = snapshot]_tvars
==============================================================================
