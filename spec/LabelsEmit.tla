----------------------------- MODULE LabelsEmit -----------------------------
EXTENDS Labels, Json
MatrixOf(m) == [g \in 1..NGlobal |-> [l \in 1..Len(m.labels) |-> [i \in 1..NModel |-> Val(m.id, m.labels[l], g, i, m.idx)]]]
Emit == IF done THEN LET c == Combine(mcs) IN
          PrintT(<<"CASE", ToJson([mcs |-> [k \in 1..Len(mcs) |-> [labels |-> mcs[k].labels, idx |-> mcs[k].idx, scale |-> mcs[k].scale, cols |-> MatrixOf(mcs[k])]],
                                   idxdep |-> IndexDependent(mcs), combined |-> c])>>)
        ELSE TRUE
=============================================================================
