------------------------------ MODULE FitTrace ------------------------------
(* Trace acceptor for fits (C11; the expression clause also serves C12).  A recorded  *)
(* fit is accepted iff record 0 is a First step, every further history record is an   *)
(* Evaluate step and the result is a Finish step of Fit.tla with the recorded values. *)
(* Many traces per TLC run (tid chosen in TraceInit, -workers 1); a record that is no *)
(* step of the specification is reported with the violated clauses.                   *)
EXTENDS Fit, Json, IOUtils, TLCExt

Input == JsonDeserialize(IOEnv.TRACE_FILE)
Traces == Input.traces
NT == Len(Traces)

VARIABLES tid, l
tvars == <<fvars, tid, l>>

TraceInit == /\ tid \in 1..NT
             /\ l = 1
             /\ ps = Traces[tid].params
             /\ vals = [i \in 1..Len(Traces[tid].params) |-> 0]
             /\ stage = "start" /\ nrec = 0 /\ res = NoRes

Recs == Traces[tid].records
Rec == Recs[l]
Step == l' = l + 1 /\ UNCHANGED tid

TFirst == l = 1 /\ l <= Len(Recs) /\ First(Rec.val, Rec.ex) /\ Step
TEvaluate == l > 1 /\ l <= Len(Recs) /\ Evaluate(Rec.val, Rec.ex) /\ Step
TFinish == l = Len(Recs) + 1 /\ Finish(Traces[tid].result.val, Traces[tid].result.ex, Traces[tid].result.cols) /\ Step

(* diagnosis of a record that is not a step (a stuttering step that only prints) *)
TReject == /\ stage # "done"
           /\ IF l <= Len(Recs)
              THEN /\ Failing(ps, Rec.val, Rec.ex) # {}
                   /\ PrintT(<<"REJECT", tid, l, ToJson(Failing(ps, Rec.val, Rec.ex))>>)
              ELSE /\ l = Len(Recs) + 1
                   /\ Failing(ps, Traces[tid].result.val, Traces[tid].result.ex) \cup ResFailing(ps, Traces[tid].result.cols) # {}
                   /\ PrintT(<<"REJECT", tid, l, ToJson(Failing(ps, Traces[tid].result.val, Traces[tid].result.ex)
                                                        \cup ResFailing(ps, Traces[tid].result.cols))>>)
           /\ UNCHANGED tvars

TraceNext == TFirst \/ TEvaluate \/ TFinish \/ TReject
TraceSpec == TraceInit /\ [][TraceNext]_tvars

Progress == IF stage = "done" THEN TLCSet(tid, TRUE)
            ELSE (IF TLCGet(tid + NT) < l THEN TLCSet(tid + NT, l) ELSE TRUE)
ASSUME \A i \in 1..NT : TLCSet(i, FALSE) /\ TLCSet(i + NT, 0)
Accepted == /\ PrintT(<<"VERDICT", [i \in 1..NT |-> IF TLCGet(i) = TRUE THEN 0 ELSE TLCGet(i + NT)]>>)
            /\ \A i \in 1..NT : TLCGet(i) = TRUE
=============================================================================
