--------------------------- MODULE ParamTableEmit ---------------------------
(* Emits every complete table of ParamTable as one JSON line (use -workers 1, BuildOnly = TRUE). *)
EXTENDS ParamTable, Json
Emit == (phase = "build" /\ Complete(table)) => PrintT(<<"CASE", ToJson(table)>>)
=============================================================================
