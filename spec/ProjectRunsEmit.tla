--------------------------- MODULE ProjectRunsEmit ---------------------------
(* Emits the state graph of ProjectRuns (use -workers 1, Lookups = FALSE):          *)
(*  STATE lines: every distinct state with the table of allowed answers of the pure *)
(*               lookups in that state (the self-loop edges Latest(nm));            *)
(*  EDGE  lines: every explored transition.                                         *)
EXTENDS ProjectRuns, Json
(* the state without the observation of the last step *)
Core(rs, fl, md, nr) == [runs |-> rs, files |-> fl, made |-> md, nrem |-> nr]
EmitState == PrintT(<<"STATE", ToJson([core |-> Core(runs, files, made, nrem),
                                        latest |-> [nm \in Names |-> LatestAllowed(runs, nm)],
                                        folders |-> {[name |-> r.name, n |-> r.n, folder |-> Folder(r.name, r.n), partial |-> r.tok = 0] : r \in runs}])>>)
EmitEdge == PrintT(<<"EDGE", ToJson([src |-> Core(runs, files, made, nrem), act |-> last', dst |-> Core(runs', files', made', nrem'),
                                      folder |-> IF last'.op \in {"optimize", "optimize_fails", "remove"} THEN Folder(last'.ret.name, last'.ret.n) ELSE ""])>>)
=============================================================================
