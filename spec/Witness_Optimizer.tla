-------------------------- MODULE Witness_Optimizer --------------------------
EXTENDS Optimizer
W_ContainedFailure == ~(phase \in Terminal /\ failed /\ ~raiseFlag /\ phase = "done")
W_TransparentFailure == ~(phase \in Terminal /\ failed /\ raiseFlag)
W_InitialParameterError == ~(phase = "ipe")
W_Rejected == ~(phase = "rejected")
W_CleanRun == ~(phase = "done" /\ ~failed /\ invalid = {})
W_StdoutSwappedAndRestored == ~(phase \in Terminal /\ swapped /\ stdoutOwner = "orig")
W_NanSeen == ~(phase \in Terminal /\ nanSeen)
=============================================================================
