------------------------------ MODULE ParamExpr ------------------------------
(* Expression parameters of pyglotaran (glotaran/parameter/parameters.py).            *)
(*                                                                                    *)
(* Parameters are identified by their TOPOLOGICAL RANK 1..N: an expression may only   *)
(* reference parameters of lower rank, which makes every dependency graph acyclic by  *)
(* construction and removes the relabelling symmetry.  What ranges freely is the      *)
(* DECLARATION ORDER (a permutation of the ranks): the order in which the parameters  *)
(* appear in the list / dict / file and in which the implementation iterates.         *)
(*                                                                                    *)
(* Enumeration is by fan-out actions (one definition per step, one position of the    *)
(* declaration order per step) so that all TLC workers share the work.                *)
(*                                                                                    *)
(* Values are small integers (exact in float64).  Function symbols are interpreted by *)
(* their integer images: sqrt(square(x)) = |x|, maximum(x, y) = max.                  *)
EXTENDS Integers, Sequences, FiniteSets, TLC

CONSTANTS N,          \* number of parameters
          PlainVals,  \* values a plain parameter is declared with
          FreeVals,   \* values the optimiser may assign to a plain parameter
          UnOps,      \* subset of {"addc", "mulc", "sqrt", "sq"}
          BinOps,     \* subset of {"add", "sub", "mul", "max"}
          Builders,   \* ways of constructing (from_list, from_dict, yml, csv ...): no effect on the abstract state
          Formats,    \* save/load formats: no effect on the abstract state
          Algo,       \* "spec": the property; "onepass": design-level mutant (one pass in declaration order)
          OrderHeads, \* partition of the enumeration: allowed first elements of the declaration order
          TopOps      \* partition of the enumeration: allowed operators of the definition of rank N

VARIABLES phase,  \* "define" -> "order" -> "ready" -> "run"
          defs,   \* sequence of definitions, index = topological rank
          order,  \* declaration order (sequence of ranks)
          val,    \* current value of every parameter (<<>> before construction)
          last    \* observation: last operation [op, arg]

vars == <<phase, defs, order, val, last>>
View == <<phase, defs, order, val>>

AllUnOps == {"addc", "mulc", "sqrt", "sq"}
AllBinOps == {"add", "sub", "mul", "max"}
Commutative == {"add", "mul", "max"}
ASSUME UnOps \subseteq AllUnOps /\ BinOps \subseteq AllBinOps /\ N \in 1..6 /\ Algo \in {"spec", "onepass"}

PlainDef(c) == [op |-> "plain", a |-> 0, b |-> 0, c |-> c]
UnDef(o, a) == [op |-> o, a |-> a, b |-> 0, c |-> 0]
BinDef(o, a, b) == [op |-> o, a |-> a, b |-> b, c |-> 0]

(* the grammar: definitions available to the parameter of rank k *)
DefsFor(k) == {PlainDef(c) : c \in PlainVals}
         \cup {UnDef(o, a) : o \in UnOps, a \in 1..(k - 1)}
         \cup {BinDef(o, ab[1], ab[2]) : o \in BinOps,
                 ab \in {x \in (1..(k - 1)) \X (1..(k - 1)) : x[1] # x[2]}}
NoDup(d) == d.op \in Commutative => d.a < d.b      \* $x+$y and $y+$x are the same definition

Abs(x) == IF x < 0 THEN -x ELSE x
Max(x, y) == IF x < y THEN y ELSE x

(* value of definition d on the value vector v *)
Apply(d, v) == CASE d.op = "addc" -> v[d.a] + 1            \* $a + 1
                 [] d.op = "mulc" -> 2 * v[d.a]            \* 2 * $a
                 [] d.op = "sqrt" -> Abs(v[d.a])           \* sqrt(square($a))
                 [] d.op = "sq"   -> v[d.a] * v[d.a]       \* $a**2  (the referenced VALUE is squared, also when it is negative)
                 [] d.op = "add"  -> v[d.a] + v[d.b]       \* $a + $b
                 [] d.op = "sub"  -> v[d.a] - v[d.b]       \* $a - $b
                 [] d.op = "mul"  -> v[d.a] * v[d.b]       \* $g.a * $h.b
                 [] d.op = "max"  -> Max(v[d.a], v[d.b])   \* maximum($a, $b)
                 [] OTHER -> d.c

IsPlain(k) == defs[k].op = "plain"
PlainIdx == {k \in 1..Len(defs) : IsPlain(k)}

(* THE PROPERTY as a function: the unique value vector that agrees with v on the plain      *)
(* parameters and in which every expression parameter equals its expression (rank order).   *)
Full(v) == LET RECURSIVE F(_)
               F(k) == IF k = 0 THEN <<>>
                       ELSE LET prev == F(k - 1) IN Append(prev, IF IsPlain(k) THEN v[k] ELSE Apply(defs[k], prev))
           IN F(N)

(* design-level mutant: a single pass over the parameters in declaration order *)
OnePass(v) == LET RECURSIVE G(_)
                  G(i) == IF i = 0 THEN v
                          ELSE LET w == G(i - 1) p == order[i] IN
                               IF IsPlain(p) THEN w ELSE [w EXCEPT ![p] = Apply(defs[p], w)]
              IN G(N)

Upd(v) == IF Algo = "spec" THEN Full(v) ELSE OnePass(v)

(* what the declaration supplies: plain value, and 0 for expression parameters (any number would do) *)
Declared == [k \in 1..N |-> IF IsPlain(k) THEN defs[k].c ELSE 0]

Obs(o, x) == [op |-> o, arg |-> x]
-------------------------------------------------------------------------------
Init == /\ phase = "define" /\ defs = <<>> /\ order = <<>> /\ val = <<>> /\ last = Obs("init", "")

Define == /\ phase = "define"
          /\ \E d \in DefsFor(Len(defs) + 1) :
               /\ NoDup(d)
               /\ (Len(defs) + 1 = N /\ N > 1) => d.op \in TopOps
               /\ defs' = Append(defs, d)
          /\ phase' = IF Len(defs) + 1 = N THEN "order" ELSE "define"
          /\ UNCHANGED <<order, val, last>>

Declare == /\ phase = "order"
           /\ \E p \in 1..N :
                /\ \A i \in 1..Len(order) : order[i] # p
                /\ order = <<>> => p \in OrderHeads
                /\ order' = Append(order, p)
           /\ phase' = IF Len(order) + 1 = N THEN "ready" ELSE "order"
           /\ UNCHANGED <<defs, val, last>>

(* Parameters.from_list / from_dict / load_parameters: the constructor evaluates the expressions *)
Construct(b) == /\ phase = "ready"
                /\ val' = Upd(Declared)
                /\ phase' = "run"
                /\ last' = Obs("construct", b)
                /\ UNCHANGED <<defs, order>>

(* set_from_label_and_value_arrays(free labels, values): what the optimiser does at every evaluation *)
SetFree == /\ phase = "run"
           /\ \E f \in [PlainIdx -> FreeVals] : val' = Upd([k \in 1..N |-> IF IsPlain(k) THEN f[k] ELSE val[k]])
           /\ last' = Obs("setfree", "")
           /\ UNCHANGED <<phase, defs, order>>

(* the remaining operations re-evaluate the expressions on unchanged plain values *)
Update == /\ phase = "run"                      \* update_parameter_expression()
          /\ val' = Upd(val)
          /\ last' = Obs("update", "")
          /\ UNCHANGED <<phase, defs, order>>

Arrays == /\ phase = "run"                      \* get_label_value_and_bounds_arrays(): re-evaluates, then exports
          /\ val' = Upd(val)
          /\ last' = Obs("arrays", "")
          /\ UNCHANGED <<phase, defs, order>>

Copy == /\ phase = "run"                        \* .copy(): a new object built from the current values
        /\ val' = Upd(val)
        /\ last' = Obs("copy", "")
        /\ UNCHANGED <<phase, defs, order>>

SaveLoad(fmt) == /\ phase = "run"               \* save_parameters + load_parameters: a new object built from the file
                 /\ val' = Upd(val)
                 /\ last' = Obs("saveload", fmt)
                 /\ UNCHANGED <<phase, defs, order>>

Next == \/ Define \/ Declare
        \/ \E b \in Builders : Construct(b)
        \/ SetFree
        \/ Update \/ Arrays \/ Copy
        \/ \E fmt \in Formats : SaveLoad(fmt)

Spec == Init /\ [][Next]_vars
-------------------------------------------------------------------------------
TypeOK == /\ phase \in {"define", "order", "ready", "run"}
          /\ Len(defs) <= N /\ Len(order) <= N
          /\ phase = "run" => Len(val) = N

(* after construction and after every update each expression parameter has the value of its *)
(* expression on the CURRENT values of the parameters it references                          *)
Consistent == phase = "run" => \A k \in 1..N : ~IsPlain(k) => val[k] = Apply(defs[k], val)

(* the dependency graph is acyclic and the declaration order is a permutation *)
WellFormed == /\ \A k \in 1..Len(defs) : defs[k].a < k /\ defs[k].b < k
              /\ \A i, j \in 1..Len(order) : i # j => order[i] # order[j]

(* plain parameters hold exactly what was declared / assigned *)
PlainKept == [][/\ (phase = "ready" /\ phase' = "run") => \A k \in PlainIdx : val'[k] = defs[k].c
                /\ (phase = "run" /\ last'.op # "setfree") => \A k \in PlainIdx : val'[k] = val[k]]_vars

(* updating twice changes nothing: any step that does not assign new plain values is a stutter on val *)
Idempotent == [][(phase = "run" /\ \A k \in PlainIdx : val'[k] = val[k]) => val' = val]_vars
===============================================================================
