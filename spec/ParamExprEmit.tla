---------------------------- MODULE ParamExprEmit ----------------------------
(* Emits every explored transition into or inside the "run" phase of ParamExpr as one *)
(* line (use -workers 1): <<"E", json of [defs, order, op, arg, pre, post]>> with     *)
(* defs = sequence of [op, a, b, c].  Used as ACTION_CONSTRAINT.                      *)
EXTENDS ParamExpr, Json
Compact == [k \in 1..N |-> <<defs[k].op, defs[k].a, defs[k].b, defs[k].c>>]
Emit == IF phase' = "run"
        THEN PrintT(<<"E", ToJson(<<Compact, order, last'.op, last'.arg, val, val'>>)>>)
        ELSE TRUE
=============================================================================
