---------------------------- MODULE ProjectItems ----------------------------
(* Growth beyond the listed properties: name resolution of project item registries (ProjectRegistry.items).   *)
(* A registry folder holds files; every file with a registered suffix is an item.  items maps names to files:  *)
(* <dir>/<stem> names the FIRST such file in path order, every further file with the same <dir>/<stem> is      *)
(* reachable under <dir>/<name with suffix> and a warning is issued for it.                                    *)
(* Universe is the sequence of candidate files in path order (rank = position).                                *)
EXTENDS Naturals, Sequences, FiniteSets, TLC
CONSTANTS MaxOps
Universe == << [dir |-> "", stem |-> "a", suf |-> ".ascii", item |-> TRUE],
               [dir |-> "", stem |-> "a", suf |-> ".nc", item |-> TRUE],
               [dir |-> "", stem |-> "a.nc", suf |-> ".ascii", item |-> TRUE],
               [dir |-> "", stem |-> "a", suf |-> ".txt", item |-> FALSE],
               [dir |-> "", stem |-> "b", suf |-> ".nc", item |-> TRUE],
               [dir |-> "sub", stem |-> "a", suf |-> ".nc", item |-> TRUE],
               [dir |-> "sub", stem |-> "a", suf |-> ".sdt", item |-> TRUE] >>
U == 1..Len(Universe)
VARIABLES present, nops
vars == <<present, nops>>
Init == present = {} /\ nops = 0
Add(i) == i \notin present /\ nops < MaxOps /\ present' = present \cup {i} /\ nops' = nops + 1
Remove(i) == i \in present /\ nops < MaxOps /\ present' = present \ {i} /\ nops' = nops + 1
Next == \E i \in U : Add(i) \/ Remove(i)
Spec == Init /\ [][Next]_vars

Key(i) == IF Universe[i].dir = "" THEN Universe[i].stem ELSE Universe[i].dir \o "/" \o Universe[i].stem
FullKey(i) == Key(i) \o Universe[i].suf
Items == {i \in present : Universe[i].item}
(* the scan in path order, as the code does it *)
RECURSIVE Scan(_, _)
Scan(i, m) == IF i > Len(Universe) THEN m
              ELSE IF i \notin Items THEN Scan(i + 1, m)
              ELSE IF Key(i) \notin DOMAIN m THEN Scan(i + 1, [k \in DOMAIN m \cup {Key(i)} |-> IF k = Key(i) THEN i ELSE m[k]])
              ELSE Scan(i + 1, [k \in DOMAIN m \cup {FullKey(i)} |-> IF k = FullKey(i) THEN i ELSE m[k]])
Mapping == Scan(1, [k \in {} |-> 0])
(* a warning for every file that could not take its short name (also in the shadowing case below) *)
Warnings == Cardinality({i \in Items : Mapping[Key(i)] # i})

EveryItemReachable == \A i \in Items : \E k \in DOMAIN Mapping : Mapping[k] = i
OnlyItems == \A k \in DOMAIN Mapping : Mapping[k] \in Items
First(k) == CHOOSE j \in Items : Key(j) = k /\ \A l \in Items : Key(l) = k => j <= l
(* a short name resolves to the first file with that <dir>/<stem> - unless (named deviation, found by TLC on the first run) an  *)
(* EARLIER file was pushed to its name-with-suffix and that name equals this stem: 'a.ascii', 'a.nc', 'a.nc.ascii' make        *)
(* 'a.nc' mean the file a.nc, and a.nc.ascii is reachable as 'a.nc.ascii' only                                                *)
ShortNameIsFirst == \A i \in Items : Mapping[Key(i)] = First(Key(i)) \/ (\E j \in Items : j < First(Key(i)) /\ FullKey(j) = Key(i) /\ Mapping[Key(i)] = j)
(* the one thing that can go wrong by design: a later file's <stem> can equal an earlier file's <name with suffix> *)
NoFileLost == Cardinality({Mapping[k] : k \in DOMAIN Mapping}) = Cardinality(Items)
=============================================================================
