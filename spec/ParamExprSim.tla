---------------------------- MODULE ParamExprSim ----------------------------
(* Random behaviours of ParamExpr for parameter counts beyond the exhaustive bound   *)
(* (tlc -simulate).  The behaviour so far is kept in a history variable; every        *)
(* behaviour whose history reaches MaxHist operations is printed as one line          *)
(* <<"B", json of [defs, order, [[op, arg, values after], ...]]>> (ACTION_CONSTRAINT  *)
(* EmitBehaviour, -workers 1).  Every printed line is a behaviour of ParamExpr        *)
(* whether or not the random walk continued through it.                               *)
EXTENDS ParamExpr, Json
CONSTANT MaxHist
VARIABLE hist
svars == <<vars, hist>>
SimInit == Init /\ hist = <<>>
SimNext == /\ Next
           /\ Len(hist) < MaxHist
           /\ hist' = IF phase' = "run" THEN Append(hist, <<last'.op, last'.arg, val'>>) ELSE hist
SimSpec == SimInit /\ [][SimNext]_svars
Compact == [k \in 1..N |-> <<defs[k].op, defs[k].a, defs[k].b, defs[k].c>>]
EmitBehaviour == (phase' = "run" /\ Len(hist') = MaxHist) =>
                     PrintT(<<"B", ToJson(<<Compact, order, hist'>>)>>)
=============================================================================
