--------------------------- MODULE ProjectRunsTrace ---------------------------
(* Trace acceptor for ProjectRuns: one trace = one recorded call of                  *)
(* ProjectResultRegistry.save ("optimize": the run folder it chose) or of            *)
(* ProjectResultRegistry._latest_result_path_fallback ("latest" for a bare result    *)
(* name, "get" for a run specifier) together with the run folders of that name that  *)
(* existed when the call was made (hooks in project_result_registry.py).  The call   *)
(* is accepted iff the specification, started from those runs, takes the same step   *)
(* with the same answer; folder names are compared as strings with Folder().         *)
EXTENDS ProjectRuns, Json, IOUtils, TLCExt

Input == JsonDeserialize(IOEnv.TRACE_FILE)
Traces == Input.traces
TraceNames == {Traces[i].name : i \in 1..Len(Traces)}

VARIABLES tid, l
tvars == <<vars, tid, l>>

TraceInit ==
  /\ tid \in 1..Len(Traces) /\ l = 1
  /\ runs = {[name |-> Traces[tid].name, n |-> Traces[tid].own[i], tok |-> 1] : i \in 1..Len(Traces[tid].own)}
  /\ made = [nm \in Names |-> 0] /\ nopt = 0 /\ nrem = 0
  /\ files = [k \in Kinds |-> 0] /\ nwrites = 0
  /\ last = NoObs

Ev == Traces[tid]
Consume(e) == l = 1 /\ Ev.ev = e /\ l' = 2 /\ UNCHANGED tid

TOptimize == /\ Consume("optimize")
             /\ Optimize(Ev.name)
             /\ Folder(last'.ret.name, last'.ret.n) = Ev.ret

TLatest == /\ Consume("latest")
           /\ Latest(Ev.name)
           /\ last'.err = Ev.err
           /\ (Ev.err = "" => Folder(last'.ret.name, last'.ret.n) = Ev.ret)

TGet == /\ Consume("get")
        /\ Get(Ev.name, Ev.n)
        /\ last'.err = Ev.err
        /\ (Ev.err = "" => Folder(Ev.name, Ev.n) = Ev.ret)

TraceNext == TOptimize \/ TLatest \/ TGet
TraceSpec == TraceInit /\ [][TraceNext]_tvars

N == Len(Traces)
Progress == IF l = 2 THEN TLCSet(tid, TRUE) ELSE TRUE
ASSUME \A i \in 1..N : TLCSet(i, FALSE)
Accepted == /\ PrintT(<<"VERDICT", [i \in 1..N |-> IF TLCGet(i) = TRUE THEN 0 ELSE 1]>>)
            /\ \A i \in 1..N : TLCGet(i) = TRUE
===============================================================================
