------------------------------- MODULE Persist -------------------------------
(* C17 - models, schemes, datasets and results survive persistence.                  *)
(*                                                                                   *)
(* Abstract store: folders (locations) directly under a root, files: Loc x Name ->   *)
(* Token ("absent" or a content token).  result.yml / scheme.yml / s.yml additionally *)
(* hold references (refs) to other files; a reference is                              *)
(*     [k |-> "rel", loc |-> "", name |-> n]   the file n in the same folder          *)
(*     [k |-> "up",  loc |-> l,  name |-> n]   "../l/n"                               *)
(*     [k |-> "abs", ...]                      an absolute path (never specified)     *)
(* In-memory objects carry src, the location they were last saved to / loaded from.   *)
(* The caller spells a target absolute or relative to the working directory and as    *)
(* file or folder (kind); the specified effect does not depend on the spelling or on  *)
(* the working directory - that is the point.                                         *)
(*                                                                                   *)
(* Two families of actions (switched by constants so that each graph stays small):    *)
(*   results: SaveResult(loc, kind, options), LoadResult, MoveFolder, ChangeCwd       *)
(*   parts:   SaveModel/LoadModel, SaveDataset(fmt)/LoadDataset, SaveScheme/LoadScheme *)
(*            (+ MoveFolder, ChangeCwd)                                               *)
EXTENDS Naturals, Sequences, FiniteSets, TLC

CONSTANTS Locs,          \* folders that are save targets, e.g. {"A","B"}
          MoveLocs,      \* folders that only occur as destination of a move, e.g. {"C"}
          Cwds,          \* subset of {"root","sub"} \cup Locs : working directories
          Kinds,         \* subset of {"abs_file","rel_file","abs_dir","rel_dir"}
          OptNames,      \* subset of {"default","minimal","filter","noreport"}
          DataFormats,   \* subset of {"nc","ascii"}
          WithResults, WithParts, WithMove,
          MaxOps

VARIABLES files, refs, mem, content, cwd, last, nops
vars == <<files, refs, mem, content, cwd, last, nops>>

Src == "S"                                  \* read-only folder the scheme's parameters were loaded from
AllLocs == Locs \cup MoveLocs \cup {Src}

ResultNames == {"result.yml", "scheme.yml", "model.yml", "initial_parameters.csv", "optimized_parameters.csv",
                "parameter_history.csv", "optimization_history.csv", "d1.nc", "result.md"}
PartNames == {"m.yml", "s.yml", "p.csv", "data.nc", "data.ascii"}
Names == ResultNames \cup PartNames
Holders == {"result.yml", "scheme.yml", "s.yml"}
Fields == {"scheme", "initial_parameters", "optimized_parameters", "parameter_history", "optimization_history", "data",
           "model", "parameters"}

NoRef == [k |-> "none", loc |-> "", name |-> ""]
Rel(n) == [k |-> "rel", loc |-> "", name |-> n]
RelRef(from, to, n) == IF from = to THEN Rel(n) ELSE [k |-> "up", loc |-> to, name |-> n]
NoRefs == [f \in Fields |-> NoRef]

IsRel(k) == k \in {"rel_file", "rel_dir"}
PartKinds == Kinds \cap {"abs_file", "rel_file"}
Filter(o) == o \in {"minimal", "filter"}
Report(o) == o \in {"default", "filter"}

Empty(l) == \A n \in Names : files[l][n] = "absent"

(* where a reference stored in folder l points to *)
Target(l, r) == IF r.k = "rel" THEN <<l, r.name>> ELSE <<r.loc, r.name>>
Resolves(l, r) == r.k \in {"rel", "up"} /\ files[Target(l, r)[1]][Target(l, r)[2]] # "absent"
TokenAt(l, r) == files[Target(l, r)[1]][Target(l, r)[2]]

ResultFields == {"scheme", "initial_parameters", "optimized_parameters", "parameter_history", "optimization_history", "data"}
SchemeFields == {"model", "parameters", "data"}

ResultLoadable(l) == /\ files[l]["result.yml"] = "result"
                     /\ \A f \in ResultFields : Resolves(l, refs[l]["result.yml"][f])
                     /\ LET s == Target(l, refs[l]["result.yml"]["scheme"]) IN
                          \A f \in SchemeFields : Resolves(s[1], refs[s[1]][s[2]][f])
ResultTokens(l) == [f \in ResultFields |-> TokenAt(l, refs[l]["result.yml"][f])]

SchemeLoadable(l) == /\ files[l]["s.yml"] = "scheme"
                     /\ \A f \in SchemeFields : Resolves(l, refs[l]["s.yml"][f])
SchemeTokens(l) == [f \in SchemeFields |-> TokenAt(l, refs[l]["s.yml"][f])]

NoContent == [f \in Fields |-> ""]

-------------------------------------------------------------------------------
(* parts: model, parameters and dataset were loaded (absolute paths) from the read-only folder Src, as a user script does *)
Init == /\ files = [l \in AllLocs |-> [n \in Names |->
                    IF l = Src /\ n = "p.csv" THEN "params"
                    ELSE IF WithParts /\ l = Src /\ n = "m.yml" THEN "model"
                    ELSE IF WithParts /\ l = Src /\ n = "data.nc" THEN "data_nc" ELSE "absent"]]
        /\ refs = [l \in AllLocs |-> [h \in Holders |-> NoRefs]]
        /\ mem = [data |-> "d_full", rsrc |-> "none", ssrc |-> "none",
                  msrc |-> IF WithParts THEN Src ELSE "none", mrel |-> FALSE,
                  dsrc |-> IF WithParts THEN Src ELSE "none", drel |-> FALSE, dfmt |-> IF WithParts THEN "nc" ELSE "", dq |-> "full"]
        /\ content = [l \in AllLocs |-> [h \in Holders |-> NoContent]]
        /\ cwd = "root"
        /\ last = [op |-> "init", loc |-> "", kind |-> "", arg |-> ""]
        /\ nops = 0

Step(op, l, k, a) == /\ nops < MaxOps /\ nops' = nops + 1
                     /\ last' = [op |-> op, loc |-> l, kind |-> k, arg |-> a]

(* ---- results ---- *)
SaveResult(l, k, o) ==
  /\ WithResults /\ Step("SaveResult", l, k, o)
  /\ LET dtok == IF Filter(o) THEN "d_min" ELSE mem.data IN
     /\ files' = [files EXCEPT ![l] = [n \in Names |->
           CASE n = "result.yml" -> "result" [] n = "scheme.yml" -> "scheme" [] n = "model.yml" -> "model"
             [] n = "initial_parameters.csv" -> "p_init" [] n = "optimized_parameters.csv" -> "p_opt"
             [] n = "parameter_history.csv" -> "phist" [] n = "optimization_history.csv" -> "ohist"
             [] n = "d1.nc" -> dtok
             [] n = "result.md" -> (IF Report(o) THEN "md" ELSE files[l][n])
             [] OTHER -> files[l][n]]]
     /\ refs' = [refs EXCEPT ![l]["result.yml"] = [f \in Fields |->
                     CASE f = "scheme" -> Rel("scheme.yml") [] f = "initial_parameters" -> Rel("initial_parameters.csv")
                       [] f = "optimized_parameters" -> Rel("optimized_parameters.csv")
                       [] f = "parameter_history" -> Rel("parameter_history.csv")
                       [] f = "optimization_history" -> Rel("optimization_history.csv")
                       [] f = "data" -> Rel("d1.nc") [] OTHER -> NoRef],
                                  ![l]["scheme.yml"] = [f \in Fields |->
                     CASE f = "model" -> Rel("model.yml") [] f = "parameters" -> Rel("initial_parameters.csv")
                       [] f = "data" -> Rel("d1.nc") [] OTHER -> NoRef]]
     /\ content' = [content EXCEPT ![l]["result.yml"] = [f \in Fields |->
                     CASE f = "scheme" -> "scheme" [] f = "initial_parameters" -> "p_init" [] f = "optimized_parameters" -> "p_opt"
                       [] f = "parameter_history" -> "phist" [] f = "optimization_history" -> "ohist"
                       [] f = "data" -> dtok [] OTHER -> ""]]
  /\ mem' = [mem EXCEPT !.rsrc = l]       \* the in-memory result keeps ALL its data, also after a filtered save
  /\ UNCHANGED cwd

LoadResult(l, k) ==
  /\ WithResults /\ ResultLoadable(l) /\ Step("LoadResult", l, k, "")
  /\ mem' = [mem EXCEPT !.data = ResultTokens(l)["data"], !.rsrc = l]
  /\ UNCHANGED <<files, refs, content, cwd>>

(* ---- parts ---- *)
SaveModel(l, k) ==
  /\ WithParts /\ Step("SaveModel", l, k, "")
  /\ files' = [files EXCEPT ![l]["m.yml"] = "model"]
  /\ mem' = [mem EXCEPT !.msrc = l, !.mrel = IsRel(k)]
  /\ UNCHANGED <<refs, content, cwd>>

LoadModel(l, k) ==
  /\ WithParts /\ files[l]["m.yml"] = "model" /\ Step("LoadModel", l, k, "")
  /\ mem' = [mem EXCEPT !.msrc = l, !.mrel = IsRel(k)]
  /\ UNCHANGED <<files, refs, content, cwd>>

DataName(fmt) == "data." \o fmt
(* content tokens of data files: the ascii formats keep the values to the written precision only, and a dataset  *)
(* that went through an ascii file stays that (dq = "ascii") when it is written to netCDF afterwards            *)
DataToken(fmt, q) == IF fmt = "ascii" THEN "data_ascii" ELSE IF q = "full" THEN "data_nc" ELSE "data_nc_ascii"
Quality(tok) == IF tok = "data_nc" THEN "full" ELSE "ascii"

SaveDataset(fmt, l, k) ==
  /\ WithParts /\ Step("SaveDataset", l, k, fmt)
  /\ files' = [files EXCEPT ![l][DataName(fmt)] = DataToken(fmt, mem.dq)]
  /\ mem' = [mem EXCEPT !.dsrc = l, !.dfmt = fmt, !.drel = IsRel(k)]     \* the in-memory dataset keeps its values
  /\ UNCHANGED <<refs, content, cwd>>

LoadDataset(fmt, l, k) ==
  /\ WithParts /\ files[l][DataName(fmt)] # "absent" /\ Step("LoadDataset", l, k, fmt)
  /\ mem' = [mem EXCEPT !.dsrc = l, !.dfmt = fmt, !.drel = IsRel(k), !.dq = Quality(files[l][DataName(fmt)])]
  /\ UNCHANGED <<files, refs, content, cwd>>

(* a scheme can be written once its components live in files *)
SaveScheme(l, k) ==
  /\ WithParts /\ mem.msrc # "none" /\ mem.dsrc # "none" /\ Step("SaveScheme", l, k, "")
  /\ files[mem.msrc]["m.yml"] = "model" /\ files[mem.dsrc][DataName(mem.dfmt)] # "absent"   \* not moved away meanwhile
  /\ files' = [files EXCEPT ![l]["s.yml"] = "scheme"]
  /\ refs' = [refs EXCEPT ![l]["s.yml"] = [f \in Fields |->
                 CASE f = "model" -> RelRef(l, mem.msrc, "m.yml") [] f = "parameters" -> RelRef(l, Src, "p.csv")
                   [] f = "data" -> RelRef(l, mem.dsrc, DataName(mem.dfmt)) [] OTHER -> NoRef]]
  /\ content' = [content EXCEPT ![l]["s.yml"] = [f \in Fields |->
                 CASE f = "model" -> "model" [] f = "parameters" -> "params" [] f = "data" -> files[mem.dsrc][DataName(mem.dfmt)] [] OTHER -> ""]]
  /\ mem' = [mem EXCEPT !.ssrc = l]
  /\ UNCHANGED cwd

LoadScheme(l, k) ==
  /\ WithParts /\ SchemeLoadable(l) /\ Step("LoadScheme", l, k, "")
  /\ LET m == Target(l, refs[l]["s.yml"]["model"])
         d == Target(l, refs[l]["s.yml"]["data"]) IN
       mem' = [mem EXCEPT !.ssrc = l, !.msrc = m[1], !.dsrc = d[1], !.mrel = FALSE, !.drel = FALSE,
                          !.dfmt = IF d[2] = "data.nc" THEN "nc" ELSE "ascii", !.dq = Quality(files[d[1]][d[2]])]
  /\ UNCHANGED <<files, refs, content, cwd>>

(* ---- environment ---- *)
MoveFolder(l, l2) ==
  /\ WithMove /\ l # l2 /\ l # Src /\ l2 # Src /\ ~Empty(l) /\ Empty(l2) /\ cwd # l /\ cwd # l2
  /\ Step("MoveFolder", l, "", l2)
  /\ files' = [files EXCEPT ![l2] = files[l], ![l] = [n \in Names |-> "absent"]]
  /\ refs' = [refs EXCEPT ![l2] = refs[l], ![l] = [h \in Holders |-> NoRefs]]
  /\ content' = [content EXCEPT ![l2] = content[l], ![l] = [h \in Holders |-> NoContent]]
  /\ UNCHANGED <<mem, cwd>>

ChangeCwd(c) ==
  /\ c # cwd /\ (c \in AllLocs => ~Empty(c))
  /\ Step("ChangeCwd", "", "", c)
  /\ cwd' = c
  \* the property is silent on what a source path spelled relative to the OLD working directory means afterwards:
  \* such a component has to be saved / loaded again before a scheme can be written (nothing is claimed in between)
  /\ mem' = [mem EXCEPT !.msrc = IF mem.mrel THEN "none" ELSE mem.msrc, !.dsrc = IF mem.drel THEN "none" ELSE mem.dsrc]
  /\ UNCHANGED <<files, refs, content>>

Next == \/ \E l \in Locs, k \in Kinds, o \in OptNames : SaveResult(l, k, o)
        \/ \E l \in Locs \cup MoveLocs, k \in Kinds : LoadResult(l, k)
        \/ \E l \in Locs, k \in PartKinds : SaveModel(l, k) \/ SaveScheme(l, k)
        \/ \E l \in Locs \cup MoveLocs, k \in PartKinds : LoadModel(l, k) \/ LoadScheme(l, k)
        \/ \E l \in Locs, k \in PartKinds, f \in DataFormats : SaveDataset(f, l, k)
        \/ \E l \in Locs \cup MoveLocs, k \in PartKinds, f \in DataFormats : LoadDataset(f, l, k)
        \/ \E l \in Locs \cup MoveLocs, l2 \in Locs \cup MoveLocs : MoveFolder(l, l2)
        \/ \E c \in Cwds : ChangeCwd(c)

Spec == Init /\ [][Next]_vars

-------------------------------------------------------------------------------
TypeOK == /\ cwd \in Cwds \cup {"root"}
          /\ nops \in 0..MaxOps
          /\ mem.data \in {"d_full", "d_min"}

(* every reference a result folder stores is relative and resolves INSIDE that folder *)
RefsRelative == \A l \in AllLocs : files[l]["result.yml"] = "result" =>
     /\ \A f \in ResultFields : refs[l]["result.yml"][f].k = "rel" /\ Resolves(l, refs[l]["result.yml"][f])
     /\ \A f \in SchemeFields : refs[l]["scheme.yml"][f].k = "rel" /\ Resolves(l, refs[l]["scheme.yml"][f])

(* hence a result folder, wherever it has been moved and whatever the working directory is, loads,  *)
(* and loads to exactly what was saved into it (the filtered data if it was saved with a filter)     *)
LoadAfterMove == \A l \in AllLocs : files[l]["result.yml"] = "result" =>
     /\ ResultLoadable(l)
     /\ \A f \in ResultFields : ResultTokens(l)[f] = content[l]["result.yml"][f]

(* a scheme file that is loadable (its components were not moved away) loads to what was saved *)
LoadSaveIdentity == \A l \in AllLocs : SchemeLoadable(l) =>
     \A f \in SchemeFields : SchemeTokens(l)[f] = content[l]["s.yml"][f]

(* a scheme file is loadable right after it was written, from any working directory *)
FreshSchemeLoads == last.op = "SaveScheme" => SchemeLoadable(last.loc)

(* saving never stores a reference that depends on the working directory or on the spelling of the target *)
NoAbsoluteRefs == \A l \in AllLocs, h \in Holders, f \in Fields : refs[l][h][f].k # "abs"

(* the in-memory result never loses data by being saved *)
SaveKeepsMemory == [][last'.op = "SaveResult" => mem'.data = mem.data]_vars
===============================================================================
