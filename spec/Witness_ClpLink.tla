--------------------------- MODULE Witness_ClpLink ---------------------------
EXTENDS ClpLink
W_Refused == ~(outcome = "AlignDatasetError")
W_Merged == ~(Done /\ \E pt \in Points : assign[pt[1]][pt[2]] # axes[pt[1]][pt[2]])
W_Tie == ~(outcome = "running" /\ d <= Len(axes) /\ k <= Len(axes[d]) /\ Cardinality(Allowed(method, tol, target, axes[d][k])) > 1)
W_NotMergedAlthoughNear == ~(Done /\ method # "nearest" /\ \E pt \in Points : assign[pt[1]][pt[2]] = axes[pt[1]][pt[2]]
                              /\ \E q \in target : q # axes[pt[1]][pt[2]] /\ Abs(q - axes[pt[1]][pt[2]]) <= tol)
W_MergedOntoMovedPoint == ~(Done /\ Len(axes) >= 3 /\ \E pt \in Points : pt[1] = 3 /\ assign[3][pt[2]] # axes[3][pt[2]] /\ assign[3][pt[2]] \notin Range(axes[1]))
=============================================================================
