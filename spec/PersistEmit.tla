---------------------------- MODULE PersistEmit ----------------------------
(* Emits every explored transition of Persist as one JSON line (use -workers 1). *)
EXTENDS Persist, Json
FilesOf(fs) == {<<l, n, fs[l][n]>> : l \in AllLocs, n \in Names} \ {<<l, n, "absent">> : l \in AllLocs, n \in Names}
RefsOf(rs) == {<<l, h, f, rs[l][h][f].k, rs[l][h][f].loc, rs[l][h][f].name>> : l \in AllLocs, h \in Holders, f \in Fields}
                \ {<<l, h, f, "none", "", "">> : l \in AllLocs, h \in Holders, f \in Fields}
View(fs, rs, m, c) == [files |-> FilesOf(fs), refs |-> RefsOf(rs), mem |-> m, cwd |-> c]
Loaded == IF last'.op = "LoadResult" THEN ResultTokens(last'.loc)
          ELSE IF last'.op = "LoadScheme" THEN SchemeTokens(last'.loc)
          ELSE [x \in {} |-> ""]
Emit == PrintT(<<"EDGE", ToJson([act |-> last', depth |-> nops, pre |-> View(files, refs, mem, cwd),
                                 post |-> View(files', refs', mem', cwd'), loaded |-> Loaded])>>)
=============================================================================
