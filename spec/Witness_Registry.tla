-------------------------- MODULE Witness_Registry --------------------------
(* Reachability witnesses for the antecedents of Registry.tla's implication-shaped properties: each W_x is the NEGATION of a  *)
(* state that must be reachable in the configuration that checks the property; the harness (./check vacuity) expects TLC to *)
(* REFUTE every one of them.                                                                                                *)
EXTENDS Registry
W_Warned == ~last.warned
W_DottedRegisterAttempt == ~(last.op = "register" /\ last.key \in DottedNames)
W_DottedSetAttempt == ~(last.op = "set" /\ last.key \in DottedNames)
W_LookupHit == ~(last.op = "lookup" /\ last.err = "")
W_LookupMiss == ~(last.op = "lookup" /\ last.err = "ValueError")
W_Repointed == ~(\E k \in ShortNames : pinned[k] # NoPlugin /\ first[k] # NoPlugin /\ pinned[k] # first[k])
W_ConflictLoserKeptUnderFullName == ~(\E p \in ever : \E k \in ShortNames : first[k] # NoPlugin /\ first[k].cls # p.cls /\ reg[FullKey(p.cls, p.fmt)] = p /\ reg[k] # p)
W_FailedSet == ~(last.op = "set" /\ last.err = "ValueError" /\ last.key \in ShortNames)
=============================================================================
