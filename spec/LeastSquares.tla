---------------------------- MODULE LeastSquares ----------------------------
(* C01: the linear sub-problem.  Oracle layer: instances (A, y) are built row by row *)
(* (fan-out actions, so all workers share the enumeration); in complete states the    *)
(* exact variable-projection solution (Cramer on the normal equations) and the exact  *)
(* NNLS solution (the feasible subset solution carrying the KKT certificate) are      *)
(* computed over the integers and the property's own statement is checked on them.    *)
EXTENDS LinAlg, TLC

CONSTANTS M, N, AVals, YVals, Catalogue   \* Catalogue: sequence of columns (each a sequence of M ints) or <<>>
VARIABLES A, y
vars == <<A, y>>

NoCatalogue == <<>>
(* integer samples of nearly collinear decays / oscillations (M = 4); condition numbers up to ~1e3-1e4 *)
KineticCatalogue == << <<8, 4, 2, 1>>, <<9, 6, 4, 3>>, <<8, 5, 3, 2>>, <<4, -3, 2, -1>>, <<1, 1, 1, 1>>, <<7, 4, 2, 1>>, <<0, 3, -3, 1>> >>
NegVals == {-1, 0, 1, 2}

Init == A = <<>> /\ y = <<>>

AddRow == /\ Catalogue = <<>> /\ Len(A) < M
          /\ \E r \in [1..N -> AVals], b \in YVals : A' = Append(A, r) /\ y' = Append(y, b)

(* kinetic lattice: choose N catalogue columns (increasing index), then the data row by row *)
PickColumns == /\ Catalogue # <<>> /\ A = <<>>
               /\ \E js \in {s \in SubSeqs(Len(Catalogue)) : Len(s) = N} :
                     A' = [i \in 1..M |-> [j \in 1..N |-> Catalogue[js[j]][i]]]
               /\ UNCHANGED y
AddData == /\ Catalogue # <<>> /\ A # <<>> /\ Len(y) < M
           /\ \E b \in YVals : y' = Append(y, b)
           /\ UNCHANGED A

Next == AddRow \/ PickColumns \/ AddData
Spec == Init /\ [][Next]_vars

Complete == Len(A) = M /\ Len(y) = M

VP == LS(A, y, AllCols(N), N)
FullRank == VP.den # 0

(* exact NNLS: among the column subsets whose unconstrained solution is feasible (>= 0, columns independent) *)
(* the one whose residual has non-positive correlation with every column (KKT)                              *)
Sols == [js \in SubSeqs(N) |-> LS(A, y, js, N)]
Feasible(sols) == {js \in SubSeqs(N) : sols[js].den > 0 /\ \A j \in 1..N : sols[js].num[j] >= 0}
KKTAt(sols, js) == \A j \in 1..N : Dot(ColI(A, j), ResNum(A, y, sols[js])) <= 0

Orthogonal == (Complete /\ FullRank) => \A j \in 1..N : Dot(ColI(A, j), ResNum(A, y, VP)) = 0

(* the KKT point exists, is unique (as a solution vector), is complementary, and minimises the residual norm *)
NNLSCertificate == (Complete /\ FullRank) =>
  LET sols == Sols
      feas == Feasible(sols)
      kkt  == {js \in feas : KKTAt(sols, js)}
  IN /\ kkt # {}
     /\ \A js \in kkt, ks \in kkt : \A j \in 1..N : sols[js].num[j] * sols[ks].den = sols[ks].num[j] * sols[js].den
     /\ \A js \in kkt : \A j \in 1..N : sols[js].num[j] * Dot(ColI(A, j), ResNum(A, y, sols[js])) = 0

(* optimality stated directly (small lattices only: cross-multiplied squared norms grow fast) *)
NNLSMinimal == (Complete /\ FullRank) =>
  LET sols == Sols
      feas == Feasible(sols)
      best == CHOOSE js \in feas : KKTAt(sols, js)
      sq(js) == LET r == ResNum(A, y, sols[js]) IN Dot(r, r)
  IN \A ks \in feas : sq(best) * sols[ks].den * sols[ks].den <= sq(ks) * sols[best].den * sols[best].den

VPMinimal == (Complete /\ FullRank) =>      \* the VP residual is not longer than that of any subset solution
  LET sols == Sols
      sq(s) == LET r == ResNum(A, y, s) IN Dot(r, r)
  IN \A ks \in SubSeqs(N) : sols[ks].den > 0 => sq(VP) * sols[ks].den * sols[ks].den <= sq(sols[ks]) * VP.den * VP.den

ResidualIdentity == (Complete /\ FullRank) =>
  \A i \in 1..M : ResNum(A, y, VP)[i] = VP.den * y[i] - SumSeq([j \in 1..N |-> A[i][j] * VP.num[j]])
=============================================================================
