---------------------------- MODULE ParamTransform ----------------------------
(* Parameter set <-> optimiser vector (glotaran/parameter/parameter.py, parameters.py).*)
(*                                                                                    *)
(* A parameter is described by CLASSES; numbers live on a symbolic scale of points    *)
(* whose order is all the specification uses:                                         *)
(*   NINF < NEG < ZERO < TINY < QUARTER < HALF < ONE < ONEEPS < TWO < FOUR < HUGE < PINF *)
(* (the harness concretises them as -inf, -2.5, 0, 1e-300, 0.25, 0.5, 1, 1+1e-10, 2,  *)
(* 4, 1e300, +inf).  A number handed to the optimiser is a pair (space, point):       *)
(* space "id" = the point itself, space "log" = the logarithm of the point            *)
(* (interpreted by the harness with math.log); log is monotone, so order inside one   *)
(* space is the order of the points, and -inf / +inf pass through unchanged.          *)
(* ONE ~ ONEEPS is "equal to rounding" (the implementation's value == 1 guard).       *)
(*                                                                                    *)
(* Parameter sets of 1..MaxLen parameters are built by fan-out (one parameter per     *)
(* step); every state is a complete parameter set and is checked and emitted.         *)
EXTENDS Integers, Sequences, FiniteSets, TLC, Json

CONSTANTS MaxLen,     \* 1..4
          S1, S2, S3, S4   \* "full" | "medium" | "small" | "tiny": class set of the 1st .. 4th parameter

VARIABLE ps           \* sequence of parameter classes in declaration order
vars == <<ps>>

NINF == 0  NEG == 1  ZERO == 2  TINY == 3  QUARTER == 4  HALF == 5
ONE == 6   ONEEPS == 7  TWO == 8  FOUR == 9  HUGE == 10  PINF == 11

MinPt(c) == CASE c = "ninf" -> NINF [] c = "neg" -> NEG [] c = "zero" -> ZERO [] c = "pos" -> QUARTER [] c = "one" -> ONE
MaxPt(c) == CASE c = "one" -> ONE [] c = "fin" -> FOUR [] c = "pinf" -> PINF

(* the point a value class denotes, given the bounds *)
ValPt(mn, mx, vc) == CASE vc = "atmin" -> MinPt(mn)
                       [] vc = "atmax" -> MaxPt(mx)
                       [] vc = "interior" -> IF mx = "one" THEN HALF ELSE TWO
                       [] vc = "one" -> ONE
                       [] vc = "tiny" -> TINY
                       [] vc = "huge" -> HUGE

AllClasses == [vary : BOOLEAN, expr : BOOLEAN, nonneg : BOOLEAN, min : {"ninf", "neg", "zero", "pos", "one"},
               max : {"one", "fin", "pinf"}, val : {"atmin", "interior", "atmax", "one", "tiny", "huge"}]

Value(c) == ValPt(c.min, c.max, c.val)
Finite(p) == p # NINF /\ p # PINF

(* premise of the property: a finite value inside non-degenerate bounds; non-negative parameters are positive *)
Valid(c) == /\ MinPt(c.min) < MaxPt(c.max)
            /\ Finite(Value(c))
            /\ MinPt(c.min) <= Value(c) /\ Value(c) <= MaxPt(c.max)
            /\ c.nonneg => Value(c) > ZERO
            /\ ~(c.val = "one" /\ (c.min = "one" \/ c.max = "one"))       \* same parameter as atmin / atmax

Full == {c \in AllClasses : Valid(c)}
Medium == {c \in Full : /\ c.min \in {"ninf", "zero", "pos"} /\ c.max \in {"fin", "pinf"}
                        /\ c.val \in {"atmin", "interior", "one", "huge"} /\ (c.expr => c.vary)}
Small == {c \in Medium : /\ c.min \in {"ninf", "pos"} /\ c.val \in {"atmin", "interior", "one"}
                         /\ (c.expr => ~c.nonneg /\ c.min = "ninf" /\ c.max = "pinf" /\ c.val = "interior")
                         /\ (~c.vary => c.max = "pinf")}
Tiny == {c \in Small : (c.min = "ninf" <=> c.max = "pinf") /\ c.val # "atmin" /\ (c.nonneg => c.val = "one") /\ (~c.nonneg => c.val = "interior")}

SetName(k) == CASE k = 1 -> S1 [] k = 2 -> S2 [] k = 3 -> S3 [] OTHER -> S4
ClassSet(k) == CASE SetName(k) = "full" -> Full [] SetName(k) = "medium" -> Medium
                 [] SetName(k) = "small" -> Small [] SetName(k) = "tiny" -> Tiny
-------------------------------------------------------------------------------
(* THE TRANSFORMATION the property describes *)
InVector(c) == c.vary /\ ~c.expr                       \* fixed and expression parameters are never handed over

Guard(p) == IF p = ONE THEN ONEEPS ELSE p               \* value == 1 is moved by 1e-10 before the logarithm
Opt(sp, p) == [space |-> sp, pt |-> p]

ToOptValue(c) == IF c.nonneg THEN Opt("log", Guard(Value(c))) ELSE Opt("id", Value(c))
(* a non-negative parameter is positive whatever its minimum: a minimum <= 0 gives no lower bound *)
ToOptLower(c) == IF c.nonneg THEN (IF MinPt(c.min) <= ZERO THEN Opt("id", NINF) ELSE Opt("log", Guard(MinPt(c.min))))
                 ELSE Opt("id", MinPt(c.min))
ToOptUpper(c) == IF c.nonneg THEN (IF MaxPt(c.max) = PINF THEN Opt("id", PINF) ELSE Opt("log", Guard(MaxPt(c.max))))
                 ELSE Opt("id", MaxPt(c.max))
FromOpt(c, o) == o.pt                                   \* exp(log p) = p ; identity otherwise

Approx(p, q) == p = q \/ {p, q} = {ONE, ONEEPS}         \* equal to rounding
(* order of two optimiser-space numbers of one parameter (same space, or an infinite pass-through) *)
OLe(a, b) == a.pt <= b.pt

Idx == 1..Len(ps)
LabelsOf(P) == SelectSeq([i \in 1..Len(P) |-> i], LAMBDA i : InVector(P[i]))     \* declaration order, filtered
(* everything that is handed over / comes back for the parameter set P, computed once *)
Handed(P) == LET L == LabelsOf(P)
                 V == [j \in 1..Len(L) |-> ToOptValue(P[L[j]])]
             IN [labels |-> L,
                 vector |-> V,
                 lower |-> [j \in 1..Len(L) |-> ToOptLower(P[L[j]])],
                 upper |-> [j \in 1..Len(L) |-> ToOptUpper(P[L[j]])],
                 \* set_from_label_and_value_arrays(labels, vector): values of all parameters afterwards
                 back |-> [i \in 1..Len(P) |-> IF \E j \in 1..Len(L) : L[j] = i
                                               THEN FromOpt(P[i], V[CHOOSE j \in 1..Len(L) : L[j] = i])
                                               ELSE Value(P[i])]]
-------------------------------------------------------------------------------
Init == ps = <<>>
Add == /\ Len(ps) < MaxLen
       /\ \E c \in ClassSet(Len(ps) + 1) : ps' = Append(ps, c)
Next == Add
Spec == Init /\ [][Next]_vars

TypeOK == Len(ps) <= MaxLen /\ \A i \in Idx : Valid(ps[i])

(* vector -> parameters is the inverse of parameters -> vector, to rounding *)
RoundTrip == LET H == Handed(ps) IN \A i \in Idx : Approx(H.back[i], Value(ps[i]))

(* fixed and expression parameters are not in the vector; every other parameter is, exactly once *)
NeverHandedOver == LET H == Handed(ps) L == H.labels IN
                   /\ \A j \in 1..Len(L) : InVector(ps[L[j]])
                   /\ \A i \in Idx : (~ps[i].vary \/ ps[i].expr) => \A j \in 1..Len(L) : L[j] # i
                   /\ \A i \in Idx : InVector(ps[i]) => Cardinality({j \in 1..Len(L) : L[j] = i}) = 1
                   /\ \A i \in Idx : ~InVector(ps[i]) => H.back[i] = Value(ps[i])

(* labels, values and both bound arrays share one ordering: the declaration order *)
OrderConsistent == LET H == Handed(ps) L == H.labels IN
                   /\ Len(H.vector) = Len(L) /\ Len(H.lower) = Len(L) /\ Len(H.upper) = Len(L)
                   /\ \A j, k \in 1..Len(L) : j < k => L[j] < L[k]
                   /\ \A j \in 1..Len(L) : H.vector[j] = ToOptValue(ps[L[j]])

(* the transformed start value is feasible for the transformed bounds, and the transformed bounds do not *)
(* admit values outside [minimum, maximum] nor non-positive values of non-negative parameters              *)
BoundsPreserved == LET H == Handed(ps) L == H.labels IN \A j \in 1..Len(L) :
    LET c == ps[L[j]] IN
    /\ OLe(H.lower[j], H.vector[j]) /\ OLe(H.vector[j], H.upper[j])
    /\ H.lower[j].pt < H.upper[j].pt
    /\ Approx(FromOpt(c, H.lower[j]), IF c.nonneg /\ MinPt(c.min) <= ZERO THEN NINF ELSE MinPt(c.min))
    /\ Approx(FromOpt(c, H.upper[j]), MaxPt(c.max))

(* emission: every state is a complete parameter set (use as CONSTRAINT, -workers 1) *)
Emit == Len(ps) = 0 \/
        LET H == Handed(ps) IN
        PrintT(<<"CASE", ToJson([ps |-> ps, labels |-> H.labels, vector |-> H.vector, lower |-> H.lower, upper |-> H.upper,
                                 back |-> H.back, value |-> [i \in Idx |-> Value(ps[i])]])>>)
===============================================================================
