---------------------------- MODULE PipelineEmit ----------------------------
EXTENDS Pipeline, Json
Emit == LET r == Result IN
   PrintT(<<"PIPE", ToJson([pipe |-> pipe, den |-> r.den, num |-> [t \in 1..NT |-> [s \in 1..NS |-> r.num[<<t, s>>]]]])>>)
=============================================================================
