----------------------------- MODULE LabelPerms -----------------------------
(* C06 (b): the space of declaration-order permutations for the builtin megacomplex types: for each type, *)
(* number of declared labels, permutation of the declaration order, with / without IRF, and partner        *)
(* megacomplex (none, baseline, a second megacomplex sharing a label; the megacomplex list is reversed too). *)
EXTENDS Naturals, Sequences, FiniteSets, TLC, Json
CONSTANTS Types, MaxLabels
VARIABLES stage, pick
vars == <<stage, pick>>
Perms(n) == {p \in [1..n -> 1..n] : \A i, j \in 1..n : i # j => p[i] # p[j]}
Init == stage = 0 /\ pick = [type |-> "", n |-> 0, perm |-> <<>>, irf |-> FALSE, partner |-> "", revmc |-> FALSE, two |-> FALSE]
ChooseType == stage = 0 /\ stage' = 1 /\ \E t \in Types, n \in 2..MaxLabels : pick' = [pick EXCEPT !.type = t, !.n = n]
ChoosePerm == stage = 1 /\ stage' = 2 /\ \E p \in Perms(pick.n) : pick' = [pick EXCEPT !.perm = p]
(* two: a second, clp-linked dataset declares the same labels in the permuted order while the first keeps the identity *)
ChooseContext == stage = 2 /\ stage' = 3 /\ \E i \in BOOLEAN, q \in {"none", "baseline", "shared"}, r \in BOOLEAN, t \in BOOLEAN :
                    /\ (t => (q = "none" /\ ~r /\ pick.type # "spectral"))
                    /\ pick' = [pick EXCEPT !.irf = i, !.partner = q, !.revmc = r, !.two = t]
Next == ChooseType \/ ChoosePerm \/ ChooseContext
Spec == Init /\ [][Next]_vars
Done == stage = 3
IsIdentity == \A i \in 1..pick.n : pick.perm[i] = i
PermIsBijection == stage >= 2 => {pick.perm[i] : i \in 1..pick.n} = 1..pick.n
(* nothing to compare when neither the labels nor the megacomplex list are permuted *)
Relevant == Done /\ (~IsIdentity \/ (pick.revmc /\ pick.partner # "none"))
                 /\ ~(pick.type = "pfid" /\ ~pick.irf)          \* PFID is documented to require an IRF
Emit == IF Relevant THEN PrintT(<<"PERM", ToJson(pick)>>) ELSE TRUE
=============================================================================
