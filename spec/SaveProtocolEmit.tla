-------------------------- MODULE SaveProtocolEmit --------------------------
(* Emits every terminal state of SaveProtocol (one allowed outcome of one call) as a *)
(* JSON line; use as CONSTRAINT with -workers 1.                                      *)
EXTENDS SaveProtocol, Json
Emit == Terminal => PrintT(<<"CASE", ToJson([call |-> call, exc |-> exc, fs0 |-> fs0, fs |-> fs, src |-> src])>>)
=============================================================================
