---------------------------- MODULE ObjectiveEnum ----------------------------
(* C02/C03/C13: an exhaustive core of the scheme space, enumerated by TLC itself (fan-out actions):        *)
(* 1-2 datasets on every pair of 1-2 point axes of a 3 point grid, link true/false/auto, VP/NNLS, dataset   *)
(* scale, dataset weights, index-dependent matrices, a second megacomplex sharing a label, and one of       *)
(* {relation, zero constraint, only constraint, equal-area penalty} on every interval of the grid           *)
(* (incl. reversed and infinite).  Each complete configuration is turned into a case of Objective.tla,      *)
(* the property's statement is checked on it, and the exact expectation is emitted for replay.              *)
EXTENDS Objective, Json

CONSTANTS LinkSet, Ax1Set      \* shards of the enumeration (full sets for checking)
VARIABLES stage, cfg
vars == <<stage, cfg>>

Grid == {0, 1, 2}
Axes == {<<1>>, <<0, 1>>, <<1, 2>>}
AllLinks == {"true", "false", "auto"}
AxA == {<<1>>}
AxB == {<<0, 1>>}
AxC == {<<1, 2>>}
Ivs == {<<1, 1>>, <<2, 0>>, <<-1000000, 0>>, <<1, 1000000>>}
Items == {"none", "relation", "zero", "only", "penalty"}
Init == stage = 0 /\ cfg = [nds |-> 0, ax1 |-> <<>>, ax2 |-> <<>>, link |-> "", fn |-> "", scale |-> 1, wkind |-> "", idx |-> FALSE, second |-> FALSE,
                            item |-> "", iv |-> <<>>, dat |-> 0]
ChooseShape == stage = 0 /\ stage' = 1 /\
   \E n \in {1, 2}, a1 \in Axes \cap Ax1Set, a2 \in Axes, l \in LinkSet :
      /\ (n = 1 => a2 = <<1>>)
      /\ cfg' = [cfg EXCEPT !.nds = n, !.ax1 = a1, !.ax2 = IF n = 2 THEN a2 ELSE <<>>, !.link = l]
ChooseFeatures == stage = 1 /\ stage' = 2 /\
   \E f \in {"variable_projection", "non_negative_least_squares"}, s \in {1, 2}, w \in {"none", "dataset"}, ix \in BOOLEAN, sec \in BOOLEAN :
      cfg' = [cfg EXCEPT !.fn = f, !.scale = s, !.wkind = w, !.idx = ix, !.second = sec]
ChooseItem == stage = 2 /\ stage' = 3 /\
   \E it \in Items, iv \in Ivs, dv \in {0, 1} :
      /\ (it = "none" => iv = <<1, 1>>)
      /\ (it = "penalty" => iv = <<1, 1>>)
      /\ cfg' = [cfg EXCEPT !.item = it, !.iv = iv, !.dat = dv]
Next == ChooseShape \/ ChooseFeatures \/ ChooseItem
Spec == Init /\ [][Next]_vars
Done == stage = 3

(* ---- configuration -> case ---- *)
Col(k, g, i) == 1 + ((k + g + i * (k + 1)) % 3)                                 \* small varied entries
McMain(dk, ax, idx) == [scale |-> 1, labels |-> <<"a", "b">>, idx |-> idx,
                        cols |-> IF idx THEN [g \in 1..Len(ax) |-> << <<1, 1, 1>>, [i \in 1..3 |-> Col(dk, g, i)] >>]
                                 ELSE << <<1, 1, 1>>, [i \in 1..3 |-> Col(dk, 0, i)] >>]
McSecond == [scale |-> 2, labels |-> <<"b", "c">>, idx |-> FALSE, cols |-> << <<0, 1, 0>>, <<1, 0, 0>> >>]
DataOf(dk, ax, dv) == [i \in 1..3 |-> [g \in 1..Len(ax) |-> (dk * 2 + i * i + g + dv * i) % 5]]
Ds(dk, label, ax) == [label |-> label, axis |-> ax, maxis |-> <<>>, data |-> DataOf(dk, ax, cfg.dat),
                      scale |-> IF dk = 1 THEN cfg.scale ELSE 1,
                      weight |-> IF cfg.wkind = "dataset" /\ dk = 1 THEN [i \in 1..3 |-> [g \in 1..Len(ax) |-> 1 + ((i + g) % 2)]] ELSE <<>>,
                      simclp |-> <<>>,
                      mcs |-> IF cfg.second /\ dk = 1 THEN <<McMain(dk, ax, cfg.idx), McSecond>> ELSE <<McMain(dk, ax, cfg.idx)>>,
                      gmcs |-> <<>>]
Case == [link |-> cfg.link, residual_function |-> cfg.fn, tol |-> 0,
         datasets |-> IF cfg.nds = 2 THEN <<Ds(1, "a", cfg.ax1), Ds(2, "ab", cfg.ax2)>> ELSE <<Ds(1, "a", cfg.ax1)>>,
         relations |-> IF cfg.item = "relation" THEN <<[source |-> "a", target |-> "b", param |-> 2, ivs |-> <<cfg.iv>>]>> ELSE <<>>,
         constraints |-> IF cfg.item \in {"zero", "only"} THEN <<[type |-> cfg.item, target |-> "b", ivs |-> <<cfg.iv>>]>> ELSE <<>>,
         penalties |-> IF cfg.item = "penalty" THEN <<[source |-> "a", sivs |-> <<>>, target |-> "b", tivs |-> <<>>, param |-> 2, weight |-> 3]>> ELSE <<>>,
         weights |-> <<>>]
E == Expected(Case)
InvAll == Done => LET c == Case e == Expected(c) IN
   /\ EachPointOnce(c, e) /\ BestFit(e) /\ ReducedLabels(e) /\ SharedIffSameIndex(c, e)
   /\ (~e.linked => \A b \in 1..Len(e.blocks) : Len(e.blocks[b].members) = 1)
   /\ e.npoints = SumSeq([k \in 1..Len(c.datasets) |-> 3 * Len(c.datasets[k].axis)]) /\ e.nclps <= 3 * e.npoints
InvEachPointOnce == Done => EachPointOnce(Case, E)
InvBestFit == Done => BestFit(E)
InvReducedLabels == Done => ReducedLabels(E)
InvSharedIffSameIndex == Done => SharedIffSameIndex(Case, E)
(* dataset groups / datasets contribute independently when not linked: each block has exactly one member *)
InvUnlinkedBlocksSingle == (Done /\ ~E.linked) => \A b \in 1..Len(E.blocks) : Len(E.blocks[b].members) = 1
(* counters *)
InvCounters == Done => (E.npoints = SumSeq([k \in 1..Len(Case.datasets) |-> 3 * Len(Case.datasets[k].axis)]) /\ E.nclps <= 3 * E.npoints)
Strip(b) == [kind |-> b.kind, members |-> b.members, g |-> b.g, labels |-> b.labels, reduced |-> b.reduced, den |-> b.den, res |-> b.res,
             w |-> b.w, clp |-> b.clp, valid |-> b.valid, why |-> b.why, active |-> b.active,
             zeroed |-> SelectSeq(b.labels, LAMBDA x : x \in b.zeroed), glabels |-> <<>>]
Emit == IF Done THEN LET e == E IN
           PrintT(<<"ENUM", ToJson([case |-> Case, exp |-> [i |-> 0, linked |-> e.linked, blocks |-> [b \in 1..Len(e.blocks) |-> Strip(e.blocks[b])],
                                   penalties |-> e.penalties, npoints |-> e.npoints, nclps |-> e.nclps, npenalties |-> e.npenalties]])>>)
        ELSE TRUE
==============================================================================
