---------------------------- MODULE RegistryEmit ----------------------------
(* Emits every explored transition of Registry as one JSON line (use -workers 1). *)
EXTENDS Registry, Json
Emit == PrintT(<<"EDGE", ToJson([pre |-> reg, prepend |-> pending, act |-> last', post |-> reg', postpend |-> pending',
                                 first |-> first', pinned |-> pinned'])>>)
=============================================================================
