------------------------ MODULE Witness_SaveProtocol ------------------------
EXTENDS SaveProtocol
W_Refused == ~(Terminal /\ exc = "FileExistsError")
W_RefusedWithUnknownFormat == ~(Terminal /\ exc = "FileExistsError" /\ call.fmt = Unknown)
W_Overwritten == ~(Terminal /\ fs0["target"].kind = "file" /\ fs["target"] # fs0["target"] /\ call.allow)
W_UnknownFormatOnFreeTarget == ~(Terminal /\ call.fmt = Unknown /\ ~Occupied(fs0) /\ exc = "ValueError")
W_PluginFailed == ~(Terminal /\ exc = "PluginError")
W_SourcePathUpdated == ~src
W_FolderNotEmptyRefused == ~(Terminal /\ FolderNotEmpty(fs0) /\ ~call.allow /\ exc = "FileExistsError")
=============================================================================
