-------------------------- MODULE ParamFromSpecEmit --------------------------
(* Emits every finished specification of ParamFromSpec with its expected parameters (use -workers 1). *)
EXTENDS ParamFromSpec, Json
Emit == done => PrintT(<<"CASE", ToJson([container |-> container, dflt |-> dflt, dfltpos |-> dfltpos,
                                         items |-> items, expected |-> Exp])>>)
=============================================================================
