----------------------------- MODULE BasisEmit -----------------------------
(* Prints every complete case of Basis as one JSON line (use -workers 1). *)
EXTENDS Basis, Json

IrfOut == [cfg |-> cfg, widthsPositive |-> WidthsPositive(cfg), indexDependent |-> IsIndexDependent(cfg),
           shifts |-> [i \in 1..NIdx(cfg) |-> ShiftAt(cfg, i)],
           eff |-> [i \in 1..NIdx(cfg) |-> Effective(cfg, i)]]

OscOut == [kind |-> bc.kind, bc |-> bc, labels |-> Labels, clp |-> ExpectedClpLabels, rates |-> Rates, freqs |-> Freqs,
           times |-> Times, under |-> Undersampled]

OscIrfOut == [kind |-> bc.kind, bc |-> bc, labels |-> Labels, clp |-> ExpectedClpLabels, rates |-> Rates, freqs |-> Freqs,
              params |-> [l \in 1..bc.n |-> IF bc.kind = "pfid" THEN PfidParam(Freqs[l]) ELSE RInt(Freqs[l])],
              mode |-> bc.mode, scale |-> ScaleOf(bc.mode),
              times |-> Times, irf |-> IrfOut,
              regions |-> IF WidthsPositive(cfg)
                          THEN RegionTable
                          ELSE <<>>]

ArtOut == [kind |-> bc.kind, bc |-> bc, order |-> bc.n, ownWidth |-> bc.ownWidth,
           width |-> IF bc.ownWidth = 0 THEN Zero ELSE ArtWidthTab[bc.ownWidth],
           times |-> Times, irf |-> IrfOut,
           centres |-> [i \in 1..NIdx(cfg) |-> ArtCentre(i)],
           widths |-> [i \in 1..NIdx(cfg) |-> ArtWidth(i)],
           exact |-> [i \in 1..NIdx(cfg) |-> [a \in 1..Len(Times) |->
                        IF ArtClean(i, Times[a])
                        THEN [clean |-> TRUE, p1 |-> ArtP1(i, Times[a]), p2 |-> ArtP2(i, Times[a]), garg |-> ArtGArg(i, Times[a])]
                        ELSE [clean |-> FALSE, p1 |-> Zero, p2 |-> Zero, garg |-> Zero]]]]

ShapeOut == [kind |-> bc.kind, bc |-> bc, skewed |-> bc.skewed, ampGiven |-> bc.ampVar # 0, amp |-> Amp, loc |-> Loc, fwhm |-> Fwhm,
             b |-> BRec, bigB |-> BigB, mode |-> bc.mode, scale |-> ScaleOf(bc.mode),
             points |-> [k \in ShapePoints |-> [xp |-> XPrime(k), x |-> XReal(k), fact |-> ShapeFact(k), usq |-> RSq(U(k)),
                                                theta |-> IF BigB THEN Theta(k) ELSE One]]]

Emit == BDone => PrintT(<<"CASE", ToJson(IF bc.kind = "osc" THEN OscOut
                                         ELSE IF bc.kind \in {"oscirf", "pfid"} THEN OscIrfOut
                                         ELSE IF bc.kind = "art" THEN ArtOut ELSE ShapeOut)>>)
=============================================================================
