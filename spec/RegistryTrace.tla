---------------------------- MODULE RegistryTrace ----------------------------
(* Trace acceptor for Registry: executions recorded from the real code (hooks in     *)
(* glotaran/plugin_system/base_registry.py) are accepted iff every recorded event is *)
(* a step of the specification with the recorded arguments AND the recorded result.  *)
(* Many traces per TLC run: tid is chosen in TraceInit; the furthest line reached per *)
(* trace is kept in TLC registers (run with -workers 1).                             *)
EXTENDS Registry, Json, IOUtils, TLCExt

Input == JsonDeserialize(IOEnv.TRACE_FILE)
Traces == Input.traces
TraceKeys == {Input.keys[i] : i \in 1..Len(Input.keys)}

VARIABLES tid, l
tvars == <<vars, tid, l>>

Total(m) == [k \in Keys |-> IF k \in DOMAIN m THEN [cls |-> m[k][1], fmt |-> m[k][2]] ELSE NoPlugin]

TraceInit ==
  /\ tid \in 1..Len(Traces)
  /\ l = 1
  /\ reg = Total(Traces[tid].init)
  /\ first = [k \in ShortNames |-> reg[k]]     \* history before the trace is unknown: current resolution counts as first
  /\ pinned = [k \in ShortNames |-> NoPlugin]
  /\ ever = {} /\ pending = <<>> /\ last = NoObs /\ nops = 0

Ev == Traces[tid].events[l]
IsEvent(e) == l <= Len(Traces[tid].events) /\ Ev.ev = e /\ l' = l + 1 /\ UNCHANGED tid /\ reg = Total(Ev.pre)

TRegister == /\ IsEvent("register")
             /\ RegisterOne(Ev.key, Ev.cls, Ev.pfmt, Ev.fmt)
             /\ (HasDot(Ev.key) \/ pending' = pending)
             /\ reg' = Total(Ev.post)
             /\ last'.err = Ev.err /\ last'.warned = Ev.warned
             /\ UNCHANGED nops

TSet == /\ IsEvent("set")
        /\ SetPlugin(Ev.key, Ev.full)
        /\ reg' = Total(Ev.post)
        /\ last'.err = Ev.err

TLookup == /\ IsEvent("lookup")
           /\ Lookup(Ev.key)
           /\ reg' = Total(Ev.post)
           /\ last'.err = Ev.err
           /\ last'.ret = [cls |-> Ev.ret[1], fmt |-> Ev.ret[2]]

TraceNext == TRegister \/ TSet \/ TLookup
TraceSpec == TraceInit /\ [][TraceNext]_tvars

N == Len(Traces)
Progress == IF l = Len(Traces[tid].events) + 1 THEN TLCSet(tid, TRUE)
            ELSE (IF TLCGet(tid + N) < l THEN TLCSet(tid + N, l) ELSE TRUE)
ASSUME \A i \in 1..N : TLCSet(i, FALSE) /\ TLCSet(i + N, 0)
Accepted == /\ PrintT(<<"VERDICT", [i \in 1..N |-> IF TLCGet(i) = TRUE THEN 0 ELSE TLCGet(i + N)]>>)
            /\ \A i \in 1..N : TLCGet(i) = TRUE

(* the base spec's action properties, restated over tvars so stuttering on tid/l is allowed *)
TOnlySetRepoints == [][\A k \in ShortNames :
     (reg[k] # NoPlugin /\ reg'[k] # reg[k]) => (last'.op = "set" /\ last'.key = k /\ last'.err = "")]_tvars
TErrorsArePure == [][last'.err # "" => reg' = reg]_tvars
==============================================================================
