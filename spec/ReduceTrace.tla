---------------------------- MODULE ReduceTrace ----------------------------
(* code -> spec for C08 / C02: "prepared" and "stacked" events recorded from real matrix providers (repository tests and  *)
(* drivers, hooks on).  Each recorded provider is a sequence of blocks (one per global index of an unlinked dataset, one  *)
(* per aligned index of a linked group); a block is accepted iff the recorded full label list is the merge of its members' *)
(* label lists (first-seen order) and the recorded reduced label list is what Objective!ReduceLabels derives from the      *)
(* model's relations and constraints at the block's coordinate.  One action per block (CheckBlock) so that a rejection     *)
(* names the block; a final action (CheckCount) compares the provider's number_of_clps.  Coordinates and interval bounds   *)
(* are scaled to integers by the harness.                                                                                 *)
EXTENDS Objective, Json, IOUtils, TLCExt

Input == JsonDeserialize(IOEnv.TRACE_FILE)
Traces == Input.traces
N == Len(Traces)
VARIABLES tid, b
tvars == <<tid, b>>
T == Traces[tid]

Derived(B) == LET full == MergeLabels(B.memberfull) IN [full |-> full, reduced |-> ReduceLabels(full, T.c, B.g).keep2]
BlockOK(B) == LET dv == Derived(B) IN dv.full = B.full /\ dv.reduced = B.reduced

TraceInit == tid \in 1..N /\ b = 1
CheckBlock == b <= Len(T.blocks) /\ BlockOK(T.blocks[b]) /\ b' = b + 1 /\ UNCHANGED tid
CheckCount == /\ b = Len(T.blocks) + 1
              /\ (T.nclps >= 0 => T.nclps = SumSeq([k \in 1..Len(T.blocks) |-> Len(T.blocks[k].reduced)]))
              /\ b' = b + 1 /\ UNCHANGED tid
TraceNext == CheckBlock \/ CheckCount
TraceSpec == TraceInit /\ [][TraceNext]_tvars

(* properties of every accepted prefix, stated on the recorded data: nothing is reduced away that no item names, and a   *)
(* reduced label is always one of the full labels (EachLabel...), the `only` constraint is the complement of `zero`      *)
Sound == \A k \in 1..(IF b - 1 <= Len(T.blocks) THEN b - 1 ELSE Len(T.blocks)) : LET B == T.blocks[k] IN
   /\ Range(B.reduced) \subseteq Range(B.full)
   /\ \A l \in Range(B.full) \ Range(B.reduced) :
         \/ \E r \in 1..Len(T.c.relations) : T.c.relations[r].target = l /\ InIvs(T.c.relations[r].ivs, B.g)
         \/ \E q \in 1..Len(T.c.constraints) : T.c.constraints[q].target = l

ASSUME \A i \in 1..N : TLCSet(i, 0)
Mark == TLCSet(tid, b)          \* b only grows along the single behaviour of a trace (-workers 1)
Accepted == /\ PrintT(<<"VERDICT", [i \in 1..N |-> IF TLCGet(i) = Len(Traces[i].blocks) + 2 THEN 0 ELSE TLCGet(i)]>>)
            /\ \A i \in 1..N : TLCGet(i) = Len(Traces[i].blocks) + 2
=============================================================================
