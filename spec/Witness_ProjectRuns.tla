------------------------- MODULE Witness_ProjectRuns -------------------------
EXTENDS ProjectRuns
W_TwoRunsOfOneName == ~(\E r1, r2 \in runs : r1.name = r2.name /\ r1.n # r2.n)
W_PrefixNames == ~(\E r1, r2 \in runs : r1.name # r2.name)
W_GetFound == ~(last.op = "get" /\ last.err = "")
W_GetMissing == ~(last.op = "get" /\ last.err # "")
W_LatestAfterRemove == ~(last.op = "latest" /\ nrem > 0)
W_Removed == ~(last.op = "remove")
W_PartialRun == ~(Partial # {})
W_RunAfterPartial == ~(\E r1 \in Partial : \E r2 \in runs : r2.tok # 0 /\ r2.name = r1.name /\ r2.n > r1.n)
=============================================================================
