---------------------------- MODULE ValidationEmit ----------------------------
(* Emits every mutant reached by Validation with its expected issue sets as one JSON line   *)
(* (run with -workers 1), and once the hand-written reference schema.  A mutant is emitted   *)
(* as its difference to the base model (changed items, identities of removed items); the     *)
(* base model itself is emitted in full.                                                     *)
EXTENDS Validation

BaseItems == [b \in 1..Len(Bases) |-> Normalize(Bases[b].model)]
Ident(S) == { <<it.kind, it.orig>> : it \in S }

Case == LET B == BaseItems[base'] IN
        [base |-> Bases[base'].name, muts |-> muts',
         items |-> IF muts' = <<>> THEN items' ELSE {},
         changed |-> items' \ B, removed |-> Ident(B) \ Ident(items'), params |-> params',
         must_np |-> Must(items', params', FALSE), may_np |-> May(items', params', FALSE),
         must_p |-> Must(items', params', TRUE), may_p |-> May(items', params', TRUE),
         fillok |-> FillOK(items', params'), gen |-> GenParams(items')]

Emit == PrintT(<<"CASE", ToJson(Case)>>)

ASSUME PrintT(<<"SCHEMA", ToJson(SchemaTable)>>)
===============================================================================
