---------------------------- MODULE ParamFromSpec ----------------------------
(* C16, second clause: loading a yml / dict / list parameter SPECIFICATION gives the   *)
(* same parameters as building them programmatically.                                  *)
(*                                                                                     *)
(* A specification is a container (flat list, one-level dict of groups, two-level      *)
(* nested dict), an optional default block (first or last in the item list) and 1..N   *)
(* items.  An item is a bare number, [value], [label, value], [value, label], each     *)
(* optionally followed by an option dict; the value is a float, an int or a string in  *)
(* scientific notation.  TLC enumerates every specification (fan-out AddItem) and      *)
(* computes what programmatic construction has to look like:                           *)
(*   label     = group path + explicit label, or + the 1-based position of the item    *)
(*               among the parameter items of its list (the default block is not an    *)
(*               item),                                                                *)
(*   options   = own options, else the default block's, else the class defaults,       *)
(*   an expression parameter is not varied and its value is the value of its           *)
(*   expression, whatever value the specification wrote next to it.                    *)
EXTENDS Naturals, Sequences, FiniteSets, TLC

CONSTANTS Containers,   \* subset of {"list", "dict1", "dict2", "dict3"} (nesting depth of the group the items sit in)
          Forms,        \* subset of {"bare", "v", "lv", "vl"}
          ValForms,     \* subset of {"float", "int", "sci"}
          OptForms,     \* subset of {"none", "vary_false", "vary_true", "nonneg", "bounds", "expr"}
          Defaults,     \* subset of {"none", "vary_false", "nonneg", "bounds"} ("bounds": a default block that sets min and max)
          MaxItems

VARIABLES container, dflt, dfltpos, items, done
vars == <<container, dflt, dfltpos, items, done>>

ItemOK(it) == it.form = "bare" => it.opts = "none"
Items == {it \in [form : Forms, val : ValForms, opts : OptForms] : ItemOK(it)}

Labelled(it) == it.form \in {"lv", "vl"}

(* what an expression can refer to: in dict containers a parameter of ANOTHER group (always present), *)
(* in a flat list another item without expression                                                       *)
Complete(c, its) == /\ Len(its) >= 1
                    /\ (c = "list" => \E i \in 1..Len(its) : its[i].opts # "expr")

RefOf(c, its, i) == IF c # "list" THEN 0      \* 0 = the fixed parameter of the sibling group
                    ELSE CHOOSE j \in 1..Len(its) : /\ its[j].opts # "expr"
                                                    /\ \A k \in 1..Len(its) : its[k].opts # "expr" => j <= k

Expected(c, d, its) ==
  [i \in 1..Len(its) |->
     LET it == its[i] IN
     [explicit     |-> Labelled(it),
      index        |-> i,
      depth        |-> (CASE c = "list" -> 0 [] c = "dict1" -> 1 [] c = "dict2" -> 2 [] OTHER -> 3),
      val          |-> it.val,
      vary         |-> (IF it.opts = "expr" THEN FALSE
                        ELSE IF it.opts = "vary_false" THEN FALSE
                        ELSE IF it.opts = "vary_true" THEN TRUE
                        ELSE d # "vary_false"),
      non_negative |-> (it.opts = "nonneg" \/ d = "nonneg"),
      bounds       |-> (it.opts = "bounds"),
      dbounds      |-> (d = "bounds" /\ it.opts # "bounds"),      \* the default block's bounds, unless the item has its own
      expr         |-> (it.opts = "expr"),
      ref          |-> (IF it.opts = "expr" THEN RefOf(c, its, i) ELSE 0)]]

Init == /\ container \in Containers /\ dflt \in Defaults
        /\ dfltpos \in {"first", "last"} /\ (dflt = "none" => dfltpos = "first")
        /\ items = <<>> /\ done = FALSE

AddItem(it) == /\ ~done /\ Len(items) < MaxItems
               /\ items' = Append(items, it)
               /\ UNCHANGED <<container, dflt, dfltpos, done>>

Finish == /\ ~done /\ Complete(container, items) /\ done' = TRUE
          /\ UNCHANGED <<container, dflt, dfltpos, items>>

Next == (\E it \in Items : AddItem(it)) \/ Finish
Spec == Init /\ [][Next]_vars

-------------------------------------------------------------------------------
Exp == Expected(container, dflt, items)

(* automatic numbers are positions: distinct, and never shifted by the default block *)
NumbersArePositions == done => \A i \in 1..Len(items) : Exp[i].index = i
(* an expression parameter is never varied, whatever the default block or its options say *)
ExprNotVaried == done => \A i \in 1..Len(items) : Exp[i].expr => ~Exp[i].vary
(* own options win over the default block *)
OwnOptionsWin == done => \A i \in 1..Len(items) :
     /\ (items[i].opts = "vary_true" => Exp[i].vary)
     /\ (items[i].opts = "vary_false" => ~Exp[i].vary)
     /\ (items[i].opts = "bounds" => (Exp[i].bounds /\ ~Exp[i].dbounds))
(* the default block applies to every item that says nothing itself *)
DefaultsApply == done => \A i \in 1..Len(items) :
     /\ ((dflt = "vary_false" /\ items[i].opts \notin {"vary_true"}) => ~Exp[i].vary)
     /\ (dflt = "nonneg" => Exp[i].non_negative)
     /\ ((dflt = "bounds" /\ items[i].opts # "bounds") => Exp[i].dbounds)
(* an expression refers to something that is not itself an expression *)
RefIsPlain == done => \A i \in 1..Len(items) :
     (Exp[i].expr /\ container = "list") => (Exp[i].ref # i /\ items[Exp[i].ref].opts # "expr")
===============================================================================
