---------------------------- MODULE Compartments ----------------------------
(* C04 - decay matrices are the solution of the compartmental rate equations.          *)
(*                                                                                     *)
(* Exact reference for glotaran/builtin/megacomplexes/decay/{k_matrix,util,            *)
(* initial_concentration,decay_*_megacomplex}.py without IRF.  Compartments are the    *)
(* integers 1..N (the harness calls them "s1".."sN"); a K-matrix is a function on      *)
(* entry positions p = (to-1)*N + from with integer rates (0 = no entry).  One TLC run *)
(* fixes the declaration order Ord (order of InitialConcentration.compartments) and    *)
(* exclude_from_normalize; K-matrices, a second combined K-matrix and the initial      *)
(* concentration vector are enumerated by fan-out actions (never in Init).             *)
(*                                                                                     *)
(* For integer K every rational eigenvalue is an integer: Eigen searches               *)
(* r \in 0..2*max(-K[i,i]) (Gershgorin on columns) with Det(K + r*I) = 0 and the       *)
(* instance is accepted iff as many distinct roots are found as compartments are       *)
(* involved (real, distinct spectrum; everything else is counted and skipped).         *)
(* For a simple eigenvalue -r the adjugate adj(K + r*I) has rank one: each non-zero    *)
(* column is a right eigenvector v, each non-zero row a left eigenvector w,            *)
(* adj = c * v * w^T and trace(adj) = c * w^T v # 0.  The amplitude vector of          *)
(* exp(-r t), i.e. v * gamma with V * gamma = j, is therefore                          *)
(*        A_r = adj(K + r*I) * j / trace(adj(K + r*I))                                 *)
(* (fraction-free: numerators adj * jn, denominator trace * S where j = jn / S).       *)
(* That these really are the amplitudes is not assumed but checked by TLC on every     *)
(* accepted instance (SumsToJ, EigenEq): the two statements determine A uniquely.      *)
EXTENDS Integers, Sequences, FiniteSets, TLC, Json

CONSTANTS N,            \* number of declared compartments
          Rates,        \* admissible rate constants (positive integers)
          MaxEntries,   \* bound on the number of entries of the first K-matrix
          MaxEntries2,  \* bound on the number of entries of a second K-matrix (0 = single K-matrix)
          OrdCode,      \* declaration order: a permutation of 1..N written as a decimal number (213 = <<2, 1, 3>>; cfg files have no tuples)
          Excl,         \* exclude_from_normalize: set of compartments
          JCodes,       \* initial concentration parameter vectors by declaration position, as decimal numbers (121 = <<1, 2, 1>>)
          Kinds,        \* subset of {"general", "seq", "par"}
          FirstLo, FirstHi,  \* shard of the enumeration: position of the first entry of the first K-matrix (1 and N*N: everything)
          EmitOn        \* TRUE: every terminal state is printed as a JSON line

VARIABLES k1,      \* first K-matrix: position -> rate
          k2,      \* second K-matrix (entries override those of k1 when combined)
          last,    \* last position filled in the matrix under construction (entries are added in increasing position)
          phase,   \* "k1", "k2", "ready" (accepted spectrum), "done" (instance complete), "skipped" (irrational, complex or repeated spectrum)
          jv,      \* initial concentration parameters by declaration position
          kind,    \* "general": DecayMegacomplex; "seq"/"par": Decay{Sequential,Parallel}Megacomplex(compartments = Ord, rates = rv)
          rv       \* rates of a sequential / parallel megacomplex definition

vars == <<k1, k2, last, phase, jv, kind, rv>>

NN == N * N
To(p) == (p - 1) \div N + 1
From(p) == ((p - 1) % N) + 1
Pos(t, f) == (t - 1) * N + f
ZeroK == [p \in 1..NN |-> 0]
ZeroV == [i \in 1..N |-> 0]
Abs(x) == IF x < 0 THEN -x ELSE x
RECURSIVE Pow10(_)
Pow10(e) == IF e = 0 THEN 1 ELSE 10 * Pow10(e - 1)
Digits(code) == [i \in 1..N |-> (code \div Pow10(N - i)) % 10]
Ord == Digits(OrdCode)
JVecs == {Digits(c) : c \in JCodes}
ASSUME {Ord[i] : i \in 1..N} = 1..N

RECURSIVE SumTo(_, _)
SumTo(f, n) == IF n = 0 THEN 0 ELSE f[n] + SumTo(f, n - 1)
RECURSIVE ProdTo(_, _)
ProdTo(f, n) == IF n = 0 THEN 1 ELSE f[n] * ProdTo(f, n - 1)
RECURSIVE MaxTo(_, _)
MaxTo(f, n) == IF n = 0 THEN 0 ELSE LET r == MaxTo(f, n - 1) IN IF f[n] > r THEN f[n] ELSE r
RECURSIVE GCD(_, _)
GCD(a, b) == IF b = 0 THEN a ELSE GCD(b, a % b)
RECURSIVE SortedSeq(_)
SortedSeq(S) == IF S = {} THEN <<>> ELSE LET mn == CHOOSE x \in S : \A y \in S : x <= y IN <<mn>> \o SortedSeq(S \ {mn})
PosIn(s, x) == CHOOSE i \in 1..Len(s) : s[i] = x
NEntries(kc) == Cardinality({p \in 1..NN : kc[p] # 0})

(* exact rationals <<num, den>>, den > 0, gcd-normalised (used only where a common denominator could overflow) *)
RNorm(n, d) == LET g == GCD(Abs(n), Abs(d))  s == IF d < 0 THEN -1 ELSE 1 IN <<s * (n \div g), s * (d \div g)>>
RAdd(x, y) == LET g == GCD(x[2], y[2]) IN RNorm(x[1] * (y[2] \div g) + y[1] * (x[2] \div g), (x[2] \div g) * y[2])
RECURSIVE RSumTo(_, _)
RSumTo(f, n) == IF n = 0 THEN <<0, 1>> ELSE RAdd(f[n], RSumTo(f, n - 1))
REq(x, y) == x[1] * y[2] = y[1] * x[2]       \* equality of unnormalised fractions with non-zero denominators

-----------------------------------------------------------------------------
(* K-matrix semantics *)

(* KMatrix.combine: entries of the later matrix override *)
Combine(a, b) == [p \in 1..NN |-> IF b[p] # 0 THEN b[p] ELSE a[p]]
Comb == TLCEval(Combine(k1, k2))

Involved(kc) == {c \in 1..N : \E p \in 1..NN : kc[p] # 0 /\ (To(p) = c \/ From(p) = c)}
(* compartments of the megacomplex: declaration order of the initial concentration, restricted to the involved ones *)
Idx(kc, ord) == SelectSeq(ord, LAMBDA c : c \in Involved(kc))

(* off-diagonal entry (to, from): transfer, adds to [to, from] and subtracts from [from, from]; diagonal entry: loss *)
(* (TLCEval forces TLC to tabulate a function once instead of re-evaluating its body at every application) *)
FullK(kc, idx) == LET m == Len(idx) IN
  TLCEval([a \in 1..m |-> TLCEval([b \in 1..m |->
     IF a = b THEN -(kc[Pos(idx[a], idx[a])] + SumTo([c \in 1..N |-> IF c = idx[a] THEN 0 ELSE kc[Pos(c, idx[a])]], N))
     ELSE kc[Pos(idx[a], idx[b])]])])
ReducedK(kc, idx) == LET m == Len(idx) IN [a \in 1..m |-> [b \in 1..m |-> kc[Pos(idx[a], idx[b])]]]

(* InitialConcentration.normalized restricted to the megacomplex's compartments: j = jn / S *)
NonExcl(ord, ex) == {i \in 1..N : ord[i] \notin ex}
NormS(ord, v, ex) == IF NonExcl(ord, ex) = {} THEN 1 ELSE SumTo([i \in 1..N |-> IF ord[i] \in ex THEN 0 ELSE v[i]], N)
Normalised(ord, v, ex, idx) == LET S == NormS(ord, v, ex) IN
  TLCEval([a \in 1..Len(idx) |-> LET i == PosIn(ord, idx[a]) IN IF ord[i] \in ex THEN v[i] * S ELSE v[i]])

-----------------------------------------------------------------------------
(* closed-form determinants and adjugates, sizes 1..4 *)
Minor(M, m, i, j) == TLCEval([a \in 1..(m - 1) |-> TLCEval([b \in 1..(m - 1) |-> M[IF a < i THEN a ELSE a + 1][IF b < j THEN b ELSE b + 1]])])
Det2(M) == M[1][1] * M[2][2] - M[1][2] * M[2][1]
Det3(M) == M[1][1] * (M[2][2] * M[3][3] - M[2][3] * M[3][2])
         - M[1][2] * (M[2][1] * M[3][3] - M[2][3] * M[3][1])
         + M[1][3] * (M[2][1] * M[3][2] - M[2][2] * M[3][1])
Det4(M) == M[1][1] * Det3(Minor(M, 4, 1, 1)) - M[1][2] * Det3(Minor(M, 4, 1, 2))
         + M[1][3] * Det3(Minor(M, 4, 1, 3)) - M[1][4] * Det3(Minor(M, 4, 1, 4))
Det(M, m) == CASE m = 0 -> 1 [] m = 1 -> M[1][1] [] m = 2 -> Det2(M) [] m = 3 -> Det3(M) [] m = 4 -> Det4(M)
Sign(i, j) == IF (i + j) % 2 = 0 THEN 1 ELSE -1
Adj(M, m) == TLCEval([i \in 1..m |-> TLCEval([j \in 1..m |-> Sign(i, j) * Det(Minor(M, m, j, i), m - 1)])])
Shift(M, m, r) == TLCEval([a \in 1..m |-> TLCEval([b \in 1..m |-> IF a = b THEN M[a][b] + r ELSE M[a][b]])])
Dot(u, w, m) == SumTo([i \in 1..m |-> u[i] * w[i]], m)

(* integer eigenvalues of -K *)
MaxR(M, m) == 2 * MaxTo([i \in 1..m |-> -M[i][i]], m)
EigSet(M, m) == {r \in 0..MaxR(M, m) : Det(Shift(M, m, r), m) = 0}
Eigen(M, m) == SortedSeq(EigSet(M, m))      \* ascending; complete iff Len = m
SpectrumOK(kc) == LET idx == Idx(kc, Ord)  m == Len(idx) IN Cardinality(EigSet(FullK(kc, idx), m)) = m

(* everything the invariants and the emitted case need, for K-matrix kc, declaration order ord, parameters v *)
Sol(kc, ord, v, ex) ==
  LET idx == Idx(kc, ord)
      m   == Len(idx)
      M   == FullK(kc, idx)
      eig == Eigen(M, m)
      S   == NormS(ord, v, ex)
      jn  == Normalised(ord, v, ex, idx)
      adj == TLCEval([l \in 1..m |-> Adj(Shift(M, m, eig[l]), m)])
      tr  == TLCEval([l \in 1..m |-> SumTo([i \in 1..m |-> adj[l][i][i]], m)])
  IN [idx |-> idx, m |-> m, M |-> M, eig |-> eig, S |-> S, jn |-> jn,
      an |-> TLCEval([l \in 1..m |-> TLCEval([i \in 1..m |-> Dot(adj[l][i], jn, m)])]),     \* amplitude numerators: component l, compartment i
      ad |-> TLCEval([l \in 1..m |-> tr[l] * S])]                                         \* amplitude denominators

-----------------------------------------------------------------------------
(* sequential and parallel megacomplex definitions: expansion to K and j *)
SeqK(ord, r) == [p \in 1..NN |->
   IF \E i \in 1..(N - 1) : To(p) = ord[i + 1] /\ From(p) = ord[i]
   THEN r[CHOOSE i \in 1..(N - 1) : To(p) = ord[i + 1] /\ From(p) = ord[i]]
   ELSE IF To(p) = ord[N] /\ From(p) = ord[N] THEN r[N] ELSE 0]
ParK(ord, r) == [p \in 1..NN |-> IF To(p) = From(p) THEN r[PosIn(ord, To(p))] ELSE 0]
E1 == [i \in 1..N |-> IF i = 1 THEN 1 ELSE 0]
Ones == [i \in 1..N |-> 1]

(* closed form of the unibranched chain with rates d (DecaySequentialMegacomplex, a_matrix_sequential):  *)
(* component i, compartment c:  prod_{q<c} d_q / prod_{q<=c, q#i} (d_q - d_i)  for i <= c, else 0        *)
Distinct(d, m) == \A a, b \in 1..m : a # b => d[a] # d[b]
ClosedN(d, i, c) == IF i <= c THEN ProdTo([q \in 1..(c - 1) |-> d[q]], c - 1) ELSE 0
ClosedD(d, i, c) == IF i <= c THEN ProdTo([q \in 1..c |-> IF q = i THEN 1 ELSE d[q] - d[i]], c) ELSE 1

(* do the closed-form concentrations with rates d equal the concentrations of solution s, as functions of t?  *)
(* (exponentials with distinct rates are linearly independent: compare coefficients rate by rate)            *)
ClosedMatches(d, s) ==
  /\ Distinct(d, s.m)
  /\ \A x \in {d[i] : i \in 1..s.m} \cup {s.eig[l] : l \in 1..s.m} : \A c \in 1..s.m :
       LET cl == IF \E i \in 1..s.m : d[i] = x
                 THEN LET i == CHOOSE i \in 1..s.m : d[i] = x IN <<ClosedN(d, i, c), ClosedD(d, i, c)>> ELSE <<0, 1>>
           ge == IF \E l \in 1..s.m : s.eig[l] = x
                 THEN LET l == CHOOSE l \in 1..s.m : s.eig[l] = x IN <<s.an[l][c], s.ad[l]>> ELSE <<0, 1>>
       IN REq(cl, ge)

(* K is a chain in declaration order: exactly the transfers idx[i] -> idx[i+1], optionally a loss from the last *)
ChainEdge(p, idx, m) == \E i \in 1..(m - 1) : To(p) = idx[i + 1] /\ From(p) = idx[i]
FinalLoss(p, idx, m) == To(p) = idx[m] /\ From(p) = idx[m]
IsChain(kc, idx, m) == \A p \in 1..NN : /\ ChainEdge(p, idx, m) => kc[p] # 0
                                        /\ kc[p] # 0 => ChainEdge(p, idx, m) \/ FinalLoss(p, idx, m)
JIsE1(s) == s.jn[1] = s.S /\ \A i \in 2..s.m : s.jn[i] = 0
ShortcutOK(kc, s) == IsChain(kc, s.idx, s.m) /\ JIsE1(s)
(* the weakest structural condition under which the closed form is still right: the chain shape is needed only as   *)
(* far as population starting in idx[1] gets - up to the first compartment without outflow; what leaves the        *)
(* compartments behind it is irrelevant because they stay empty                                                     *)
ColEmpty(kc, c) == \A p \in 1..NN : From(p) = c => kc[p] = 0
ReachChain(kc, idx, m) == \A a \in 1..m : (\A b \in 1..(a - 1) : ~ColEmpty(kc, idx[b])) =>
   \A p \in 1..NN : (From(p) = idx[a] /\ kc[p] # 0) => To(p) = idx[IF a < m THEN a + 1 ELSE m]

-----------------------------------------------------------------------------
(* enumeration *)
Init == /\ k1 = ZeroK /\ k2 = ZeroK /\ last = 0 /\ phase = "k1" /\ jv = ZeroV /\ kind = "general" /\ rv = ZeroV

AddEntry1(p, r) == /\ phase = "k1" /\ "general" \in Kinds /\ p > last /\ NEntries(k1) < MaxEntries
                   /\ last = 0 => (FirstLo <= p /\ p <= FirstHi)
                   /\ k1' = [k1 EXCEPT ![p] = r] /\ last' = p
                   /\ UNCHANGED <<k2, phase, jv, kind, rv>>

StartK2 == /\ phase = "k1" /\ MaxEntries2 > 0 /\ NEntries(k1) > 0
           /\ phase' = "k2" /\ last' = 0
           /\ UNCHANGED <<k1, k2, jv, kind, rv>>

AddEntry2(p, r) == /\ phase = "k2" /\ p > last /\ NEntries(k2) < MaxEntries2
                   /\ k2' = [k2 EXCEPT ![p] = r] /\ last' = p
                   /\ UNCHANGED <<k1, phase, jv, kind, rv>>

Ready == \/ phase = "k1" /\ MaxEntries2 = 0 /\ NEntries(k1) > 0
         \/ phase = "k2" /\ NEntries(k2) > 0

(* the K-matrix (pair) is complete: the spectrum is examined once *)
Close == /\ Ready
         /\ phase' = IF SpectrumOK(Comb) THEN "ready" ELSE "skipped"
         /\ UNCHANGED <<k1, k2, last, jv, kind, rv>>

Finish(v) == /\ phase = "ready"
             /\ jv' = v /\ phase' = "done"
             /\ UNCHANGED <<k1, k2, last, kind, rv>>

DefSeq(r) == /\ phase = "k1" /\ last = 0 /\ "seq" \in Kinds /\ Excl = {}
             /\ kind' = "seq" /\ rv' = r /\ k1' = SeqK(Ord, r) /\ jv' = E1
             /\ phase' = IF SpectrumOK(SeqK(Ord, r)) THEN "done" ELSE "skipped"
             /\ UNCHANGED <<k2, last>>

DefPar(r) == /\ phase = "k1" /\ last = 0 /\ "par" \in Kinds /\ Excl = {}
             /\ kind' = "par" /\ rv' = r /\ k1' = ParK(Ord, r) /\ jv' = Ones
             /\ phase' = IF SpectrumOK(ParK(Ord, r)) THEN "done" ELSE "skipped"
             /\ UNCHANGED <<k2, last>>

Fill1 == phase = "k1" /\ \E p \in (last + 1)..NN, r \in Rates : AddEntry1(p, r)
Fill2 == phase = "k2" /\ \E p \in 1..NN, r \in Rates : AddEntry2(p, r)
Instantiate == phase = "ready" /\ \E v \in JVecs : Finish(v)
DefineSeq == (phase = "k1" /\ last = 0) /\ \E r \in [1..N -> Rates] : DefSeq(r)
DefinePar == (phase = "k1" /\ last = 0) /\ \E r \in [1..N -> Rates] : DefPar(r)

Next == Fill1 \/ Fill2 \/ StartK2 \/ Close \/ Instantiate \/ DefineSeq \/ DefinePar

Spec == Init /\ [][Next]_vars

-----------------------------------------------------------------------------
(* an accepted instance: accepted spectrum and a defined normalisation *)
NormOK == NormS(Ord, jv, Excl) > 0
Accepted == phase = "done" /\ NormOK
Here == Sol(Comb, Ord, jv, Excl)

TypeOK == /\ phase \in {"k1", "k2", "ready", "done", "skipped"} /\ kind \in {"general", "seq", "par"}
          /\ \A p \in 1..NN : k1[p] \in Rates \cup {0} /\ k2[p] \in Rates \cup {0}
          /\ NEntries(k1) <= (IF kind = "general" THEN MaxEntries ELSE N) /\ NEntries(k2) <= MaxEntries2

(* c(0) = j : the amplitudes sum to the normalised initial concentration *)
SumsToJ(s) == /\ \A l \in 1..s.m : s.ad[l] # 0
              /\ \A i \in 1..s.m : RSumTo([l \in 1..s.m |-> RNorm(s.an[l][i], s.ad[l])], s.m) = RNorm(s.jn[i], s.S)
(* c'(t) = K c(t) : every amplitude vector is an eigenvector, K A_l = -lambda_l A_l *)
EigenEq(s) == \A l \in 1..s.m : \A i \in 1..s.m : Dot(s.M[i], s.an[l], s.m) = -s.eig[l] * s.an[l][i]
(* no loss channel (all column sums of K vanish) => only the constant component carries population *)
Lossless(s) == \A b \in 1..s.m : SumTo([a \in 1..s.m |-> s.M[a][b]], s.m) = 0
Conserved(s) == Lossless(s) => \A l \in 1..s.m : s.eig[l] # 0 => SumTo(s.an[l], s.m) = 0
(* the same K and the same j per label, declared in the order 1..N, give the same amplitudes per label *)
PermutationEquivariance(s) == LET id  == [i \in 1..N |-> i]
                    vid == [c \in 1..N |-> jv[PosIn(Ord, c)]]
                    t   == Sol(Comb, id, vid, Excl)
                IN /\ t.eig = s.eig /\ t.ad = s.ad /\ t.S = s.S
                   /\ \A l \in 1..s.m : \A i \in 1..s.m : s.an[l][i] = t.an[l][PosIn(t.idx, s.idx[i])]
(* sequential megacomplex (compartments Ord, rates rv) == general megacomplex on SeqK, j = e1 *)
SeqEquiv(s) == kind = "seq" => ClosedMatches(rv, s)
(* parallel megacomplex: compartment c decays with rv[c], initial population 1/N each *)
ParEquiv(s) == kind = "par" => \A l \in 1..s.m : \A c \in 1..s.m :
                  REq(<<s.an[l][c], s.ad[l]>>, IF rv[c] = s.eig[l] THEN <<1, N>> ELSE <<0, 1>>)
(* the closed-form unibranched path (rates = -diag K in declaration order) is right only for a chain with j = e1  *)
(* (chain as far as the population gets), and there it is right whenever it is defined                            *)
Diag(s) == TLCEval([i \in 1..s.m |-> -s.M[i][i]])
Shortcut(s) == LET cm == ClosedMatches(Diag(s), s)
                   rc == JIsE1(s) /\ ReachChain(Comb, s.idx, s.m)
               IN [admissible |-> (cm => rc),
                   sound |-> (ShortcutOK(Comb, s) => rc) /\ ((rc /\ Distinct(Diag(s), s.m)) => cm)]
SequentialShortcutAdmissible(s) == Shortcut(s).admissible
SequentialShortcutSound(s) == Shortcut(s).sound

InvSumsToJ == Accepted => SumsToJ(Here)
InvEigenEq == Accepted => EigenEq(Here)
InvConserved == Accepted => Conserved(Here)
InvPermutationEquivariance == Accepted => PermutationEquivariance(Here)
InvSeqEquiv == Accepted => SeqEquiv(Here)
InvParEquiv == Accepted => ParEquiv(Here)
InvSequentialShortcutAdmissible == Accepted => SequentialShortcutAdmissible(Here)
InvSequentialShortcutSound == Accepted => SequentialShortcutSound(Here)

Entries(kc) == LET ps == SelectSeq([p \in 1..NN |-> p], LAMBDA p : kc[p] # 0)
               IN [i \in 1..Len(ps) |-> <<To(ps[i]), From(ps[i]), kc[ps[i]]>>]
Case(st, s) == [st |-> st, kind |-> kind, n |-> N, ord |-> Ord, excl |-> SortedSeq(Excl), k1 |-> Entries(k1), k2 |-> Entries(k2),
                jv |-> jv, rv |-> rv, idx |-> s.idx, full |-> s.M, reduced |-> ReducedK(Comb, s.idx), jn |-> s.jn, jden |-> s.S,
                eig |-> s.eig, anum |-> s.an, aden |-> s.ad,
                chain |-> IsChain(Comb, s.idx, s.m), je1 |-> JIsE1(s), lossless |-> Lossless(s)]

(* all of the above with one evaluation of Sol per state, plus the emission of the case *)
CheckAndEmit ==
  /\ Accepted => LET s == Here IN
        /\ SumsToJ(s) /\ EigenEq(s) /\ Conserved(s) /\ PermutationEquivariance(s) /\ SeqEquiv(s) /\ ParEquiv(s)
        /\ LET sc == Shortcut(s) IN sc.admissible /\ sc.sound
        /\ EmitOn => PrintT(<<"CASE", ToJson(Case("ok", s))>>)
  /\ (EmitOn /\ phase = "done" /\ ~NormOK) => PrintT(<<"CASE", ToJson([st |-> "skip_norm", kind |-> kind])>>)
  /\ (EmitOn /\ phase = "skipped") => PrintT(<<"CASE", ToJson([st |-> "skip_spectrum", kind |-> kind])>>)
=============================================================================
