------------------------------ MODULE Validation ------------------------------
(* C20 - validation of a pyglotaran model is sound and complete for references.            *)
(*                                                                                         *)
(* A model is a set of items [kind, label, type, slots]; a slot is one reference-carrying  *)
(* attribute [name, shape \in {scalar, list, dict}, target \in kinds \cup {"parameter"},   *)
(* keys, vals].  WHICH attributes of which item type carry references (the reference       *)
(* schema) is written by hand below from the documentation of the builtin item types; the  *)
(* harness hands over raw model dictionaries (JSON) and never says what a reference is.    *)
(* TLC enumerates, by fan-out from every base model, single (or MaxMut) mutations:         *)
(* misspelled references (undefined label, label of another namespace), removed reference  *)
(* entries, removed item definitions, removed parameters, consistent renamings, appended   *)
(* megacomplex references (duplicated unique / combined exclusive), shortened oscillation   *)
(* label lists (equal-length requirement).  For every mutant the                            *)
(* expected issue set is computed; the harness compares it with the real validation.       *)
EXTENDS Naturals, Sequences, FiniteSets, TLC, Json, IOUtils, SequencesExt

CONSTANTS MaxMut,      \* number of mutations applied to one base model
          Wrong,       \* a label defined in no namespace
          Renamed,     \* fresh item label used by consistent renaming
          RenamedP     \* fresh parameter label used by consistent renaming

Input == JsonDeserialize(IOEnv.C20_BASES)
Bases == Input.bases       \* sequence of [name, model (raw dictionary), parameters (sequence of labels)]

VARIABLES base,    \* index of the base model, 0 before one is picked
          muts,    \* sequence of mutations applied
          items,   \* the (mutated) model: set of items
          params   \* the (mutated) parameter set: set of labels

vars == <<base, muts, items, params>>

-------------------------------------------------------------------------------
(* Reference schema, hand-written.  R(attribute, shape, target, optional)                   *)
PAR == "parameter"
R(n, sh, tg, opt) == [name |-> n, shape |-> sh, target |-> tg, opt |-> opt]

DictKinds == {"dataset", "megacomplex", "k_matrix", "initial_concentration", "irf", "shape", "dataset_groups"}
ListKinds == {"clp_penalties", "clp_relations", "clp_constraints", "weights"}   \* unlabelled items: label = position

(* dataset model (base + decay + spectral + pfid dataset models).  global_megacomplex is    *)
(* the aliased attribute: its labels live in the namespace "megacomplex".  The spectral     *)
(* axis settings (spectral_axis_inverted, spectral_axis_scale) and force_index_dependent    *)
(* are plain values.  group names a dataset group ("default" always exists).                *)
DatasetSchema ==
  { R("megacomplex", "list", "megacomplex", FALSE), R("global_megacomplex", "list", "megacomplex", TRUE),
    R("megacomplex_scale", "list", PAR, TRUE), R("global_megacomplex_scale", "list", PAR, TRUE),
    R("scale", "scalar", PAR, TRUE), R("irf", "scalar", "irf", TRUE),
    R("initial_concentration", "scalar", "initial_concentration", TRUE),
    R("group", "scalar", "dataset_groups", TRUE) }

IrfCommon == { R("scale", "list", PAR, TRUE), R("shift", "list", PAR, TRUE), R("backsweep_period", "scalar", PAR, TRUE) }
IrfDispersion == { R("dispersion_center", "scalar", PAR, FALSE), R("center_dispersion_coefficients", "list", PAR, FALSE),
                   R("width_dispersion_coefficients", "list", PAR, TRUE) }
IrfCW(sh) == { R("center", sh, PAR, FALSE), R("width", sh, PAR, FALSE) }

ShapeGaussian == { R("amplitude", "scalar", PAR, TRUE), R("location", "scalar", PAR, FALSE), R("width", "scalar", PAR, FALSE) }

Schema(kind, type) ==
  CASE kind = "dataset" -> DatasetSchema
    [] kind = "megacomplex" ->
         ( CASE type = "decay" -> { R("k_matrix", "list", "k_matrix", FALSE) }
             [] type \in {"decay-parallel", "decay-sequential"} -> { R("rates", "list", PAR, FALSE) }
             [] type = "spectral" -> { R("shape", "dict", "shape", FALSE) }
             [] type = "coherent-artifact" -> { R("width", "scalar", PAR, TRUE) }
             [] type \in {"damped-oscillation", "pfid"} -> { R("frequencies", "list", PAR, FALSE), R("rates", "list", PAR, FALSE) }
             [] type \in {"baseline", "clp-guide"} -> {} )
    [] kind = "k_matrix" -> { R("matrix", "dict", PAR, FALSE) }
    [] kind = "initial_concentration" -> { R("parameters", "list", PAR, FALSE) }
    [] kind = "irf" ->
         ( CASE type = "gaussian" -> IrfCW("scalar") \cup IrfCommon
             [] type = "multi-gaussian" -> IrfCW("list") \cup IrfCommon
             [] type = "spectral-gaussian" -> IrfCW("scalar") \cup IrfCommon \cup IrfDispersion
             [] type = "spectral-multi-gaussian" -> IrfCW("list") \cup IrfCommon \cup IrfDispersion )
    [] kind = "shape" ->
         ( CASE type = "gaussian" -> ShapeGaussian
             [] type = "skewed-gaussian" -> ShapeGaussian \cup { R("skewness", "scalar", PAR, FALSE) }
             [] type \in {"one", "zero"} -> {} )
    [] kind = "dataset_groups" -> {}
    [] kind = "clp_penalties" -> ( CASE type = "equal_area" -> { R("parameter", "scalar", PAR, FALSE) } )
    [] kind = "clp_relations" -> { R("parameter", "scalar", PAR, FALSE) }
    [] kind = "clp_constraints" -> ( CASE type \in {"zero", "only"} -> {} )
    [] kind = "weights" -> { R("datasets", "list", "dataset", FALSE) }

ExclusiveTypes == {"clp-guide"}                        \* cannot be combined with other megacomplexes of a dataset
UniqueTypes == {"baseline", "coherent-artifact"}       \* at most once per dataset
OscTypes == {"damped-oscillation", "pfid"}             \* labels, frequencies, rates must have equal length

(* the schema as a table, emitted so that the harness can cross-check it (warning only)     *)
(* against introspection of the item classes                                                *)
SchemaTable ==
  LET T(k, ts) == { [kind |-> k, type |-> t, slots |-> Schema(k, t)] : t \in ts } IN
  T("dataset", {""}) \cup T("k_matrix", {""}) \cup T("initial_concentration", {""}) \cup T("clp_relations", {""})
  \cup T("weights", {""}) \cup T("dataset_groups", {""}) \cup T("clp_penalties", {"equal_area"}) \cup T("clp_constraints", {"zero", "only"})
  \cup T("megacomplex", {"decay", "decay-parallel", "decay-sequential", "spectral", "coherent-artifact", "damped-oscillation", "pfid", "baseline", "clp-guide"})
  \cup T("irf", {"gaussian", "multi-gaussian", "spectral-gaussian", "spectral-multi-gaussian"})
  \cup T("shape", {"gaussian", "skewed-gaussian", "one", "zero"})

-------------------------------------------------------------------------------
(* raw dictionary -> items (the schema decides what is a reference)                          *)
Ran(s) == {s[i] : i \in DOMAIN s}
TypeOf(raw) == IF "type" \in DOMAIN raw THEN raw["type"] ELSE ""

SlotOf(s, raw) ==
  LET v == raw[s.name]
      mk(ks, vs) == [name |-> s.name, shape |-> s.shape, target |-> s.target, opt |-> s.opt, keys |-> ks, vals |-> vs]
  IN CASE s.shape = "scalar" -> mk(<<>>, <<v>>)
       [] s.shape = "list" -> mk(<<>>, [i \in 1..Len(v) |-> v[i]])
       [] s.shape = "dict" -> LET ks == SetToSeq(DOMAIN v) IN mk(ks, [i \in 1..Len(ks) |-> v[ks[i]]])

ItemOf(kind, label, raw) ==
  [kind |-> kind, label |-> label, orig |-> label, type |-> TypeOf(raw),
   nlabels |-> IF TypeOf(raw) \in OscTypes /\ kind = "megacomplex" THEN Len(raw["labels"]) ELSE 0,
   slots |-> { SlotOf(s, raw) : s \in {x \in Schema(kind, TypeOf(raw)) : x.name \in DOMAIN raw} }]

Normalize(m) ==
  UNION { { ItemOf(k, l, m[k][l]) : l \in DOMAIN m[k] } : k \in DictKinds \cap DOMAIN m }
  \cup UNION { { ItemOf(k, ToString(i), m[k][i]) : i \in 1..Len(m[k]) } : k \in ListKinds \cap DOMAIN m }

-------------------------------------------------------------------------------
(* expected issues: triples <<class, item name / type, label>>                               *)
Labels(M, k) == { it.label : it \in {x \in M : x.kind = k} } \cup (IF k = "dataset_groups" THEN {"default"} ELSE {})

ModelRefs(M) == UNION { UNION { { <<s.target, s.vals[i]>> : i \in 1..Len(s.vals) } : s \in {x \in it.slots : x.target # PAR} } : it \in M }
ParamRefs(M) == UNION { UNION { Ran(s.vals) : s \in {x \in it.slots : x.target = PAR} } : it \in M }

DanglingModel(M) == { <<"model_item", r[1], r[2]>> : r \in {x \in ModelRefs(M) : x[2] \notin Labels(M, x[1])} }
DanglingParam(M, P) == { <<"parameter", "", q>> : q \in ParamRefs(M) \ P }

MegaType(M, l) == (CHOOSE it \in M : it.kind = "megacomplex" /\ it.label = l).type
MegaLists(M) == UNION { { s.vals : s \in {x \in it.slots : x.target = "megacomplex"} } : it \in {x \in M : x.kind = "dataset"} }
Resolvable(M, vs) == LET Def(v) == v \in Labels(M, "megacomplex") IN SelectSeq(vs, Def)

ExclIn(M, vs, n) ==
  IF n > 1 THEN { <<"exclusive", MegaType(M, v), v>> : v \in {x \in Ran(Resolvable(M, vs)) : MegaType(M, x) \in ExclusiveTypes} } ELSE {}
(* the property does not say whether an undefined label in the list counts as "another megacomplex": *)
(* must = judged on the defined entries, may = judged on all entries                                *)
ExclMust(M) == UNION { ExclIn(M, vs, Len(Resolvable(M, vs))) : vs \in MegaLists(M) }
ExclMay(M) == UNION { ExclIn(M, vs, Len(vs)) : vs \in MegaLists(M) }
UniqIn(M, vs) ==
  LET r == Resolvable(M, vs)
      T(i) == MegaType(M, r[i])
  IN { <<"unique", T(i), r[i]>> : i \in {j \in 1..Len(r) : T(j) \in UniqueTypes /\ Cardinality({k \in 1..Len(r) : T(k) = T(j)}) > 1} }
Uniq(M) == UNION { UniqIn(M, vs) : vs \in MegaLists(M) }

SlotLen(it, n) == IF \E s \in it.slots : s.name = n THEN Len((CHOOSE s \in it.slots : s.name = n).vals) ELSE 0
LengthIssues(M) ==
  { <<"length", it.type, it.label>> :
      it \in {x \in M : x.kind = "megacomplex" /\ x.type \in OscTypes
                        /\ Cardinality({x.nlabels, SlotLen(x, "frequencies"), SlotLen(x, "rates")}) > 1} }

Must(M, P, withP) == DanglingModel(M) \cup (IF withP THEN DanglingParam(M, P) ELSE {}) \cup ExclMust(M) \cup Uniq(M) \cup LengthIssues(M)
May(M, P, withP) == Must(M, P, withP) \cup ExclMay(M)

(* the same statement written position by position with quantifiers instead of set building *)
Defined(M, k, l) == (\E d \in M : d.kind = k /\ d.label = l) \/ (k = "dataset_groups" /\ l = "default")
AllResolve(M, P, withP) ==
  /\ \A it \in M : \A s \in it.slots : \A i \in 1..Len(s.vals) :
        IF s.target = PAR THEN (withP => s.vals[i] \in P) ELSE Defined(M, s.target, s.vals[i])
  /\ \A d \in M : d.kind = "dataset" => \A s \in d.slots : s.target = "megacomplex" =>
        LET defd == {i \in 1..Len(s.vals) : Defined(M, "megacomplex", s.vals[i])} IN
        /\ Cardinality(defd) > 1 => \A i \in defd : MegaType(M, s.vals[i]) \notin ExclusiveTypes
        /\ \A i, j \in defd : (i # j /\ MegaType(M, s.vals[i]) = MegaType(M, s.vals[j])) => MegaType(M, s.vals[i]) \notin UniqueTypes
  /\ \A it \in M : (it.kind = "megacomplex" /\ it.type \in OscTypes) =>
        (it.nlabels = SlotLen(it, "frequencies") /\ it.nlabels = SlotLen(it, "rates"))

(* filling: recursive resolution from the datasets and the global items, as fill_item does   *)
Children(M, it) == { d \in M : \E s \in it.slots : s.target = d.kind /\ d.label \in Ran(s.vals) }
Grow(M, S) == S \cup UNION { Children(M, x) : x \in S }
Reach(M) == Grow(M, Grow(M, Grow(M, {x \in M : x.kind = "dataset" \/ x.kind \in ListKinds})))
FillOK(M, P) ==
  \A it \in Reach(M) : \A s \in it.slots : \A i \in 1..Len(s.vals) :
     IF s.target = PAR THEN s.vals[i] \in P ELSE Defined(M, s.target, s.vals[i])

GenParams(M) == ParamRefs(M)       \* the parameters generated for a model: one per referenced label

-------------------------------------------------------------------------------
(* mutations                                                                                 *)
ReplaceItem(M, old, new) == (M \ {old}) \cup {new}
WithSlot(it, s, s2) == [it EXCEPT !.slots = (@ \ {s}) \cup {s2}]
DropAt(q, i) == [j \in 1..(Len(q) - 1) |-> IF j < i THEN q[j] ELSE q[j + 1]]

SetVal(M, it, s, i, v) == ReplaceItem(M, it, WithSlot(it, s, [s EXCEPT !.vals = [j \in 1..Len(s.vals) |-> IF j = i THEN v ELSE s.vals[j]]]))
DropRef(M, it, s, i) ==
  IF s.shape = "scalar" THEN ReplaceItem(M, it, [it EXCEPT !.slots = @ \ {s}])
  ELSE ReplaceItem(M, it, WithSlot(it, s, [s EXCEPT !.vals = DropAt(s.vals, i), !.keys = IF s.shape = "dict" THEN DropAt(s.keys, i) ELSE s.keys]))
RenameIn(s, tk, old, new) ==
  IF s.target = tk THEN [s EXCEPT !.vals = [j \in 1..Len(s.vals) |-> IF s.vals[j] = old THEN new ELSE s.vals[j]]] ELSE s
RenameItem(M, k, l, new) ==
  { [it EXCEPT !.label = IF it.kind = k /\ it.label = l THEN new ELSE @, !.slots = {RenameIn(s, k, l, new) : s \in it.slots}] : it \in M }
RenameParam(M, q, new) == { [it EXCEPT !.slots = {RenameIn(s, PAR, q, new) : s \in it.slots}] : it \in M }

(* labels of another namespace that are undefined in the slot's own namespace *)
CrossLabels(M, P, s) ==
  LET other == IF s.target = "dataset" THEN "megacomplex" ELSE "dataset"
      cand == (IF s.target # PAR /\ P # {} THEN {CHOOSE q \in P : TRUE} ELSE {})
              \cup (IF Labels(M, other) # {} THEN {CHOOSE l \in Labels(M, other) : TRUE} ELSE {})
  IN IF s.target = PAR THEN cand \ P ELSE cand \ Labels(M, s.target)

Init == base = 0 /\ muts = <<>> /\ items = {} /\ params = {}

PickBase(b) ==
  /\ base = 0 /\ base' = b /\ muts' = <<>>
  /\ items' = Normalize(Bases[b].model)
  /\ params' = Ran(Bases[b].parameters)

CanMutate == base # 0 /\ Len(muts) < MaxMut
Rec(op, it, sname, i, arg) == [op |-> op, kind |-> it.kind, label |-> it.label, slot |-> sname, idx |-> i, arg |-> arg]
NoItem == [kind |-> "", label |-> ""]
Step(m, M2, P2) == muts' = Append(muts, m) /\ items' = M2 /\ params' = P2 /\ UNCHANGED base

Misspell ==
  /\ CanMutate
  /\ \E it \in items : \E s \in it.slots : \E i \in 1..Len(s.vals) : \E v \in {Wrong} \cup CrossLabels(items, params, s) :
       Step(Rec("misspell", it, s.name, i, v), SetVal(items, it, s, i, v), params)

DropReference ==
  /\ CanMutate
  /\ \E it \in items : \E s \in {x \in it.slots : x.shape # "scalar" \/ x.opt} : \E i \in 1..Len(s.vals) :
       Step(Rec("dropref", it, s.name, i, s.vals[i]), DropRef(items, it, s, i), params)

DeleteItem ==
  /\ CanMutate
  /\ \E it \in {x \in items : x.kind \in DictKinds} :
       Step(Rec("delitem", it, "", 0, ""), items \ {it}, params)

DeleteParam ==
  /\ CanMutate
  /\ \E q \in params : Step(Rec("delparam", NoItem, "", 0, q), items, params \ {q})

Rename ==
  /\ CanMutate
  /\ \E it \in {x \in items : x.kind \in DictKinds /\ Renamed \notin Labels(items, x.kind)} :
       Step(Rec("rename", it, "", 0, Renamed), RenameItem(items, it.kind, it.label, Renamed), params)

RenameParameter ==
  /\ CanMutate /\ RenamedP \notin params
  /\ \E q \in params : Step(Rec("renameparam", NoItem, "", 0, q), RenameParam(items, q, RenamedP), (params \ {q}) \cup {RenamedP})

AppendMegacomplex ==     \* duplicated unique / combined exclusive megacomplexes (and harmless combinations)
  /\ CanMutate
  /\ \E it \in {x \in items : x.kind = "dataset"} : \E s \in {x \in it.slots : x.target = "megacomplex"} : \E v \in Labels(items, "megacomplex") :
       Step(Rec("append", it, s.name, Len(s.vals) + 1, v), ReplaceItem(items, it, WithSlot(it, s, [s EXCEPT !.vals = Append(s.vals, v)])), params)

DropPlainLabel ==        \* one oscillation label less: the labels / frequencies / rates lists no longer have one length
  /\ CanMutate
  /\ \E it \in {x \in items : x.kind = "megacomplex" /\ x.type \in OscTypes /\ x.nlabels > 0} :
       Step(Rec("droplabel", it, "labels", it.nlabels, ""), ReplaceItem(items, it, [it EXCEPT !.nlabels = @ - 1]), params)

Next == \/ \E b \in 1..Len(Bases) : PickBase(b)
        \/ Misspell \/ DropReference \/ DeleteItem \/ DeleteParam \/ Rename \/ RenameParameter \/ AppendMegacomplex
        \/ DropPlainLabel

Spec == Init /\ [][Next]_vars

-------------------------------------------------------------------------------
TypeOK ==
  /\ base \in 0..Len(Bases) /\ Len(muts) <= MaxMut
  /\ \A a, b \in items : (a.kind = b.kind /\ a.label = b.label) => a = b
  /\ \A it \in items : \A s \in it.slots : (s.shape = "scalar" => Len(s.vals) = 1) /\ (s.shape = "dict" => Len(s.keys) = Len(s.vals))
  /\ LET R3 == Reach(items) IN Grow(items, R3) = R3        \* three rounds reach the fixpoint

(* every base model of the generator is valid with its parameters, and can be filled *)
BaseValid == (base # 0 /\ muts = <<>>) => (May(items, params, TRUE) = {} /\ FillOK(items, params))

(* soundness and completeness of the reference issue set, with and without parameters *)
SoundAndComplete == \A w \in BOOLEAN : (Must(items, params, w) = {}) <=> AllResolve(items, params, w)

(* what validates can be filled (flat scan of all items covers the recursive resolution) *)
ValidFills == Must(items, params, TRUE) = {} => FillOK(items, params)

GeneratedParametersSuffice ==
  /\ DanglingParam(items, GenParams(items)) = {}
  /\ Must(items, GenParams(items), TRUE) = Must(items, params, FALSE)
  /\ May(items, GenParams(items), TRUE) = May(items, params, FALSE)

(* a single injected fault on a valid base is found, and nothing else is reported *)
InjectedFaultFound ==
  (base # 0 /\ Len(muts) = 1) =>
    LET m == muts[1]
        mp == Must(items, params, TRUE)
        mn == Must(items, params, FALSE)
        tgt == IF m.op = "misspell"
               THEN (CHOOSE s \in (CHOOSE it \in items : it.kind = m.kind /\ it.label = m.label).slots : s.name = m.slot).target ELSE ""
    IN CASE m.op = "misspell" ->
              IF tgt = PAR THEN mp = {<<"parameter", "", m.arg>>} /\ mn = {}
              ELSE mp = {<<"model_item", tgt, m.arg>>} /\ mn = mp /\ ~AllResolve(items, params, FALSE)
         [] m.op = "delparam" -> mn = {} /\ mp = (IF m.arg \in ParamRefs(items) THEN {<<"parameter", "", m.arg>>} ELSE {})
         [] m.op = "delitem" -> mn = mp /\ mp \subseteq {<<"model_item", m.kind, m.label>>}
                                /\ (mp = {} <=> \A r \in ModelRefs(items) : r # <<m.kind, m.label>>)
         [] m.op \in {"rename", "renameparam"} -> mp = {} /\ mn = {} /\ FillOK(items, params)
         [] m.op = "dropref" -> mn = mp /\ \A x \in mp : x[1] = "length"
         [] m.op = "append" -> mn = mp /\ \A x \in mp : x[1] \in {"exclusive", "unique"}
         [] m.op = "droplabel" -> mn = mp /\ \E t \in OscTypes : mp = {<<"length", t, m.label>>}

(* a misspelled reference in an item that filling reaches breaks filling *)
ReachableFaultBreaksFill ==
  (base # 0 /\ Len(muts) = 1 /\ muts[1].op = "misspell"
     /\ (\E it \in Reach(items) : it.kind = muts[1].kind /\ it.label = muts[1].label)) => ~FillOK(items, params)
===============================================================================
