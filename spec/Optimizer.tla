------------------------------- MODULE Optimizer -------------------------------
(* Life cycle of one call of glotaran.optimization.optimize.optimize (C15) and the purity of   *)
(* the objective over histories of evaluations (C10).                                           *)
(*                                                                                              *)
(* One action per critical section of optimizer.py / tee.py:                                    *)
(*   Reject(kind) Construct EnvSwap DirectEval DirectEvalFail EnterTee Eval EvalNaN EvalFail    *)
(*   SciPyReturns SciPyRaises Swallow Propagate ExitTee RaiseInitialParameterError Fallback     *)
(*   ToFinal FinalEval FinalEvalNaN LateFail LateChoke ResultCalc ResultCalcNaN BuildResult     *)
(* (EvalP / DirectEvalP / FinalEvalP take the id of the returned penalty vector as a parameter  *)
(* so that OptimizerTrace can conjoin them with recorded values.)                               *)
(* The optimiser's schedule (initial point, Jacobian probes, trial steps) is an unconstrained   *)
(* choice of the point x of every evaluation.  The fault plan (faultK, faultKind) makes the     *)
(* faultK-th model evaluation raise ("exception") or return a non-finite matrix ("nan").        *)
(* The specification states what the PROPERTY demands: a failing evaluation is contained        *)
(* wherever it happens in the schedule, also in the evaluations create_result performs.         *)
(*                                                                                              *)
(* Purity part: providers keep lists that are cleared and re-filled by every evaluation; the    *)
(* penalty vector an evaluation returns is a function of x only as long as the lists have their *)
(* per-evaluation lengths.  ClearOnEval = FALSE is the design-level mutant (no clear).          *)
EXTENDS Naturals, Sequences, FiniteSets, TLC

CONSTANTS Points,        \* ids of parameter vectors (positive naturals)
          MaxEvals,      \* bound on the number of evaluations least_squares may ask for
          MaxK,          \* fault positions 0..MaxK (0 = no fault)
          Kinds,         \* subset of {"exception", "nan"}
          Methods, VerboseSet, RaiseSet,
          InvalidSets,   \* set of sets of invalid-scheme kinds; {} in it = valid schemes are explored
          Groups, Datasets,          \* provider keys (strings)
          NomPenSet, NomLenSet,      \* candidate per-evaluation lengths of _clp_penalty / _clps,_residuals
          Cap,                       \* lists longer than Cap are not distinguished
          ClearOnEval,               \* TRUE: as designed; FALSE: mutant without clear
          AllowDirect,               \* objective_function may be called directly on a constructed optimizer
          MaxDirect,                 \* bound on direct evaluations (C10 histories)
          AllowEnvSwap               \* the caller may replace sys.stdout between Optimizer() and optimize()

VARIABLES phase, hist, ok, stdoutOwner, raiseFlag, verbose, method, outcome, resultPoint,
          invalid, faultK, faultKind, nevals, nreturned, fired, failed, nanSeen, swapped,
          memo, lenClpPenalty, lenClps, lenResiduals, nomPen, nomLen, lastPen, lastEval, snapshot

lifeVars == <<phase, hist, ok, stdoutOwner, raiseFlag, verbose, method, outcome, resultPoint,
              invalid, faultK, faultKind, nevals, nreturned, fired, failed, nanSeen, swapped>>
pureVars == <<memo, lenClpPenalty, lenClps, lenResiduals, nomPen, nomLen, lastPen, lastEval, snapshot>>
vars == <<lifeVars, pureVars>>

NoPoint == 0
Snap0 == "inputs-at-call"
CorruptPen == 1000000                 \* id of a penalty vector of the wrong shape
AllInvalid == {"missing_data", "no_parameters", "unknown_method", "unknown_residual_function"}
InvalidAll == SUBSET AllInvalid          \* cfg: InvalidSets <- InvalidAll / InvalidNone / InvalidSingles
InvalidNone == {{}}
InvalidSingles == {{}} \cup {{k} : k \in AllInvalid}
ErrorOf(kind) == CASE kind = "missing_data" -> "MissingDatasetsError"
                   [] kind = "no_parameters" -> "ParameterNotInitializedError"
                   [] kind = "unknown_method" -> "UnsupportedMethodError"
                   [] kind = "unknown_residual_function" -> "UnsupportedResidualFunctionError"
NoOutcome == [kind |-> "none", success |-> FALSE, reason |-> "none", exc |-> "none"]
ResultOutcome(s, r) == [kind |-> "result", success |-> s, reason |-> r, exc |-> "none"]
ExcOutcome(e) == [kind |-> "exception", success |-> FALSE, reason |-> "none", exc |-> e]
Terminal == {"rejected", "raised", "ipe", "done"}
Min(a, b) == IF a < b THEN a ELSE b
HistPoints == {hist[i] : i \in 1..Len(hist)}

Init == /\ phase = "start" /\ hist = <<>> /\ ok = {} /\ stdoutOwner = "orig"
        /\ raiseFlag \in RaiseSet /\ verbose \in VerboseSet /\ method \in Methods
        /\ outcome = NoOutcome /\ resultPoint = NoPoint
        /\ invalid \in InvalidSets
        /\ faultK \in 0..MaxK /\ faultKind \in Kinds
        /\ nevals = 0 /\ nreturned = 0 /\ fired = "none" /\ failed = FALSE /\ nanSeen = FALSE /\ swapped = FALSE
        /\ memo = [x \in Points |-> 0]
        /\ nomPen \in NomPenSet /\ nomLen \in NomLenSet
        /\ lenClpPenalty = [g \in Groups |-> 0]
        /\ lenClps = [d \in Datasets |-> 0] /\ lenResiduals = [d \in Datasets |-> 0]
        /\ lastPen = 0 /\ lastEval = "none" /\ snapshot = Snap0

------------------------------------------------------------------------------
(* purity core: what one model evaluation does to the providers and what it returns *)
ShapesNominal(lp, lc, lr) == /\ \A g \in Groups : lp[g] = nomPen
                             /\ \A d \in Datasets : lc[d] = nomLen /\ lr[d] = nomLen

(* evaluation at x returning the penalty vector with id p; clear-then-append *)
EvalCore(x, p) ==
  /\ lenClpPenalty' = [g \in Groups |-> Min((IF ClearOnEval THEN 0 ELSE lenClpPenalty[g]) + nomPen, Cap)]
  /\ lenClps' = [d \in Datasets |-> Min((IF ClearOnEval THEN 0 ELSE lenClps[d]) + nomLen, Cap)]
  /\ lenResiduals' = [d \in Datasets |-> Min((IF ClearOnEval THEN 0 ELSE lenResiduals[d]) + nomLen, Cap)]
  /\ memo' = [memo EXCEPT ![x] = p]
  /\ lastPen' = p /\ lastEval' = "ok"
  /\ UNCHANGED <<nomPen, nomLen, snapshot>>

(* group.calculate without reading the penalty (result datasets) *)
CalcCore ==
  /\ lenClpPenalty' = [g \in Groups |-> Min((IF ClearOnEval THEN 0 ELSE lenClpPenalty[g]) + nomPen, Cap)]
  /\ lenClps' = [d \in Datasets |-> Min((IF ClearOnEval THEN 0 ELSE lenClps[d]) + nomLen, Cap)]
  /\ lenResiduals' = [d \in Datasets |-> Min((IF ClearOnEval THEN 0 ELSE lenResiduals[d]) + nomLen, Cap)]
  /\ lastEval' = "ok"
  /\ UNCHANGED <<memo, lastPen, nomPen, nomLen, snapshot>>

(* the design: the vector is a function of x when the lists have their per-evaluation shape *)
ModelPen(x) == IF ShapesNominal(lenClpPenalty', lenClps', lenResiduals') THEN x ELSE CorruptPen

(* a raising evaluation leaves arbitrary partial provider state *)
FailCore ==
  /\ lenClpPenalty' \in [Groups -> 0..Cap]
  /\ lenClps' \in [Datasets -> 0..Cap]
  /\ lenResiduals' \in [Datasets -> 0..Cap]
  /\ lastEval' = "fail"
  /\ UNCHANGED <<memo, nomPen, nomLen, lastPen, snapshot>>

IsFaulty == faultK # 0 /\ nevals + 1 = faultK
(* the faulty evaluation is non-finite; afterwards the optimiser may ask for non-finite points, which evaluate non-finite *)
NaNPossible == (IsFaulty /\ faultKind = "nan") \/ (nanSeen /\ ~IsFaulty)
FiredWhere == IF nevals = 0 THEN "first" ELSE IF phase = "in_tee" THEN "scipy" ELSE IF phase = "final" THEN "final" ELSE "result"

------------------------------------------------------------------------------
(* Optimizer.__init__ : up-front validation, nothing is evaluated *)
Reject(kind) ==
  /\ phase = "start" /\ kind \in invalid
  /\ phase' = "rejected" /\ outcome' = ExcOutcome(ErrorOf(kind))
  /\ UNCHANGED <<hist, ok, stdoutOwner, raiseFlag, verbose, method, resultPoint, invalid, faultK, faultKind,
                 nevals, nreturned, fired, failed, nanSeen, swapped>>
  /\ UNCHANGED pureVars

Construct(x0) ==
  /\ phase = "start" /\ invalid = {}
  /\ phase' = "constructed" /\ hist' = <<x0>>        \* the initial record; not an evaluation
  /\ UNCHANGED <<ok, stdoutOwner, raiseFlag, verbose, method, outcome, resultPoint, invalid, faultK, faultKind,
                 nevals, nreturned, fired, failed, nanSeen, swapped>>
  /\ UNCHANGED pureVars

(* environment: the caller replaces sys.stdout after Optimizer() and before optimize() *)
EnvSwap ==
  /\ AllowEnvSwap /\ phase = "constructed" /\ ~swapped /\ swapped' = TRUE
  /\ UNCHANGED <<phase, hist, ok, stdoutOwner, raiseFlag, verbose, method, outcome, resultPoint, invalid, faultK,
                 faultKind, nevals, nreturned, fired, failed, nanSeen>>
  /\ UNCHANGED pureVars

(* direct calls of objective_function on a constructed optimizer (C10 histories) *)
DirectEvalP(x, p) ==
  /\ AllowDirect /\ phase = "constructed" /\ nevals < MaxDirect /\ ~IsFaulty
  /\ nevals' = nevals + 1 /\ nreturned' = nreturned + 1
  /\ hist' = Append(hist, x) /\ ok' = ok \cup {x}
  /\ EvalCore(x, p)
  /\ UNCHANGED <<phase, stdoutOwner, raiseFlag, verbose, method, outcome, resultPoint, invalid, faultK, faultKind,
                 fired, failed, nanSeen, swapped>>
DirectEval(x) == DirectEvalP(x, ModelPen(x))

DirectEvalFail(x) ==
  /\ AllowDirect /\ phase = "constructed" /\ nevals < MaxDirect
  /\ nevals' = nevals + 1
  /\ FailCore
  /\ UNCHANGED <<phase, hist, ok, stdoutOwner, raiseFlag, verbose, method, outcome, resultPoint, invalid, faultK,
                 faultKind, nreturned, fired, failed, nanSeen, swapped>>

EnterTee ==
  /\ phase = "constructed" /\ MaxEvals > 0 /\ phase' = "in_tee" /\ stdoutOwner' = "tee"
  /\ UNCHANGED <<hist, ok, raiseFlag, verbose, method, outcome, resultPoint, invalid, faultK, faultKind, nevals,
                 nreturned, fired, failed, nanSeen, swapped>>
  /\ UNCHANGED pureVars

(* one evaluation asked for by least_squares; a record is appended only after it succeeded *)
EvalP(x, p) ==
  /\ phase = "in_tee" /\ nevals < MaxEvals /\ ~IsFaulty
  /\ nevals' = nevals + 1 /\ nreturned' = nreturned + 1
  /\ hist' = Append(hist, x) /\ ok' = ok \cup {x}
  /\ EvalCore(x, p)
  /\ UNCHANGED <<phase, stdoutOwner, raiseFlag, verbose, method, outcome, resultPoint, invalid, faultK, faultKind,
                 fired, failed, nanSeen, swapped>>
Eval(x) == EvalP(x, ModelPen(x))

(* the faulty evaluation returns a non-finite penalty: no exception, the record is appended *)
EvalNaN(x) ==
  /\ phase = "in_tee" /\ nevals < MaxEvals /\ NaNPossible
  /\ nevals' = nevals + 1 /\ nreturned' = nreturned + 1 /\ fired' = (IF IsFaulty THEN FiredWhere ELSE fired) /\ nanSeen' = TRUE
  /\ hist' = Append(hist, x)
  /\ FailCore      \* nothing is claimed about the providers after a non-finite evaluation
  /\ UNCHANGED <<phase, ok, stdoutOwner, raiseFlag, verbose, method, outcome, resultPoint, invalid, faultK,
                 faultKind, failed, swapped>>

(* the faulty evaluation raises (the fault itself, or a solver choking on a non-finite matrix) *)
EvalFail(x) ==
  /\ phase = "in_tee" /\ nevals < MaxEvals /\ IsFaulty
  /\ nevals' = nevals + 1 /\ fired' = FiredWhere
  /\ phase' = "raising"
  /\ FailCore
  /\ UNCHANGED <<hist, ok, stdoutOwner, raiseFlag, verbose, method, outcome, resultPoint, invalid, faultK,
                 faultKind, nreturned, failed, nanSeen, swapped>>

(* least_squares returns normally; its solution is a point it evaluated *)
SciPyReturns(x) ==
  /\ phase = "in_tee" /\ nreturned >= 1 /\ (x \in ok \/ (nanSeen /\ x \in HistPoints))
  /\ phase' = "returned" /\ resultPoint' = x
  /\ UNCHANGED <<hist, ok, stdoutOwner, raiseFlag, verbose, method, outcome, invalid, faultK, faultKind, nevals,
                 nreturned, fired, failed, nanSeen, swapped>>
  /\ UNCHANGED pureVars

(* least_squares itself raises after it was handed non-finite numbers *)
SciPyRaises ==
  /\ phase = "in_tee" /\ nanSeen
  /\ phase' = "raising"
  /\ UNCHANGED <<hist, ok, stdoutOwner, raiseFlag, verbose, method, outcome, resultPoint, invalid, faultK,
                 faultKind, nevals, nreturned, fired, failed, nanSeen, swapped>>
  /\ UNCHANGED pureVars

Swallow ==
  /\ phase = "raising" /\ ~raiseFlag
  /\ phase' = "swallowed" /\ failed' = TRUE
  /\ UNCHANGED <<hist, ok, stdoutOwner, raiseFlag, verbose, method, outcome, resultPoint, invalid, faultK,
                 faultKind, nevals, nreturned, fired, nanSeen, swapped>>
  /\ UNCHANGED pureVars

Propagate ==
  /\ phase = "raising" /\ raiseFlag
  /\ phase' = "propagating" /\ failed' = TRUE
  /\ UNCHANGED <<hist, ok, stdoutOwner, raiseFlag, verbose, method, outcome, resultPoint, invalid, faultK,
                 faultKind, nevals, nreturned, fired, nanSeen, swapped>>
  /\ UNCHANGED pureVars

(* TeeContext.__exit__: sys.stdout is again what it was when the context was entered *)
ExitTee ==
  /\ phase \in {"returned", "swallowed", "propagating"}
  /\ stdoutOwner' = "orig"
  /\ phase' = CASE phase = "returned" -> "out_ok" [] phase = "swallowed" -> "out_failed" [] OTHER -> "raised"
  /\ outcome' = IF phase = "propagating" THEN ExcOutcome("original") ELSE outcome
  /\ UNCHANGED <<hist, ok, raiseFlag, verbose, method, resultPoint, invalid, faultK, faultKind, nevals, nreturned,
                 fired, failed, nanSeen, swapped>>
  /\ UNCHANGED pureVars

RaiseInitialParameterError ==
  /\ phase = "out_failed" /\ Len(hist) = 1
  /\ phase' = "ipe" /\ outcome' = ExcOutcome("InitialParameterError")
  /\ UNCHANGED <<hist, ok, stdoutOwner, raiseFlag, verbose, method, resultPoint, invalid, faultK, faultKind,
                 nevals, nreturned, fired, failed, nanSeen, swapped>>
  /\ UNCHANGED pureVars

(* restore an earlier record: one that was evaluated without error *)
FallbackTo(i) ==
  /\ phase = "out_failed" /\ Len(hist) > 1 /\ i \in 1..Len(hist)
  /\ hist[i] \in ok \/ nanSeen       \* non-finite evaluations: only containment is demanded
  /\ resultPoint' = hist[i] /\ phase' = "final"
  /\ UNCHANGED <<hist, ok, stdoutOwner, raiseFlag, verbose, method, outcome, invalid, faultK, faultKind, nevals,
                 nreturned, fired, failed, nanSeen, swapped>>
  /\ UNCHANGED pureVars

Fallback == \E i \in 1..Len(hist) : FallbackTo(i)

ToFinal ==
  /\ phase = "out_ok" /\ phase' = "final"
  /\ UNCHANGED <<hist, ok, stdoutOwner, raiseFlag, verbose, method, outcome, resultPoint, invalid, faultK,
                 faultKind, nevals, nreturned, fired, failed, nanSeen, swapped>>
  /\ UNCHANGED pureVars

(* create_result evaluates the restored / optimal point once more (a record is appended) ... *)
FinalEvalP(p) ==
  /\ phase = "final" /\ ~IsFaulty
  /\ nevals' = nevals + 1 /\ nreturned' = nreturned + 1
  /\ hist' = Append(hist, resultPoint)
  /\ EvalCore(resultPoint, p) /\ ok' = ok \cup {resultPoint}
  /\ phase' = "result_calc"
  /\ UNCHANGED <<stdoutOwner, raiseFlag, verbose, method, outcome, resultPoint, invalid, faultK, faultKind, failed, swapped,
                 fired, nanSeen>>
FinalEval == FinalEvalP(ModelPen(resultPoint))

FinalEvalNaN ==
  /\ phase = "final" /\ NaNPossible
  /\ nevals' = nevals + 1 /\ nreturned' = nreturned + 1
  /\ hist' = Append(hist, resultPoint)
  /\ fired' = (IF IsFaulty THEN FiredWhere ELSE fired) /\ nanSeen' = TRUE /\ FailCore
  /\ phase' = "result_calc"
  /\ UNCHANGED <<ok, stdoutOwner, raiseFlag, verbose, method, outcome, resultPoint, invalid, faultK, faultKind, failed, swapped>>

(* ... and a failure there is contained like any other: an earlier record, or the exception if asked for *)
LateFail ==
  /\ phase \in {"final", "result_calc"} /\ IsFaulty
  /\ nevals' = nevals + 1 /\ fired' = FiredWhere /\ failed' = TRUE
  /\ FailCore
  /\ IF raiseFlag THEN /\ phase' = "raised" /\ outcome' = ExcOutcome("original")
                  ELSE /\ phase' = "out_failed" /\ UNCHANGED outcome
  /\ UNCHANGED <<hist, ok, stdoutOwner, raiseFlag, verbose, method, resultPoint, invalid, faultK, faultKind,
                 nreturned, nanSeen, swapped>>

(* after a non-finite evaluation create_result itself may choke (covariance, SVD of a residual): contained as well *)
LateChoke ==
  /\ phase \in {"out_ok", "final", "result_calc", "build"} /\ nanSeen /\ ~failed
  /\ failed' = TRUE
  /\ IF raiseFlag THEN /\ phase' = "raised" /\ outcome' = ExcOutcome("original")
                  ELSE /\ phase' = "out_failed" /\ UNCHANGED outcome
  /\ UNCHANGED <<hist, ok, stdoutOwner, raiseFlag, verbose, method, resultPoint, invalid, faultK, faultKind, nevals,
                 nreturned, fired, nanSeen, swapped>>
  /\ UNCHANGED pureVars

(* group.calculate for the result datasets: an evaluation that is not recorded in the history *)
ResultCalc ==
  /\ phase = "result_calc" /\ ~IsFaulty
  /\ nevals' = nevals + 1
  /\ CalcCore
  /\ phase' = "build"
  /\ UNCHANGED <<hist, ok, stdoutOwner, raiseFlag, verbose, method, outcome, resultPoint, invalid, faultK, faultKind,
                 nreturned, failed, swapped, fired, nanSeen>>

ResultCalcNaN ==
  /\ phase = "result_calc" /\ NaNPossible
  /\ nevals' = nevals + 1
  /\ fired' = (IF IsFaulty THEN FiredWhere ELSE fired) /\ nanSeen' = TRUE /\ FailCore
  /\ phase' = "build"
  /\ UNCHANGED <<hist, ok, stdoutOwner, raiseFlag, verbose, method, outcome, resultPoint, invalid, faultK, faultKind,
                 nreturned, failed, swapped>>

BuildResult ==
  /\ phase = "build"
  /\ phase' = "done"
  /\ outcome' = ResultOutcome(~failed, IF failed THEN "error" ELSE "message")
  /\ UNCHANGED <<hist, ok, stdoutOwner, raiseFlag, verbose, method, resultPoint, invalid, faultK, faultKind, nevals,
                 nreturned, fired, failed, nanSeen, swapped>>
  /\ UNCHANGED pureVars

Next == \/ \E k \in AllInvalid : Reject(k)
        \/ \E x \in Points : Construct(x)
        \/ EnvSwap
        \/ \E x \in Points : DirectEval(x) \/ DirectEvalFail(x)
        \/ EnterTee
        \/ \E x \in Points : Eval(x) \/ EvalNaN(x) \/ EvalFail(x) \/ SciPyReturns(x)
        \/ SciPyRaises \/ Swallow \/ Propagate \/ ExitTee
        \/ RaiseInitialParameterError
        \/ Fallback
        \/ ToFinal \/ FinalEval \/ FinalEvalNaN \/ LateFail \/ LateChoke \/ ResultCalc \/ ResultCalcNaN \/ BuildResult

Spec == Init /\ [][Next]_vars
FairSpec == Spec /\ WF_vars(Next)

------------------------------------------------------------------------------
TypeOK == /\ phase \in {"start", "rejected", "constructed", "in_tee", "raising", "returned", "swallowed", "propagating",
                        "out_ok", "out_failed", "raised", "ipe", "final", "result_calc", "build", "done"}
          /\ stdoutOwner \in {"orig", "tee"}
          /\ ok \subseteq Points /\ resultPoint \in Points \cup {NoPoint}
          /\ \A x \in Points : memo[x] \in {0, x, CorruptPen}

(* view for purity-only configurations: the records kept do not influence what an evaluation returns *)
PureView == <<phase, nevals, memo, lenClpPenalty, lenClps, lenResiduals, nomPen, nomLen, lastPen, lastEval, snapshot>>

(* C15 *)
StdoutRestored == phase \in Terminal => stdoutOwner = "orig"
StdoutOnlyInTee == stdoutOwner = "tee" <=> phase \in {"in_tee", "raising", "returned", "swallowed", "propagating"}

(* an evaluation raised (or least_squares did) and the caller did not ask for exceptions *)
Contained == (phase \in Terminal /\ failed /\ ~raiseFlag) =>
                \/ /\ outcome = ResultOutcome(FALSE, "error")
                   /\ resultPoint \in ok \/ nanSeen
                \/ /\ outcome = ExcOutcome("InitialParameterError")
                   /\ Len(hist) = 1
InitialErrorIffNothingEvaluated ==
   /\ outcome.exc = "InitialParameterError" => (ok = {} /\ ~raiseFlag /\ failed)
   /\ (phase \in Terminal /\ failed /\ ~raiseFlag /\ ok = {} /\ ~nanSeen) => outcome.exc = "InitialParameterError"
Transparent == (phase \in Terminal /\ failed /\ raiseFlag) => outcome = ExcOutcome("original")
NoSpuriousFailure == (phase \in Terminal /\ ~failed /\ invalid = {}) => outcome = ResultOutcome(TRUE, "message")
RejectedBeforeEval == /\ invalid # {} => (phase \in {"start", "rejected"} /\ nevals = 0 /\ hist = <<>>)
                      /\ phase = "rejected" => \E k \in invalid : outcome = ExcOutcome(ErrorOf(k))
HistoryShape == phase # "start" /\ phase # "rejected" => Len(hist) = 1 + nreturned
ResultFromEvaluated == phase = "done" => (resultPoint \in ok \/ nanSeen)
SchemeUntouched == snapshot = Snap0
FaultAccounting == (fired # "none") => (faultK # 0 /\ nevals >= faultK)

(* C10 *)
Pure == [][\A x \in Points : memo[x] # 0 => memo'[x] = memo[x]]_vars
(* after every evaluation that returned, the provider lists have the per-evaluation lengths of the scheme *)
ShapesStable == lastEval = "ok" => ShapesNominal(lenClpPenalty, lenClps, lenResiduals)
InputsUntouched == [][snapshot' = snapshot]_vars

(* liveness: every behaviour ends in a result or an exception *)
Terminates == <>(phase \in Terminal)
===============================================================================
