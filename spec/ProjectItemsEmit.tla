-------------------------- MODULE ProjectItemsEmit --------------------------
EXTENDS ProjectItems, Json
Emit == PrintT(<<"ITEMS", ToJson([present |-> [i \in U |-> i \in present], mapping |-> Mapping, warnings |-> Warnings])>>)
=============================================================================
