------------------------------- MODULE ClpLink -------------------------------
(* C09: alignment of global axes of linked datasets (DataProviderLinked.create_aligned_global_axes). *)
(* Positions are integers on a half-step grid (coordinate = position / 2) so that tolerances below,  *)
(* at and above the spacing are integers.  One action per point (AlignPoint) and per dataset         *)
(* (FinishDataset), mirroring the loops of the code.  Ties between equally near aligned points are    *)
(* nondeterministic: the implementation must land inside the allowed set (D3).                        *)
EXTENDS Integers, Sequences, FiniteSets, TLC

CONSTANTS Positions,   \* set of grid positions
          MaxLen,      \* max axis length
          NDatasets,
          Tols,        \* set of tolerances (grid units)
          Methods

VARIABLES axes, tol, method, d, k, assign, target, outcome
vars == <<axes, tol, method, d, k, assign, target, outcome>>

Abs(x) == IF x < 0 THEN -x ELSE x
SortedSeq(S) == LET RECURSIVE F(_)
                    F(T) == IF T = {} THEN <<>> ELSE LET x == CHOOSE x \in T : \A z \in T : x <= z IN <<x>> \o F(T \ {x})
                IN F(S)
AxisSeqs == {SortedSeq(S) : S \in {T \in SUBSET Positions : Cardinality(T) >= 1 /\ Cardinality(T) <= MaxLen}}
Range(s) == {s[i] : i \in 1..Len(s)}

Init == /\ axes \in [1..NDatasets -> AxisSeqs]
        /\ tol \in Tols /\ method \in Methods
        /\ d = 2 /\ k = 1
        /\ assign = <<axes[1]>>            \* the first dataset defines the initial aligned axis
        /\ target = Range(axes[1])
        /\ outcome = "running"

Side(m, q, p) == CASE m = "nearest" -> TRUE [] m = "forward" -> q >= p [] m = "backward" -> q <= p
Cand(m, t, tg, p) == {q \in tg : Side(m, q, p) /\ Abs(q - p) <= t}
Allowed(m, t, tg, p) == LET c == Cand(m, t, tg, p) IN
   IF c = {} THEN {p} ELSE {q \in c : \A r \in c : Abs(q - p) <= Abs(r - p)}

AlignPoint ==
  /\ outcome = "running" /\ d <= Len(axes) /\ k <= Len(axes[d])
  /\ \E q \in Allowed(method, tol, target, axes[d][k]) :
        assign' = IF Len(assign) < d THEN Append(assign, <<q>>) ELSE [assign EXCEPT ![d] = Append(@, q)]
  /\ k' = k + 1 /\ UNCHANGED <<axes, tol, method, d, target, outcome>>

FinishDataset ==
  /\ outcome = "running" /\ d <= Len(axes) /\ k = Len(axes[d]) + 1
  /\ LET vals == Range(assign[d]) IN
       IF Cardinality(vals) # Len(assign[d])
       THEN outcome' = "AlignDatasetError" /\ UNCHANGED <<target, d, k>>
       ELSE /\ target' = target \cup vals /\ d' = d + 1 /\ k' = 1
            /\ outcome' = IF d + 1 > Len(axes) THEN "done" ELSE "running"
  /\ UNCHANGED <<axes, tol, method, assign>>

Next == AlignPoint \/ FinishDataset
Spec == Init /\ [][Next]_vars

-------------------------------------------------------------------------------
Done == outcome = "done"
Points == UNION {{<<i, j>> : j \in 1..Len(axes[i])} : i \in 1..Len(axes)}
Members(q) == {pt \in Points : assign[pt[1]][pt[2]] = q}     \* columns stacked at aligned point q

ExactlyOne == Done => \A i \in 1..Len(axes) : Len(assign[i]) = Len(axes[i])
ItselfOrAligned == Done => \A pt \in Points : LET p == axes[pt[1]][pt[2]] q == assign[pt[1]][pt[2]] IN
     q = p \/ (Abs(q - p) <= tol /\ Side(method, q, p))
(* a point is only moved onto a point that was aligned before its dataset was processed, and onto the nearest such *)
Nearest == Done => \A pt \in Points : LET p == axes[pt[1]][pt[2]] q == assign[pt[1]][pt[2]]
                                          earlier == UNION {Range(assign[i]) : i \in 1..(pt[1] - 1)} IN
     q # p => (q \in earlier /\ \A r \in earlier : (Side(method, r, p) /\ Abs(r - p) <= tol) => Abs(q - p) <= Abs(r - p))
(* a point within tolerance of an earlier aligned point on the permitted side IS merged (clps are shared) *)
MergedWhenPossible == Done => \A pt \in Points : LET p == axes[pt[1]][pt[2]] q == assign[pt[1]][pt[2]]
                                          earlier == UNION {Range(assign[i]) : i \in 1..(pt[1] - 1)} IN
     Cand(method, tol, earlier, p) # {} => q \in Cand(method, tol, earlier, p)
AlignedAxisIsUnion == Done => target = UNION {Range(assign[i]) : i \in 1..Len(axes)}
EveryColumnOnce == Done => /\ \A pt \in Points : Cardinality({q \in target : pt \in Members(q)}) = 1
                           /\ \A q \in target : \A a \in Members(q), b \in Members(q) : a[1] = b[1] => a = b
RefusedIffAmbiguous == outcome = "AlignDatasetError" => Cardinality(Range(assign[d])) < Len(assign[d])
NeverMergesOwnPoints == Done => \A i \in 1..Len(axes) : Cardinality(Range(assign[i])) = Len(axes[i])
===============================================================================
