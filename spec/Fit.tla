--------------------------------- MODULE Fit ---------------------------------
(* A fit as the property C11 sees it: a sequence of evaluation records over a fixed   *)
(* parameter set, then a result.  All numbers are ORDER RANKS (dense ranks of the     *)
(* floats that occur in one fit, -inf and +inf included): the specification evaluates *)
(* only <, <=, = on them.                                                             *)
(*                                                                                    *)
(* Parameter descriptor (declaration order):                                          *)
(*   [vary, expr, nonneg : BOOLEAN, lo, hi, init, zero : rank]                        *)
(* lo/hi = minimum/maximum, init = declared value, zero = rank of 0.0.                *)
(* The value an expression parameter must have is supplied with every step (ex):      *)
(* in generated behaviours it is the value of the referenced parameter, in recorded   *)
(* ones the harness evaluates the driver's own expression AST on the recorded values. *)
EXTENDS Integers, Sequences, FiniteSets, TLC

VARIABLES ps,      \* parameter descriptors (constant along a behaviour)
          vals,    \* value (rank) of every parameter at the last record
          stage,   \* "start" -> "iter" -> "done"
          nrec,    \* number of records so far
          res      \* result observation (labels, column candidates); NoRes before "done"
fvars == <<ps, vals, stage, nrec, res>>

NoRes == [labels |-> <<>>, jac |-> <<>>, cov |-> <<>>, err |-> <<>>]

InVector(d) == d.vary /\ ~d.expr
Fixed(d) == ~d.vary /\ ~d.expr
InBounds(d, x) == d.lo <= x /\ x <= d.hi /\ (d.nonneg => x > d.zero)
Idx(P) == 1..Len(P)
FreeLabels(P) == SelectSeq([i \in Idx(P) |-> i], LAMBDA i : InVector(P[i]))     \* declaration order, filtered

(* the clauses a record has to satisfy; returned as the set of violated clauses *)
Failing(P, w, ex) ==
       {<<"length", 0>> : x \in {1} \ {IF Len(w) = Len(P) /\ Len(ex) = Len(P) THEN 1 ELSE 0}}
  \cup (IF Len(w) # Len(P) \/ Len(ex) # Len(P) THEN {} ELSE
       {<<"free parameter outside [minimum, maximum] or non-negative parameter not positive", i>> : i \in {i \in Idx(P) : InVector(P[i]) /\ ~InBounds(P[i], w[i])}}
  \cup {<<"fixed parameter moved", i>> : i \in {i \in Idx(P) : Fixed(P[i]) /\ w[i] # P[i].init}}
  \cup {<<"expression parameter differs from its expression", i>> : i \in {i \in Idx(P) : P[i].expr /\ w[i] # ex[i]}})
Legal(P, w, ex) == Failing(P, w, ex) = {}

Member(s, x) == \E k \in 1..Len(s) : s[k] = x
(* result: labels = the parameters handed over, in declaration order; Jacobian / covariance columns and *)
(* standard errors refer to the same ordering (each given as the set of candidates the observation admits) *)
ResFailing(P, r) ==
       {<<"free_parameter_labels are not the varying non-expression parameters in declaration order", 0>> : x \in {1} \ {IF r.labels = FreeLabels(P) THEN 1 ELSE 0}}
  \cup {<<"column count differs from number of free parameters", 0>> :
           x \in {1} \ {IF Len(r.jac) = Len(r.labels) /\ Len(r.cov) = Len(r.labels) /\ Len(r.err) = Len(r.labels) THEN 1 ELSE 0}}
  \cup {<<"jacobian column belongs to another parameter", j>> : j \in {j \in 1..Len(r.jac) : j <= Len(r.labels) /\ ~Member(r.jac[j], r.labels[j])}}
  \cup {<<"covariance column belongs to another jacobian column", j>> : j \in {j \in 1..Len(r.cov) : ~Member(r.cov[j], j)}}
  \cup {<<"standard error belongs to another covariance column", j>> : j \in {j \in 1..Len(r.err) : ~Member(r.err[j], j)}}
ResLegal(P, r) == ResFailing(P, r) = {}

(* ---- actions ---- *)
(* the first record (the property does not say that it is the declared start value: a start value on a *)
(* bound may be moved inside by the optimiser)                                                          *)
First(w, ex) == /\ stage = "start"
                /\ Legal(ps, w, ex)
                /\ vals' = w /\ stage' = "iter" /\ nrec' = 1
                /\ UNCHANGED <<ps, res>>

(* one evaluation of the objective: the optimiser supplies values for the parameters in the vector only *)
Evaluate(w, ex) == /\ stage = "iter"
                   /\ Legal(ps, w, ex)
                   /\ vals' = w /\ nrec' = nrec + 1
                   /\ UNCHANGED <<ps, stage, res>>

Finish(w, ex, r) == /\ stage = "iter"
                    /\ Legal(ps, w, ex)
                    /\ ResLegal(ps, r)
                    /\ vals' = w /\ res' = r /\ stage' = "done"
                    /\ UNCHANGED <<ps, nrec>>

(* ---- what the property states, as invariants of every behaviour ---- *)
BoundsRespected == stage # "start" => \A i \in Idx(ps) : InVector(ps[i]) => InBounds(ps[i], vals[i])
FixedKept == stage # "start" => \A i \in Idx(ps) : Fixed(ps[i]) => vals[i] = ps[i].init
NeverHandedOver == stage = "done" =>
     /\ \A j \in 1..Len(res.labels) : res.labels[j] \in Idx(ps) /\ InVector(ps[res.labels[j]])
     /\ \A i \in Idx(ps) : InVector(ps[i]) => Cardinality({j \in 1..Len(res.labels) : res.labels[j] = i}) = 1
OrderConsistent == stage = "done" =>
     /\ \A j, k \in 1..Len(res.labels) : j < k => res.labels[j] < res.labels[k]
     /\ \A j \in 1..Len(res.labels) : Member(res.jac[j], res.labels[j]) /\ Member(res.cov[j], j) /\ Member(res.err[j], j)

(* ---- generated behaviours (sanity of the acceptor): small rank universe ---- *)
CONSTANTS GenRanks, GenLen, GenMaxRec
GenDesc == {d \in [vary : BOOLEAN, expr : BOOLEAN, nonneg : BOOLEAN, lo : {0, 1}, hi : {3, 4}, init : {1, 2, 3}, zero : {1}] :
               d.lo <= d.init /\ d.init <= d.hi /\ (d.nonneg => d.init > d.zero) /\ (d.expr => ~d.nonneg /\ d.lo = 0 /\ d.hi = 4 /\ d.init = 2)}
Ref(i) == 1                                   \* generated expression parameters are "$<first parameter>"
GenEx(w) == [i \in 1..GenLen |-> w[Ref(i)]]
GenInit == /\ ps \in {P \in [1..GenLen -> GenDesc] : ~P[1].expr}
           /\ vals = [i \in 1..GenLen |-> 0] /\ stage = "start" /\ nrec = 0 /\ res = NoRes
GenRes == [labels |-> FreeLabels(ps),
           jac |-> [j \in 1..Len(FreeLabels(ps)) |-> <<FreeLabels(ps)[j]>>],
           cov |-> [j \in 1..Len(FreeLabels(ps)) |-> <<j>>],
           err |-> [j \in 1..Len(FreeLabels(ps)) |-> <<j>>]]
GenVectors == [1..GenLen -> GenRanks]
GenFirst == \E w \in GenVectors : First(w, GenEx(w))
GenEvaluate == nrec < GenMaxRec /\ \E w \in GenVectors : Evaluate(w, GenEx(w))
GenFinish == \E w \in GenVectors : Finish(w, GenEx(w), GenRes)
GenNext == GenFirst \/ GenEvaluate \/ GenFinish
GenSpec == GenInit /\ [][GenNext]_fvars
==============================================================================
