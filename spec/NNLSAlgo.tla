------------------------------ MODULE NNLSAlgo ------------------------------
(* C01, algorithm layer: the Lawson-Hanson active-set method (the algorithm behind scipy.optimize.nnls) as a   *)
(* state machine over exact rationals, run on every full-rank instance that LeastSquares enumerates.           *)
(* Labels: "build" (instance still being enumerated), "outer" (pick the column with the largest positive       *)
(* gradient), "inner" (solve on the passive set, step back to feasibility), "done".                            *)
(* Checked: at "done" the iterate is the oracle's KKT point (Agrees), the number of inner steps is bounded      *)
(* (Bounded), every non-terminal state has a successor (NoStall), and - on a small configuration under weak    *)
(* fairness, without state constraint - <>(pc = "done") (Terminates).                                           *)
EXTENDS LeastSquares

VARIABLES pc, P, x, s, iters
avars == <<A, y, pc, P, x, s, iters>>

(* rationals as <<num, den>>, den > 0, normalised *)
RECURSIVE GCD(_, _)
GCD(a, b) == IF b = 0 THEN a ELSE GCD(b, a % b)
Norm(n, d) == IF n = 0 THEN <<0, 1>> ELSE LET g == GCD(Abs(n), Abs(d)) sgn == IF d < 0 THEN -1 ELSE 1 IN <<sgn * (n \div g), sgn * (d \div g)>>
RAdd(a, b) == Norm(a[1] * b[2] + b[1] * a[2], a[2] * b[2])
RSub(a, b) == Norm(a[1] * b[2] - b[1] * a[2], a[2] * b[2])
RMul(a, b) == Norm(a[1] * b[1], a[2] * b[2])
RDiv(a, b) == Norm(a[1] * b[2], a[2] * b[1])
RLe(a, b) == a[1] * b[2] <= b[1] * a[2]
RLt(a, b) == a[1] * b[2] < b[1] * a[2]
RZero == <<0, 1>>
RECURSIVE RSumSeq(_)
RSumSeq(q) == IF q = <<>> THEN RZero ELSE RAdd(Head(q), RSumSeq(Tail(q)))
RInt(k) == <<k, 1>>

Cols == 1..N
PSeq(S) == SelectSeq(AllCols(N), LAMBDA j : j \in S)
SolveOn(S) == LET sol == LS(A, y, PSeq(S), N) IN [j \in Cols |-> IF j \in S THEN Norm(sol.num[j], sol.den) ELSE RZero]
(* gradient w_j = A_j . (y - A x) *)
Resid(xx) == [i \in 1..M |-> RSub(RInt(y[i]), RSumSeq([j \in 1..N |-> RMul(RInt(A[i][j]), xx[j])]))]
Grad(xx) == LET r == Resid(xx) IN [j \in Cols |-> RSumSeq([i \in 1..M |-> RMul(RInt(A[i][j]), r[i])])]

AInit == Init /\ pc = "build" /\ P = {} /\ x = <<>> /\ s = <<>> /\ iters = 0
Build == pc = "build" /\ ~Complete /\ Next /\ UNCHANGED <<pc, P, x, s, iters>>
Start == /\ pc = "build" /\ Complete
         /\ IF FullRank THEN pc' = "outer" /\ x' = [j \in Cols |-> RZero] ELSE pc' = "done" /\ x' = <<>>   \* rank deficient: outside the premise
         /\ UNCHANGED <<A, y, P, s, iters>>
Outer == /\ pc = "outer"
         /\ LET w == Grad(x) Z == Cols \ P pos == {j \in Z : RLt(RZero, w[j])} IN
              IF pos = {} THEN pc' = "done" /\ UNCHANGED <<P, s>>
              ELSE \E j \in pos : /\ \A k \in pos : RLe(w[k], w[j])        \* largest gradient, ties nondeterministic
                                  /\ P' = P \cup {j} /\ s' = SolveOn(P \cup {j}) /\ pc' = "inner"
         /\ UNCHANGED <<A, y, x, iters>>
Inner == /\ pc = "inner"
         /\ IF \A j \in P : RLt(RZero, s[j])
            THEN x' = s /\ pc' = "outer" /\ UNCHANGED <<P, s>>
            ELSE LET bad == {j \in P : RLe(s[j], RZero)}
                     ratio(j) == RDiv(x[j], RSub(x[j], s[j]))
                     jm == CHOOSE j \in bad : \A k \in bad : RLe(ratio(j), ratio(k))
                     alpha == ratio(jm)
                     xn == [j \in Cols |-> RAdd(x[j], RMul(alpha, RSub(s[j], x[j])))]
                     Pn == {j \in P : xn[j] # RZero /\ j # jm}
                 IN x' = [j \in Cols |-> IF j \in Pn THEN xn[j] ELSE RZero] /\ P' = Pn /\ s' = SolveOn(Pn) /\ pc' = "inner"
         /\ iters' = iters + 1
         /\ UNCHANGED <<A, y>>
ANext == Build \/ Start \/ Outer \/ Inner
ASpec == AInit /\ [][ANext]_avars
AFairSpec == ASpec /\ WF_avars(ANext)

Oracle == LET sols == Sols best == CHOOSE js \in Feasible(sols) : KKTAt(sols, js) IN
          [j \in Cols |-> Norm(sols[best].num[j], sols[best].den)]
Agrees == (pc = "done" /\ Complete /\ FullRank) => x = Oracle
Bounded == iters <= 3 * N + 3
Feasibility == pc \in {"outer", "inner", "done"} /\ x # <<>> => \A j \in Cols : RLe(RZero, x[j])
NoStall == pc # "done" => ENABLED ANext
Terminates == <>(pc = "done")
=============================================================================
