-------------------------- MODULE SaveProtocolTrace --------------------------
(* Trace acceptor for SaveProtocol: one trace = one call of a glotaran.io.save_*     *)
(* function (or of protect_from_overwrite alone) recorded from the real code by the  *)
(* hooks in io_plugin_utils.py / project_io_registration.py / data_io_registration.py*)
(*   begin    save_begin: function, format argument, allow_overwrite; the target     *)
(*            state is the one protect_from_overwrite observed                       *)
(*   protect  exit of protect_from_overwrite: what it saw, its flag, pass | refuse   *)
(*   lookup   the registry lookup made by the call (found | ValueError)              *)
(*   plugin   the io plugin is in the hands of save_*                                *)
(*   end      the function returned                                                  *)
(*   raised   (added by the harness) the call never returned                         *)
(* A trace is accepted iff its events, in order, are steps of the specification with *)
(* the recorded outcome: the check comes first, refuses exactly when the target is   *)
(* occupied and the caller's own allow_overwrite flag is not set, nothing           *)
(* follows a refusal, the plugin runs only after the lookup.                         *)
(* Many traces per TLC run (tid chosen in TraceInit, -workers 1).                    *)
EXTENDS SaveProtocol, Sequences, Json, IOUtils, TLCExt

Input == JsonDeserialize(IOEnv.TRACE_FILE)
Traces == Input.traces

VARIABLES tid, l
tvars == <<vars, tid, l>>

TraceInit == /\ tid \in 1..Len(Traces) /\ l = 1 /\ Init

Ev == Traces[tid].events[l]
More == l <= Len(Traces[tid].events)
Consume(e) == More /\ Ev.ev = e /\ l' = l + 1 /\ UNCHANGED tid
Silent(e) == More /\ Ev.ev = e /\ UNCHANGED <<tid, l>>

TBegin == /\ Consume("begin")
          /\ Call(Ev.fn, Ev.fmt, Ev.ts, Ev.allow, Ev.infer)

TProtect == /\ Consume("protect")
            /\ Protect
            /\ Ev.allow = call.allow /\ Ev.ts = call.ts
            /\ (Ev.out = "pass") <=> (pc' = "lookup")
            /\ (Ev.out # "pass") => (pc' = "raised" /\ exc' = "FileExistsError")

TLookup == /\ Consume("lookup")                       \* get_plugin_from_registry (hook of the plugin registry)
           /\ pc = "lookup" /\ LookupPlugin(Ev.err = "")

TPlugin == /\ Consume("plugin")                       \* save_* holds the plugin
           /\ pc = "write" /\ UNCHANGED vars

TWrite == /\ Silent("end")          \* the plugin's own effect is not recorded: any allowed one
          /\ WriteOk

TEnd == /\ Consume("end")
        /\ UpdateSourcePath

TRaised == /\ Consume("raised")
           /\ CASE pc = "lookup" -> LookupPlugin(FALSE)
                [] pc = "write"  -> (WriteNotImplemented \/ \E e \in {"ValueError", "PluginError"} : WriteFail(e))
                [] pc = "raised" -> UNCHANGED vars
                [] OTHER -> FALSE

TraceNext == TBegin \/ TProtect \/ TLookup \/ TPlugin \/ TWrite \/ TEnd \/ TRaised
TraceSpec == TraceInit /\ [][TraceNext]_tvars

N == Len(Traces)
Progress == IF l = Len(Traces[tid].events) + 1 THEN TLCSet(tid, TRUE)
            ELSE (IF TLCGet(tid + N) < l THEN TLCSet(tid + N, l) ELSE TRUE)
ASSUME \A i \in 1..N : TLCSet(i, FALSE) /\ TLCSet(i + N, 0)
Accepted == /\ PrintT(<<"VERDICT", [i \in 1..N |-> IF TLCGet(i) = TRUE THEN 0 ELSE TLCGet(i + N)]>>)
            /\ \A i \in 1..N : TLCGet(i) = TRUE

TNoWriteBeforeCheck ==
  [][(pc # "idle" /\ \E p \in Paths \ {"parent"} : fs'[p] # fs[p]) =>
        (pc = "write" /\ (call.allow \/ ~Occupied(fs0)))]_tvars
==============================================================================
