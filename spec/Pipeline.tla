------------------------------ MODULE Pipeline ------------------------------
(* Growth beyond the listed properties: the preprocessing pipeline (glotaran/io/preprocessor).        *)
(* A pipeline is a sequence of actions built with a persistent builder (every correct_* call returns a *)
(* NEW pipeline); apply() runs the actions in order on a copy of the data.  Data are integer matrices   *)
(* over a common positive denominator (exact means).  Built by fan-out: one action per step.            *)
EXTENDS Integers, Sequences, FiniteSets, TLC

CONSTANTS MaxActions
NT == 2      \* time points 0..1
NS == 3      \* spectral points 0..2
Data0 == << <<1, 4, 2>>, <<3, 0, 5>> >>          \* [time][spectral]

(* selections on (time, spectral) as sets of index pairs; xarray label slices are inclusive *)
All == {<<t, s>> : t \in 1..NT, s \in 1..NS}
Selects == [none |-> All, time0 |-> {p \in All : p[1] = 1}, spec01 |-> {p \in All : p[2] \in {1, 2}}, spec02 |-> {p \in All : p[2] \in {1, 3}}]
Excludes == [none |-> {}, spec1 |-> {p \in All : p[2] = 2}, time1 |-> {p \in All : p[1] = 2}]
(* xarray: an exclusion must name labels that are still there after the selection (a scalar selection removes the   *)
(* dimension, a list selection removes the other labels); anything else is a usage error, not pipeline behaviour      *)
Meaningless == {[kind |-> "average", v |-> 0, sel |-> "time0", exc |-> "time1"], [kind |-> "average", v |-> 0, sel |-> "spec02", exc |-> "spec1"]}
Actions == {[kind |-> "value", v |-> v, sel |-> "none", exc |-> "none"] : v \in {1, 2}} \cup
           ({[kind |-> "average", v |-> 0, sel |-> s, exc |-> e] : s \in DOMAIN Selects, e \in DOMAIN Excludes} \ Meaningless)


VARIABLES pipe,     \* the pipeline being built (sequence of actions)
          older     \* the pipelines it was built from (persistence: they must stay what they were)
vars == <<pipe, older>>
Init == pipe = <<>> /\ older = <<>>
Extend == /\ Len(pipe) < MaxActions
          /\ \E a \in Actions : pipe' = Append(pipe, a)
          /\ older' = Append(older, pipe)
Next == Extend
Spec == Init /\ [][Next]_vars

RECURSIVE SumSet(_, _)
SumSet(f, S) == IF S = {} THEN 0 ELSE LET x == CHOOSE x \in S : TRUE IN f[x] + SumSet(f, S \ {x})
Region(a) == Selects[a.sel] \ Excludes[a.exc]
(* state of the data: numerators num[p] over the common denominator den *)
Start == [num |-> [p \in All |-> Data0[p[1]][p[2]]], den |-> 1]
Step(d, a) == IF a.kind = "value" THEN [num |-> [p \in All |-> d.num[p] - a.v * d.den], den |-> d.den]
              ELSE LET R == Region(a) n == Cardinality(R) IN
                   IF n = 0 THEN [num |-> d.num, den |-> 0]                  \* mean of nothing: NaN (den 0 marks it)
                   ELSE [num |-> [p \in All |-> n * d.num[p] - SumSet(d.num, R)], den |-> n * d.den]
RECURSIVE Apply(_, _)
Apply(d, as) == IF as = <<>> \/ d.den = 0 THEN d ELSE Apply(Step(d, Head(as)), Tail(as))
Result == Apply(Start, pipe)

(* after an average correction the mean over the corrected region is zero *)
MeanZero == \A k \in 1..Len(pipe) : pipe[k].kind = "average" =>
   LET d == Apply(Start, SubSeq(pipe, 1, k)) IN d.den # 0 => SumSet(d.num, Region(pipe[k])) = 0
(* composition: applying a pipeline is applying its prefix and then its last action *)
Compositional == pipe # <<>> => Result = (LET d == Apply(Start, SubSeq(pipe, 1, Len(pipe) - 1)) IN IF d.den = 0 THEN d ELSE Step(d, pipe[Len(pipe)]))
(* persistence of the builder: the pipelines this one was built from are its prefixes *)
Persistent == \A k \in 1..Len(older) : older[k] = SubSeq(pipe, 1, k - 1)
(* value corrections commute with each other *)
ValuesCommute == \A i, j \in 1..Len(pipe) : (i < j /\ j = i + 1 /\ pipe[i].kind = "value" /\ pipe[j].kind = "value") =>
   Apply(Start, pipe) = Apply(Start, [k \in 1..Len(pipe) |-> IF k = i THEN pipe[j] ELSE IF k = j THEN pipe[i] ELSE pipe[k]])
=============================================================================
