---------------------------- MODULE ObjectiveSim ----------------------------
(* C14: simulation and fitting agree.  Simulate(d, clp): data(., i) = matrix_i . clp_i selected by label (full *)
(* model: the clp is the transposed global matrix, paired by label).  The simulated data replace the case's     *)
(* data; the objective pipeline of Objective.tla must then have zero residual and estimated clps equal to the   *)
(* generating clps divided by the dataset scale (ZeroAtTruth).                                                   *)
EXTENDS Objective, Json, IOUtils
Cases == JsonDeserialize(IOEnv.CASES_FILE)
VARIABLE i
Init == i = 0
Next == i < Len(Cases) /\ i' = i + 1
Spec == Init /\ [][Next]_i

SimFromClp(d) == [m \in 1..Len(d.data) |-> [gi \in 1..Len(d.axis) |-> Dot(DsMatrix(d, gi)[m], d.simclp[gi])]]   \* simclp[gi] over DsLabels(d)
SimFull(d) == LET L == DsLabels(d) G == GLabels(d) gm == GMatrix(d) IN
   [m \in 1..Len(d.data) |-> [gi \in 1..Len(d.axis) |->
       SumSeq([l \in 1..Len(L) |-> DsMatrix(d, gi)[m][l] * gm[gi][IndexOf(G, L[l])]])]]
Simulated(d) == IF HasGlobal(d) THEN SimFull(d) ELSE SimFromClp(d)
WithSim(c) == [c EXCEPT !.datasets = [k \in 1..Len(c.datasets) |-> [c.datasets[k] EXCEPT !.data = Simulated(c.datasets[k])]]]

C == WithSim(Cases[i])
E == Expected(C)

ZeroAtTruth(c, e) == \A b \in 1..Len(e.blocks) : LET B == e.blocks[b] IN B.valid =>
   /\ \A r \in 1..Len(B.res) : B.res[r] = 0
   /\ IF B.kind = "index"
      THEN \A p \in 1..Len(B.members) : LET d == c.datasets[B.members[p][1]] gi == B.members[p][2] L == DsLabels(d) IN
              \A l \in 1..Len(L) : B.clp[IndexOf(B.labels, L[l])] * d.scale = d.simclp[gi][l] * B.den
      ELSE LET d == c.datasets[B.members[1][1]] L == B.labels G == B.glabels IN      \* full model: identity pairing of equal labels
              \A a \in 1..Len(G), l \in 1..Len(L) : B.clp[(a - 1) * Len(L) + l] = (IF G[a] = L[l] THEN B.den ELSE 0)
InvZeroAtTruth == i > 0 => ZeroAtTruth(C, E)
InvEachPointOnce == i > 0 => EachPointOnce(C, E)

Strip(b) == [kind |-> b.kind, members |-> b.members, g |-> b.g, labels |-> b.labels, reduced |-> b.reduced, den |-> b.den, res |-> b.res,
             w |-> b.w, clp |-> b.clp, valid |-> b.valid, why |-> b.why, active |-> b.active,
             zeroed |-> <<>>, glabels |-> IF b.kind = "full" THEN b.glabels ELSE <<>>]
Emit == IF i > 0 THEN LET e == E c == C IN
           PrintT(<<"EXP", ToJson([i |-> i, linked |-> e.linked, blocks |-> [b \in 1..Len(e.blocks) |-> Strip(e.blocks[b])],
                                   data |-> [k \in 1..Len(c.datasets) |-> c.datasets[k].data],
                                   penalties |-> e.penalties, npoints |-> e.npoints, nclps |-> e.nclps, npenalties |-> e.npenalties])>>)
        ELSE TRUE
=============================================================================
