------------------------------- MODULE Registry -------------------------------
(* Plugin registry of pyglotaran (glotaran/plugin_system/base_registry.py).         *)
(* One action per public call; a multi-format registration is one step per key, as  *)
(* add_instantiated_plugin_to_registry loops.  Plugins are abstracted to (class     *)
(* full name, format): re-instantiating an IO plugin on re-registration is the same *)
(* abstract plugin.  All keys are strings; "dotted" is supplied as a set because    *)
(* TLC does not look inside strings.                                                *)
EXTENDS Naturals, Sequences, FiniteSets, TLC

CONSTANTS ShortNames,     \* keys without '.'
          DottedNames,    \* user supplied keys with '.', must be rejected as short names
          Classes,        \* plugin class full names ("m.C1"); they contain '.'
          InstanceMode,   \* TRUE: data-io / project-io registries (instances, one per format)
          MaxOps

VARIABLES reg,      \* Key -> Plugin (NoPlugin if absent)
          first,    \* short name -> plugin first registered under it
          pinned,   \* short name -> plugin last set by set_plugin
          ever,     \* set of plugins ever registered successfully
          pending,  \* remaining <<key, class>> steps of a multi-key registration
          last,     \* observation of the last step: op, key, cls, fmt, err, warned, ret
          nops

vars == <<reg, first, pinned, ever, pending, last, nops>>

NoPlugin == [cls |-> "none", fmt |-> ""]
Plugin(c, f) == [cls |-> c, fmt |-> f]
FmtOf(k) == IF InstanceMode THEN k ELSE ""
FullKey(c, f) == IF f = "" THEN c ELSE c \o "_" \o f
FullKeys == {FullKey(c, FmtOf(k)) : c \in Classes, k \in ShortNames} \cup Classes
Keys == ShortNames \cup DottedNames \cup FullKeys
HasDot(k) == k \notin ShortNames
NoObs == [op |-> "init", key |-> "", cls |-> "", fmt |-> "", err |-> "", warned |-> FALSE, ret |-> NoPlugin]

Init == /\ reg = [k \in Keys |-> NoPlugin]
        /\ first = [k \in ShortNames |-> NoPlugin]
        /\ pinned = [k \in ShortNames |-> NoPlugin]
        /\ ever = {}
        /\ pending = <<>>
        /\ last = NoObs
        /\ nops = 0

(* add_plugin_to_registry(key, plugin, registry, instance_identifier) *)
RegisterOne(k, c, f, ident) ==     \* plugin (c, f) registered under k with instance identifier ident
  LET p == Plugin(c, f) IN
  IF HasDot(k)
  THEN /\ last' = [op |-> "register", key |-> k, cls |-> c, fmt |-> f, err |-> "ValueError", warned |-> FALSE, ret |-> NoPlugin]
       /\ pending' = <<>>                       \* the exception aborts the loop over the remaining keys
       /\ UNCHANGED <<reg, first, pinned, ever>>
  ELSE LET exists == reg[k] # NoPlugin
           key2 == IF exists THEN c ELSE k
           warned == exists /\ reg[k].cls # c
       IN /\ reg' = [x \in Keys |-> IF x = key2 \/ x = FullKey(c, ident) THEN p ELSE reg[x]]
          /\ first' = IF ~exists THEN [first EXCEPT ![k] = p] ELSE first
          /\ ever' = IF ident = f THEN ever \cup {p} ELSE ever   \* consistent registrations (public API) only
          /\ last' = [op |-> "register", key |-> k, cls |-> c, fmt |-> f, err |-> "", warned |-> warned, ret |-> NoPlugin]
          /\ UNCHANGED pinned

BeginRegister(ks, c) ==     \* register_*(format_names)(cls) : first key is processed in the same call
  /\ pending = <<>> /\ nops < MaxOps /\ Len(ks) >= 1
  /\ nops' = nops + 1
  /\ IF HasDot(ks[1]) THEN RegisterOne(ks[1], c, FmtOf(ks[1]), FmtOf(ks[1]))
     ELSE RegisterOne(ks[1], c, FmtOf(ks[1]), FmtOf(ks[1])) /\ pending' = [i \in 1..(Len(ks) - 1) |-> <<ks[i + 1], c>>]

ContinueRegister ==
  /\ pending # <<>>
  /\ LET k == pending[1][1] c == pending[1][2] IN
       IF HasDot(k) THEN RegisterOne(k, c, FmtOf(k), FmtOf(k)) ELSE RegisterOne(k, c, FmtOf(k), FmtOf(k)) /\ pending' = Tail(pending)
  /\ UNCHANGED nops

(* set_plugin(key, full_plugin_name, registry) *)
SetPlugin(k, full) ==
  /\ pending = <<>> /\ nops < MaxOps /\ nops' = nops + 1
  /\ IF HasDot(k) \/ full \in ShortNames \/ reg[full] = NoPlugin
     THEN /\ last' = [op |-> "set", key |-> k, cls |-> full, fmt |-> "", err |-> "ValueError", warned |-> FALSE, ret |-> NoPlugin]
          /\ UNCHANGED <<reg, first, pinned, ever, pending>>
     ELSE /\ reg' = [reg EXCEPT ![k] = reg[full]]
          /\ pinned' = [pinned EXCEPT ![k] = reg[full]]
          /\ last' = [op |-> "set", key |-> k, cls |-> full, fmt |-> "", err |-> "", warned |-> FALSE, ret |-> NoPlugin]
          /\ UNCHANGED <<first, ever, pending>>

(* get_plugin_from_registry(key, registry, message); also what load_* / save_* dispatch on *)
Lookup(k) ==
  /\ pending = <<>> /\ nops < MaxOps /\ nops' = nops + 1
  /\ last' = IF reg[k] = NoPlugin
             THEN [op |-> "lookup", key |-> k, cls |-> "", fmt |-> "", err |-> "ValueError", warned |-> FALSE, ret |-> NoPlugin]
             ELSE [op |-> "lookup", key |-> k, cls |-> "", fmt |-> "", err |-> "", warned |-> FALSE, ret |-> reg[k]]
  /\ UNCHANGED <<reg, first, pinned, ever, pending>>

KeySeqs == {<<k>> : k \in ShortNames \cup DottedNames} \cup
           (IF InstanceMode THEN {<<k1, k2>> : k1 \in ShortNames, k2 \in (ShortNames \cup DottedNames)} ELSE {})

Next == \/ \E ks \in KeySeqs, c \in Classes : BeginRegister(ks, c)
        \/ ContinueRegister
        \/ \E k \in ShortNames \cup DottedNames, full \in Keys : SetPlugin(k, full)
        \/ \E k \in Keys : Lookup(k)

Spec == Init /\ [][Next]_vars

-------------------------------------------------------------------------------
TypeOK == /\ \A k \in Keys : reg[k] = NoPlugin \/ reg[k].cls \in Classes
          /\ nops \in 0..MaxOps

(* a short name resolves to the plugin first registered under it until set_plugin re-points it *)
FirstWins == \A k \in ShortNames :
   reg[k] = IF pinned[k] # NoPlugin THEN pinned[k] ELSE first[k]

(* every registered plugin remains retrievable under its full name (class name + instance identifier; *)
(* through the public API the identifier is the format name)                                            *)
FullNameReachable == \A p \in ever : reg[FullKey(p.cls, p.fmt)] = p

(* a later conflicting registration warns; a non-conflicting one does not *)
WarnOnlyOnRegister == last.warned => last.op = "register" /\ last.err = ""

DotRejected == (last.op \in {"register", "set"} /\ last.key \in DottedNames) => last.err = "ValueError"

(* only set_plugin changes what an already resolving short name resolves to *)
OnlySetRepoints == [][\A k \in ShortNames :
     (reg[k] # NoPlugin /\ reg'[k] # reg[k]) => (last'.op = "set" /\ last'.key = k /\ last'.err = "")]_vars

(* failed operations leave the registry unchanged *)
ErrorsArePure == [][last'.err # "" => reg' = reg]_vars

(* warned iff the short name resolved to a plugin of a different class *)
WarnIffConflict == [][(last'.op = "register" /\ last'.err = "") =>
     (last'.warned <=> (reg[last'.key] # NoPlugin /\ reg[last'.key].cls # last'.cls))]_vars

LookupFollowsRegistry == (last.op = "lookup" /\ last.err = "") => last.ret = reg[last.key]
===============================================================================
