---------------------------- MODULE OptimizerEmit ----------------------------
(* Emission wrappers for Optimizer (use -workers 1):                                   *)
(*  EmitCase : CONSTRAINT, one JSON line per terminal state (fault plan + allowed end)   *)
(*  EmitEdge : ACTION_CONSTRAINT, one JSON line per explored transition (C10 graph)      *)
EXTENDS Optimizer, Json

Key(f) == [k \in DOMAIN f |-> f[k]]
EmitCase == phase \in Terminal =>
   PrintT(<<"CASE", ToJson([k |-> faultK, kind |-> faultKind, method |-> method, verbose |-> verbose, raise |-> raiseFlag,
                            invalid |-> invalid, swapped |-> swapped,
                            fired |-> fired, nevals |-> nevals, phase |-> phase, outcome |-> outcome, failed |-> failed,
                            stdout |-> stdoutOwner, pointok |-> (resultPoint \in ok), nhist |-> Len(hist), nreturned |-> nreturned,
                            nanseen |-> nanSeen, snapshot |-> snapshot])>>)

St == [memo |-> memo, lp |-> lenClpPenalty, lc |-> lenClps, lr |-> lenResiduals, n |-> nevals, last |-> lastEval,
       nomp |-> nomPen, noml |-> nomLen, nh |-> Len(hist)]
EmitEdge == PrintT(<<"EDGE", ToJson([src |-> St, dst |-> St', pen |-> lastPen', op |-> lastEval'])>>)
=============================================================================
