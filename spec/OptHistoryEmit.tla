--------------------------- MODULE OptHistoryEmit ---------------------------
EXTENDS OptHistory, Json
Emit == PrintT(<<"HIST", ToJson([lines |-> lines, rows |-> Rows, current |-> CurrentIteration])>>)
=============================================================================
