---------------------------- MODULE IntervalsEmit ----------------------------
EXTENDS Intervals, Json
Emit == IF Done THEN PrintT(<<"CASE", ToJson([axis |-> axis, ivs |-> ivs, must |-> SortedSeq(Must(ivs)), may |-> SortedSeq(May(ivs))])>>) ELSE TRUE
==============================================================================
