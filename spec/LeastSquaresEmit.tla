-------------------------- MODULE LeastSquaresEmit --------------------------
EXTENDS LeastSquares, Json
Emit == IF Complete
        THEN LET sols == Sols
                 best == IF FullRank THEN CHOOSE js \in Feasible(sols) : KKTAt(sols, js) ELSE <<>>
             IN PrintT(<<"CASE", ToJson([A |-> A, y |-> y, fullrank |-> FullRank,
                                         vp |-> VP, vpres |-> ResNum(A, y, VP),
                                         nnls |-> sols[best], nnlsres |-> ResNum(A, y, sols[best]), active |-> best])>>)
        ELSE TRUE
=============================================================================
