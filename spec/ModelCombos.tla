----------------------------- MODULE ModelCombos -----------------------------
(* C14 (3): the combination space of builtin megacomplexes, enumerated by fan-out so that every valid *)
(* combination is produced exactly once; the harness instantiates each with float parameters.         *)
EXTENDS Naturals, Sequences, TLC, Json
VARIABLES stage, combo
vars == <<stage, combo>>
Fields == <<"decay", "irf", "glob", "baseline", "osc", "artifact", "nds", "scale">>
Options(f) == CASE f = "decay" -> {"sequential", "parallel", "general"}
                [] f = "irf" -> {"none", "gaussian", "dispersed", "mixed"}   \* mixed: dispersed (index dependent) for all datasets but the last, plain gaussian for the last
                [] f = "glob" -> {"clp", "spectral"}
                [] f = "baseline" -> {"no", "yes"}
                [] f = "osc" -> {"no", "yes"}
                [] f = "artifact" -> {"no", "yes"}
                [] f = "nds" -> {"1", "2", "3"}
                [] f = "scale" -> {"no", "yes"}
Init == stage = 1 /\ combo = [f \in {} |-> ""]
Choose == /\ stage <= Len(Fields)
          /\ \E o \in Options(Fields[stage]) : combo' = [f \in DOMAIN combo \cup {Fields[stage]} |-> IF f = Fields[stage] THEN o ELSE combo[f]]
          /\ stage' = stage + 1
Next == Choose
Spec == Init /\ [][Next]_vars
Complete == stage = Len(Fields) + 1
(* a coherent artifact needs an IRF; a spectral global model (full-model simulation pairs columns by label) *)
(* is combined with decay megacomplexes only                                                               *)
Valid == Complete /\ (combo["artifact"] = "yes" => combo["irf"] # "none")
                  /\ (combo["irf"] = "mixed" => combo["nds"] # "1")
                  /\ (combo["glob"] = "spectral" => (combo["baseline"] = "no" /\ combo["osc"] = "no" /\ combo["artifact"] = "no" /\ combo["nds"] = "1"))
NMegacomplexes == 1 + (IF combo["baseline"] = "yes" THEN 1 ELSE 0) + (IF combo["osc"] = "yes" THEN 1 ELSE 0) + (IF combo["artifact"] = "yes" THEN 1 ELSE 0)
                    + (IF combo["glob"] = "spectral" THEN 1 ELSE 0)
TypeOK == \A f \in DOMAIN combo : combo[f] \in Options(f)
Emit == IF Complete /\ Valid THEN PrintT(<<"COMBO", ToJson([combo |-> combo, nmc |-> NMegacomplexes])>>) ELSE TRUE
==============================================================================
