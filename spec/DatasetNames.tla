---------------------------- MODULE DatasetNames ----------------------------
(* X05 (growth): how a scheme's `data` argument becomes a mapping label -> dataset (glotaran/utils/io.py: load_datasets,     *)
(* DatasetMapping.loader; used by Scheme(data=...)).  An input is a sequence of items - a file path, a dataset carrying a    *)
(* source_path, or a dataset without one - or a mapping from user chosen labels to such items.  The label of a sequence item *)
(* is the stem of its (source) path, or dataset_<position> when it has none.  One action per processed item, as the code      *)
(* loops.  Labels are not checked for uniqueness: a later item silently replaces an earlier one with the same label.  TLC     *)
(* refutes NoDatasetLost (kept as a named, expected-to-fail property: the deviation CollisionLoses), and proves that a        *)
(* dataset is lost ONLY by such a collision and never from a mapping.                                                         *)
EXTENDS Integers, Sequences, FiniteSets, TLC

CONSTANTS Stems,      \* file stems; contains "dataset_2" so that a generated label can collide with a real one
          MaxLen

Kinds == {"file", "ds_src", "ds_nosrc"}
Items == [kind : {"file", "ds_src"}, stem : Stems] \cup {[kind |-> "ds_nosrc", stem |-> ""]}
Generated(i) == CASE i = 1 -> "dataset_1" [] i = 2 -> "dataset_2" [] i = 3 -> "dataset_3" [] OTHER -> "dataset_n"

VARIABLES mode, input, keys, pos, result
vars == <<mode, input, keys, pos, result>>

Init == mode = "choose" /\ input = <<>> /\ keys = <<>> /\ pos = 0 /\ result = <<>>     \* result: sequence of <<label, position of the item it maps to>>

AddItem(it) == mode = "choose" /\ Len(input) < MaxLen /\ input' = Append(input, it) /\ UNCHANGED <<mode, keys, pos, result>>
StartSequence == mode = "choose" /\ input # <<>> /\ mode' = "sequence" /\ pos' = 1 /\ UNCHANGED <<input, keys, result>>
StartMapping(ks) == /\ mode = "choose" /\ input # <<>> /\ Len(ks) = Len(input)
                    /\ \A i, j \in 1..Len(ks) : i # j => ks[i] # ks[j]                \* a mapping has distinct keys by construction
                    /\ mode' = "mapping" /\ keys' = ks /\ pos' = 1 /\ UNCHANGED <<input, result>>

LabelOf(i) == IF mode = "mapping" THEN keys[i]
              ELSE IF input[i].kind = "ds_nosrc" THEN Generated(i) ELSE input[i].stem
Put(res, l, i) == IF \E k \in 1..Len(res) : res[k][1] = l
                  THEN [k \in 1..Len(res) |-> IF res[k][1] = l THEN <<l, i>> ELSE res[k]]      \* replaced in place (dict semantics)
                  ELSE Append(res, <<l, i>>)
Process == /\ mode \in {"sequence", "mapping"} /\ pos <= Len(input)
           /\ result' = Put(result, LabelOf(pos), pos) /\ pos' = pos + 1 /\ UNCHANGED <<mode, input, keys>>

KeySeqs == UNION {[1..n -> {"a", "b", "dataset_1"}] : n \in 1..MaxLen}
Next == \/ \E it \in Items : AddItem(it)
        \/ StartSequence
        \/ \E ks \in KeySeqs : StartMapping(ks)
        \/ Process
Spec == Init /\ [][Next]_vars

-----------------------------------------------------------------------------
Done == mode # "choose" /\ pos = Len(input) + 1
Labels == {result[k][1] : k \in 1..Len(result)}
Kept == {result[k][2] : k \in 1..Len(result)}
LabelsAreDistinct == \A a, b \in 1..Len(result) : a # b => result[a][1] # result[b][1]
EveryLabelIsDue == Done => \A k \in 1..Len(result) : result[k][1] = LabelOf(result[k][2])
LaterWins == Done => \A i \in 1..Len(input) : i \notin Kept => \E j \in (i + 1)..Len(input) : LabelOf(j) = LabelOf(i)
MappingKeepsAll == (Done /\ mode = "mapping") => Kept = 1..Len(input)
LostOnlyByCollision == Done => (Cardinality(Kept) < Len(input) <=> \E i, j \in 1..Len(input) : i # j /\ LabelOf(i) = LabelOf(j))
(* expected to FAIL (named deviation CollisionLoses): the harness asserts that TLC finds the counterexample *)
NoDatasetLost == Done => Cardinality(Kept) = Len(input)
=============================================================================
