------------------------------ MODULE ParamTable ------------------------------
(* C16 - parameter tables round-trip through csv / tsv / xlsx / ods.                  *)
(*                                                                                    *)
(* A table is a sequence of rows of CELL CLASSES.  What a tabular reader does with a  *)
(* cell depends on the whole column (type inference), so the interesting object is    *)
(* the column composition: TLC enumerates, by fan-out AddRow steps, every table of    *)
(* 1..MaxRows rows in which at most two columns deviate from the all-default column   *)
(* (each of these two columns homogeneous or mixed in every possible way).            *)
(*                                                                                    *)
(* The file is modelled at the level of cell TEXT: what the text looks like to a      *)
(* content-sniffing reader (number / bool / na / empty / text) and its payload.       *)
(* The specified Load is schema driven: the column name alone decides how a cell is   *)
(* read (labels and expressions are text whatever they look like, empty bound = the   *)
(* infinite bound, NA standard error = NaN, NA expression = no expression).           *)
(* Specified result of Save;Load = identity on the sequence of rows (label ORDER      *)
(* included); a second cycle is a stutter on the file.                                *)
EXTENDS Naturals, Sequences, FiniteSets, TLC

CONSTANTS LabelClasses,      \* subset of {"plain","nested","numlike","numeric","kwbool","kwna"}
          ValueClasses,      \* subset of {"zero","one","int","frac","frac17","huge","neghuge","tiny","negtiny","inf","neginf"}
          StdErrClasses,     \* subset of {"nan","short","frac17","inf","vanishing"}
          Formats,           \* {"csv","tsv","xlsx","ods"}
          MaxRows,           \* 3
          MaxRowsPair,       \* rows allowed when two columns deviate from the default
          MaxRowsLabelValue, \* rows allowed when these two columns are label and value
          BuildOnly          \* TRUE: only enumerate tables (emission run)

VARIABLES table,   \* the parameters handed to Save (sequence of rows)
          phase,   \* "build" | "saved" | "loaded" | "saved2" | "loaded2"
          fmt,     \* format of the file ("" while building)
          file,    \* sequence of rows of text cells
          mem      \* what Load returned

vars == <<table, phase, fmt, file, mem>>

BoundClasses == {"inf", "finite"}
ExprClasses  == {"none", "ref"}     \* "ref": an expression referencing a parameter of another row / group
ColSet == {"label", "value", "standard_error", "minimum", "maximum", "vary", "non_negative", "expression"}

Default == [label |-> "plain", value |-> "frac", standard_error |-> "nan", minimum |-> "inf", maximum |-> "inf",
            vary |-> "True", non_negative |-> "False", expression |-> "none"]

Dom(c) == CASE c = "label" -> LabelClasses
            [] c = "value" -> ValueClasses
            [] c = "standard_error" -> StdErrClasses
            [] c = "minimum" -> BoundClasses
            [] c = "maximum" -> BoundClasses
            [] c = "vary" -> {"True", "False"}
            [] c = "non_negative" -> {"True", "False"}
            [] c = "expression" -> ExprClasses

(* a parameter with an expression is never varied and its value is what the expression evaluates to *)
Normal(r) == IF r.expression = "ref" THEN [r EXCEPT !.vary = "False", !.value = Default.value] ELSE r

Dev(r, c) == r[c] # Default[c] /\ ~(c = "vary" /\ r.expression = "ref")
DevCols(t) == {c \in ColSet : \E i \in 1..Len(t) : Dev(t[i], c)}

Admissible(t) == LET nd == DevCols(t) IN
   /\ Cardinality(nd) <= 2
   /\ (Cardinality(nd) = 2 => Len(t) <= MaxRowsPair)
   /\ ({"label", "value"} \subseteq nd => Len(t) <= MaxRowsLabelValue)

(* a valid parameter set: something an expression can refer to exists *)
Complete(t) == Len(t) >= 1 /\ \E i \in 1..Len(t) : t[i].expression = "none"

-------------------------------------------------------------------------------
(* text level *)
Looks(c, v) ==
  CASE c = "label" -> (CASE v \in {"numlike", "numeric"} -> "number" [] v = "kwbool" -> "bool" [] v = "kwna" -> "na" [] OTHER -> "text")
    [] c \in {"minimum", "maximum"} -> (IF v = "inf" THEN "empty" ELSE "number")
    [] c = "standard_error" -> (IF v = "nan" THEN "na" ELSE "number")
    [] c = "expression" -> (IF v = "none" THEN "na" ELSE "text")
    [] c \in {"vary", "non_negative"} -> "bool"
    [] OTHER -> "number"

EncCell(c, v) == [looks |-> Looks(c, v), payload |-> v]

(* schema-driven reading: the column decides, never the look of the text *)
DecCell(c, cell) ==
  CASE c \in {"minimum", "maximum"} -> (IF cell.looks = "empty" THEN "inf" ELSE cell.payload)
    [] c = "standard_error" -> (IF cell.looks = "na" THEN "nan" ELSE cell.payload)
    [] c = "expression" -> (IF cell.looks = "na" THEN "none" ELSE cell.payload)
    [] OTHER -> cell.payload

Encode(t) == [i \in 1..Len(t) |-> [c \in ColSet |-> EncCell(c, t[i][c])]]
Decode(f) == [i \in 1..Len(f) |-> [c \in ColSet |-> DecCell(c, f[i][c])]]

(* the encoding of every column is injective, otherwise no reader could be the identity *)
ASSUME EncodingInjective == \A c \in ColSet : \A v1, v2 \in Dom(c) : EncCell(c, v1) = EncCell(c, v2) => v1 = v2
ASSUME DefaultsInDomain == \A c \in ColSet : Default[c] \in Dom(c)

-------------------------------------------------------------------------------
Init == table = <<>> /\ phase = "build" /\ fmt = "" /\ file = <<>> /\ mem = <<>>

AddRow(r) == /\ phase = "build" /\ Len(table) < MaxRows
             /\ Admissible(Append(table, r))
             /\ table' = Append(table, r)
             /\ UNCHANGED <<phase, fmt, file, mem>>

Save(f) == /\ ~BuildOnly /\ phase = "build" /\ Complete(table)
           /\ fmt' = f /\ file' = Encode(table) /\ phase' = "saved"
           /\ UNCHANGED <<table, mem>>

Load == /\ phase \in {"saved", "saved2"}
        /\ mem' = Decode(file)
        /\ phase' = IF phase = "saved" THEN "loaded" ELSE "loaded2"
        /\ UNCHANGED <<table, fmt, file>>

SaveAgain == /\ phase = "loaded"
             /\ file' = Encode(mem) /\ phase' = "saved2"
             /\ UNCHANGED <<table, fmt, mem>>

Next == \/ \E c1, c2 \in ColSet : \E v1 \in Dom(c1), v2 \in Dom(c2) :
             AddRow(Normal([Default EXCEPT ![c1] = v1, ![c2] = v2]))
        \/ \E f \in Formats : Save(f)
        \/ Load
        \/ SaveAgain

Spec == Init /\ [][Next]_vars

-------------------------------------------------------------------------------
TypeOK == /\ phase \in {"build", "saved", "loaded", "saved2", "loaded2"}
          /\ Len(table) <= MaxRows
          /\ \A i \in 1..Len(table) : \A c \in ColSet : table[i][c] \in Dom(c)
          /\ Admissible(table)

(* Save ; Load = identity, in every format, after the first and after the second cycle *)
RoundTrip == phase \in {"loaded", "loaded2"} => mem = table

(* same labels in the same order (implied by RoundTrip; stated because the property names it) *)
OrderPreserved == phase \in {"loaded", "loaded2"} =>
     /\ Len(mem) = Len(table)
     /\ \A i \in 1..Len(table) : mem[i].label = table[i].label

(* expression rows stay unvaried *)
ExprNotVaried == \A i \in 1..Len(table) : table[i].expression = "ref" => table[i].vary = "False"

(* the second cycle is a stutter on the file *)
Idempotent == [][phase' = "saved2" => file' = file]_vars
===============================================================================
