-------------------------- MODULE ParamHistoryEmit --------------------------
EXTENDS ParamHistory, Json
St(l, r, c, o) == [labels |-> l, recs |-> r, cur |-> c, origin |-> o]
Emit == PrintT(<<"EDGE", ToJson([src |-> St(labels, recs, cur, origin), dst |-> St(labels', recs', cur', origin'), act |-> last'])>>)
=============================================================================
