------------------------------ MODULE Objective ------------------------------
(* C02 / C03 / C13 / C14: the separable least-squares objective as a staged exact pipeline.      *)
(* Stages mirror the code's methods:                                                             *)
(*   DsMatrix (calculate_dataset_matrix / combine_megacomplex_matrices), Scaled (dataset scale), *)
(*   Reduce (apply_relations, apply_constraints), WeightRows, Linked stacking (align_matrices),  *)
(*   Solve1 (variable projection / NNLS), Retrieve (retrieve_clps), Penalties (equal area),      *)
(*   FullModel (Kronecker product), Views (create_result_data), Counters (create_result).        *)
(* All inputs are integers (lattice megacomplexes), all results are integer numerators over a    *)
(* common positive denominator per block.  Cases come from a JSON file (harness generated or     *)
(* enumerated); the module checks the property's statement as invariants on every case and emits *)
(* the exact expected artefacts.                                                                 *)
EXTENDS LinAlg, TLC

RECURSIVE MergeLabels(_)
MergeLabels(ls) == IF ls = <<>> THEN <<>> ELSE
    LET h == Head(ls) rest == MergeLabels(Tail(ls)) IN h \o SelectSeq(rest, LAMBDA x : x \notin Range(h))
MaxOf(S) == IF S = {} THEN 0 ELSE CHOOSE x \in S : \A z \in S : z <= x

\* ---------------------------------------------------------------- intervals (closed, order-insensitive); <<>> = everywhere
InIv(iv, g) == LET lo == IF iv[1] <= iv[2] THEN iv[1] ELSE iv[2] hi == IF iv[1] <= iv[2] THEN iv[2] ELSE iv[1] IN lo <= g /\ g <= hi
InIvs(ivs, g) == ivs = <<>> \/ \E k \in 1..Len(ivs) : InIv(ivs[k], g)

\* ---------------------------------------------------------------- dataset matrix at global position gi (Labels: first seen order, shared labels add)
McCols(mc, gi) == IF mc.idx THEN mc.cols[gi] ELSE mc.cols
DsLabels(d) == MergeLabels([k \in 1..Len(d.mcs) |-> d.mcs[k].labels])
DsMatrix(d, gi) == LET full == DsLabels(d) m == Len(d.data) IN
   [i \in 1..m |-> [j \in 1..Len(full) |->
       SumSeq([k \in 1..Len(d.mcs) |-> IF full[j] \in Range(d.mcs[k].labels)
                                       THEN d.mcs[k].scale * McCols(d.mcs[k], gi)[IndexOf(d.mcs[k].labels, full[j])][i] ELSE 0])]]
Scaled(A, s) == [i \in 1..Len(A) |-> [j \in 1..Len(A[i]) |-> s * A[i][j]]]
Expand(A, labels, full) == [i \in 1..Len(A) |-> [j \in 1..Len(full) |-> IF full[j] \in Range(labels) THEN A[i][IndexOf(labels, full[j])] ELSE 0]]

\* ---------------------------------------------------------------- reduction: relations then constraints at coordinate g
\* label level (also used on its own by ReduceTrace.tla, which validates recorded reductions of real models)
ReduceLabels(labels, c, g) ==
  LET rels == SelectSeq(c.relations, LAMBDA r : r.target \in Range(labels) /\ r.source \in Range(labels) /\ InIvs(r.ivs, g))
      tgt == {rels[k].target : k \in 1..Len(rels)}
      keep1 == SelectSeq(labels, LAMBDA l : l \notin tgt)
      zs == {c.constraints[k].target : k \in {k \in 1..Len(c.constraints) :
                 IF c.constraints[k].type = "zero" THEN InIvs(c.constraints[k].ivs, g) ELSE ~InIvs(c.constraints[k].ivs, g)}}
      keep2 == SelectSeq(keep1, LAMBDA l : l \notin zs)
  IN [rels |-> rels, keep1 |-> keep1, zs |-> zs, keep2 |-> keep2]
Reduce(A, labels, c, g) ==
  LET rl == ReduceLabels(labels, c, g)
      rels == rl.rels
      coef(l, t) == LET ks == {k \in 1..Len(rels) : rels[k].source = l /\ rels[k].target = t} IN IF ks = {} THEN 0 ELSE rels[CHOOSE k \in ks : TRUE].param
      keep1 == rl.keep1
      A1 == [i \in 1..Len(A) |-> [j \in 1..Len(keep1) |->
               A[i][IndexOf(labels, keep1[j])] + Dot([t \in 1..Len(labels) |-> coef(keep1[j], labels[t])], A[i])]]
      keep2 == rl.keep2
  IN [labels |-> keep2, rels |-> rels, zeroed |-> rl.zs,
      A |-> [i \in 1..Len(A1) |-> [j \in 1..Len(keep2) |-> A1[i][IndexOf(keep1, keep2[j])]]]]
WeightRows(A, w) == [i \in 1..Len(A) |-> [j \in 1..Len(A[i]) |-> w[i] * A[i][j]]]
Had(u, v) == [i \in 1..Len(u) |-> u[i] * v[i]]

\* ---------------------------------------------------------------- weights: a dataset weight array wins over model weight items
MAxis(d) == IF d.maxis = <<>> THEN [i \in 1..Len(d.data) |-> i - 1] ELSE d.maxis
ModelW(c, d, i, gi) == LET ws == SelectSeq(c.weights, LAMBDA w : d.label \in Range(w.datasets)) IN
   LET RECURSIVE P(_)
       P(k) == IF k = 0 THEN 1 ELSE (IF InIvs(ws[k].givs, d.axis[gi]) /\ InIvs(ws[k].mivs, MAxis(d)[i]) THEN ws[k].value ELSE 1) * P(k - 1)
   IN P(Len(ws))
HasW(c, d) == d.weight # <<>> \/ \E k \in 1..Len(c.weights) : d.label \in Range(c.weights[k].datasets)
WCol(c, d, gi) == [i \in 1..Len(d.data) |-> IF d.weight # <<>> THEN d.weight[i][gi] ELSE ModelW(c, d, i, gi)]
DataCol(d, gi) == [i \in 1..Len(d.data) |-> d.data[i][gi]]

\* ---------------------------------------------------------------- 32-bit safety: conservative Hadamard-style bound (never a verdict)
MaxAbsM(A) == MaxOf({Abs(A[i][j]) : i \in 1..Len(A), j \in 1..Len(A[1])})
MaxAbsV(v) == MaxOf({Abs(v[i]) : i \in 1..Len(v)})
SafeBound(A, y) == LET n == Len(A[1]) e == MaxAbsM(A) IN
   /\ e <= 70 /\ MaxAbsV(y) <= 8 /\ Len(A) <= 12
   /\ LET x == Len(A) * e * e IN
        CASE n = 1 -> x <= 5000 [] n = 2 -> x <= 400 [] n = 3 -> x <= 100 [] n = 4 -> x <= 30 [] OTHER -> FALSE

\* ---------------------------------------------------------------- linear solve: VP or NNLS (exact, KKT certificate)
Solve1(A, y, fn) ==
  LET n == Len(A[1]) all == AllCols(n) IN
  IF fn = "variable_projection"
  THEN LET sol == LS(A, y, all, n) IN [den |-> sol.den, clp |-> sol.num, res |-> ResNum(A, y, sol), fullrank |-> sol.den # 0, active |-> all]
  ELSE LET subs == SubSeqs(n)
           sols == [js \in subs |-> LS(A, y, js, n)]
           rn == [js \in subs |-> ResNum(A, y, sols[js])]
           feas == {js \in subs : sols[js].den > 0 /\ \A j \in 1..n : sols[js].num[j] >= 0}
           best == CHOOSE js \in feas : \A j \in 1..n : Dot(ColI(A, j), rn[js]) <= 0
       IN [den |-> sols[best].den, clp |-> sols[best].num, res |-> rn[best], fullrank |-> sols[all].den # 0, active |-> best]

\* expand reduced clps to the full label list: zeros for constrained labels, parameter*source for relation targets
Retrieve(full, red, s) == [j \in 1..Len(full) |->
    IF full[j] \in Range(red.labels) THEN s.clp[IndexOf(red.labels, full[j])]
    ELSE LET ks == {k \in 1..Len(red.rels) : red.rels[k].target = full[j]} IN
         IF ks = {} THEN 0 ELSE LET r == red.rels[CHOOSE k \in ks : TRUE] IN
              IF r.source \in Range(red.labels) THEN r.param * s.clp[IndexOf(red.labels, r.source)] ELSE 0]

\* members: sequence of <<dataset position in c.datasets, local global index, number of rows>>
Block(c, members, g, full, A, y, w, anyw, fn) ==
  LET red == Reduce(A, full, c, g)
      Aw == IF anyw THEN WeightRows(red.A, w) ELSE red.A
      nonempty == red.labels # <<>>
      safe == nonempty /\ SafeBound(Aw, y)
      s == IF safe THEN Solve1(Aw, y, fn) ELSE [den |-> 0, clp |-> <<>>, res |-> <<>>, fullrank |-> FALSE, active |-> <<>>]
  IN [kind |-> "index", members |-> members, g |-> g, labels |-> full, reduced |-> red.labels, zeroed |-> red.zeroed,
      rels |-> [k \in 1..Len(red.rels) |-> <<red.rels[k].source, red.rels[k].target, red.rels[k].param>>],
      den |-> s.den, res |-> s.res, w |-> w, Aw |-> Aw, y |-> y, fn |-> fn, active |-> s.active,
      clp |-> IF safe /\ s.den # 0 THEN Retrieve(full, red, s) ELSE <<>>,
      valid |-> safe /\ s.fullrank,
      why |-> IF ~nonempty THEN "no-labels-left" ELSE IF ~safe THEN "bound" ELSE IF ~s.fullrank THEN "rank-deficient" ELSE ""]

UnlinkedDs(c, k) == LET d == c.datasets[k] IN
   [gi \in 1..Len(d.axis) |-> LET w == WCol(c, d, gi) hw == HasW(c, d) IN
        Block(c, <<<<k, gi, Len(d.data)>>>>, d.axis[gi], DsLabels(d), Scaled(DsMatrix(d, gi), d.scale),
              IF hw THEN Had(w, DataCol(d, gi)) ELSE DataCol(d, gi), w, hw, c.residual_function)]

\* ---------------------------------------------------------------- full model: Kronecker product of global row and matrix, rows global-major
GLabels(d) == MergeLabels([k \in 1..Len(d.gmcs) |-> d.gmcs[k].labels])
GMatrix(d) == LET full == GLabels(d) IN     \* n_global x Lg
   [gi \in 1..Len(d.axis) |-> [j \in 1..Len(full) |->
       SumSeq([k \in 1..Len(d.gmcs) |-> IF full[j] \in Range(d.gmcs[k].labels)
                                        THEN d.gmcs[k].scale * d.gmcs[k].cols[IndexOf(d.gmcs[k].labels, full[j])][gi] ELSE 0])]]
FullModel(c, k) ==
  LET d == c.datasets[k]  L == DsLabels(d)  G == GLabels(d)  nm == Len(d.data)  ng == Len(d.axis)  gm == GMatrix(d)
      rows == Flatten([gi \in 1..ng |-> LET M == DsMatrix(d, gi) IN
                 [i \in 1..nm |-> Flatten([lg \in 1..Len(G) |-> [l \in 1..Len(L) |-> gm[gi][lg] * M[i][l]]])]])
      hw == HasW(c, d)
      w == Flatten([gi \in 1..ng |-> WCol(c, d, gi)])
      yraw == Flatten([gi \in 1..ng |-> DataCol(d, gi)])
      y == IF hw THEN Had(w, yraw) ELSE yraw
      Aw == IF hw THEN WeightRows(rows, w) ELSE rows
      safe == SafeBound(Aw, y)
      s == IF safe THEN Solve1(Aw, y, c.residual_function) ELSE [den |-> 0, clp |-> <<>>, res |-> <<>>, fullrank |-> FALSE, active |-> <<>>]
  IN [kind |-> "full", members |-> <<<<k, 0, nm * ng>>>>, g |-> 0, labels |-> L, glabels |-> G, reduced |-> <<>>, zeroed |-> {}, rels |-> <<>>,
      den |-> s.den, res |-> s.res, w |-> w, Aw |-> Aw, y |-> y, fn |-> c.residual_function, active |-> s.active,
      clp |-> IF safe /\ s.den # 0 THEN s.clp ELSE <<>>,       \* index (lg - 1) * |L| + l
      valid |-> safe /\ s.fullrank, why |-> IF ~safe THEN "bound" ELSE IF ~s.fullrank THEN "rank-deficient" ELSE ""]

HasGlobal(d) == d.gmcs # <<>>
Unlinked(c) == Flatten([k \in 1..Len(c.datasets) |-> IF HasGlobal(c.datasets[k]) THEN <<FullModel(c, k)>> ELSE UnlinkedDs(c, k)])

\* ---------------------------------------------------------------- linked: stack exactly the datasets that share the aligned point (tolerance 0 here; ClpLink covers tolerances)
SortedSeq(S) == LET RECURSIVE F(_)
                    F(T) == IF T = {} THEN <<>> ELSE LET x == CHOOSE x \in T : \A z \in T : x <= z IN <<x>> \o F(T \ {x})
                IN F(S)
(* alignment with tolerance (method nearest; ClpLink.tla covers the methods and the ties): datasets in order, each point moves onto the *)
(* nearest point aligned BEFORE its dataset if one lies within the tolerance                                                          *)
NearestIn(target, p, tol) == LET cand == {q \in target : Abs(q - p) <= tol} IN
   IF cand = {} THEN p ELSE CHOOSE q \in cand : \A r \in cand : Abs(q - p) <= Abs(r - p)
TieIn(target, p, tol) == LET cand == {q \in target : Abs(q - p) <= tol} IN
   \E q \in cand, r \in cand : q # r /\ Abs(q - p) = Abs(r - p) /\ \A u \in cand : Abs(q - p) <= Abs(u - p)
RECURSIVE AlignFrom(_, _, _, _)
AlignFrom(c, k, target, acc) == IF k > Len(c.datasets) THEN acc ELSE
   LET ax == c.datasets[k].axis
       al == IF k = 1 THEN ax ELSE [i \in 1..Len(ax) |-> NearestIn(target, ax[i], c.tol)]
   IN AlignFrom(c, k + 1, target \cup Range(al), Append(acc, al))
AlignedAxes(c) == AlignFrom(c, 1, {}, <<>>)
RECURSIVE TiesFrom(_, _, _)
TiesFrom(c, k, target) == IF k > Len(c.datasets) THEN FALSE ELSE
   LET ax == c.datasets[k].axis
       al == IF k = 1 THEN ax ELSE [i \in 1..Len(ax) |-> NearestIn(target, ax[i], c.tol)]
   IN (k > 1 /\ \E i \in 1..Len(ax) : TieIn(target, ax[i], c.tol)) \/ Cardinality(Range(al)) # Len(al) \/ TiesFrom(c, k + 1, target \cup Range(al))
AlignmentUndecided(c) == TiesFrom(c, 1, {})       \* a tie (D3) or a refused alignment (AlignDatasetError): outside this module's premise

Linked(c) == LET al == AlignedAxes(c) ax == SortedSeq(UNION {Range(al[k]) : k \in 1..Len(c.datasets)}) IN
   [ai \in 1..Len(ax) |-> LET g == ax[ai]
        mem == SelectSeq([k \in 1..Len(c.datasets) |-> k], LAMBDA k : g \in Range(al[k]))
        D(p) == c.datasets[mem[p]]
        gi(p) == IndexOf(al[mem[p]], g)
        full == MergeLabels([p \in 1..Len(mem) |-> DsLabels(D(p))])
        A == Flatten([p \in 1..Len(mem) |-> Expand(Scaled(DsMatrix(D(p), gi(p)), D(p).scale), DsLabels(D(p)), full)])
        anyw == \E p \in 1..Len(mem) : HasW(c, D(p))
        w == Flatten([p \in 1..Len(mem) |-> IF HasW(c, D(p)) THEN WCol(c, D(p), gi(p)) ELSE [i \in 1..Len(D(p).data) |-> 1]])
        y == Flatten([p \in 1..Len(mem) |-> IF HasW(c, D(p)) THEN Had(WCol(c, D(p), gi(p)), DataCol(D(p), gi(p))) ELSE DataCol(D(p), gi(p))])
    IN Block(c, [p \in 1..Len(mem) |-> <<mem[p], gi(p), Len(D(p).data)>>], g, full, A, y, w, anyw, c.residual_function)]

\* ---------------------------------------------------------------- equal-area penalties (terms <<clp numerator, den>>, summed exactly by the harness)
AreaTerms(blocks, l, ivs) == SelectSeq([b \in 1..Len(blocks) |->
      IF blocks[b].kind = "index" /\ l \in Range(blocks[b].labels) /\ InIvs(ivs, blocks[b].g) /\ blocks[b].clp # <<>>
      THEN <<blocks[b].clp[IndexOf(blocks[b].labels, l)], blocks[b].den>> ELSE <<0, 0>>], LAMBDA t : t[2] # 0)
Present(blocks, l, ivs) == \E b \in 1..Len(blocks) : blocks[b].kind = "index" /\ l \in Range(blocks[b].labels) /\ InIvs(ivs, blocks[b].g)
Penalties(c, blocks) == [k \in 1..Len(c.penalties) |-> LET p == c.penalties[k] IN
    [src |-> AreaTerms(blocks, p.source, p.sivs), tgt |-> AreaTerms(blocks, p.target, p.tivs), param |-> p.param, weight |-> p.weight,
     active |-> Present(blocks, p.source, p.sivs) /\ Present(blocks, p.target, p.tivs)]]
DsBlocks(blocks, k) == SelectSeq(blocks, LAMBDA b : b.members[1][1] = k)

\* link_clp: TRUE / FALSE given, "auto": linked iff no dataset has a global model (one model dimension and one global dimension on the lattice)
IsLinked(c) == IF c.link = "auto" THEN \A k \in 1..Len(c.datasets) : ~HasGlobal(c.datasets[k]) ELSE c.link = "true"

\* ---------------------------------------------------------------- counters (create_result)
NPoints(c) == SumSeq([k \in 1..Len(c.datasets) |-> Len(c.datasets[k].data) * Len(c.datasets[k].axis)])
NClps(blocks) == SumSeq([b \in 1..Len(blocks) |-> IF blocks[b].kind = "full" THEN Len(blocks[b].labels) * Len(blocks[b].glabels) ELSE Len(blocks[b].reduced)])

Undecided(b) == [b EXCEPT !.valid = FALSE, !.why = "alignment-tie-or-refused"]
Expected(c) == LET linked == IsLinked(c)
                   blocks0 == IF linked THEN Linked(c) ELSE Unlinked(c)
                   blocks == IF linked /\ AlignmentUndecided(c) THEN [b \in 1..Len(blocks0) |-> Undecided(blocks0[b])] ELSE blocks0
                   pens == IF linked THEN <<Penalties(c, blocks)>>
                           ELSE [k \in 1..Len(c.datasets) |-> IF HasGlobal(c.datasets[k]) THEN <<>> ELSE Penalties(c, DsBlocks(blocks, k))]
               IN [linked |-> linked, blocks |-> blocks, penalties |-> pens,
                   npoints |-> NPoints(c), nclps |-> NClps(blocks),
                   npenalties |-> SumSeq([q \in 1..Len(pens) |-> Cardinality({k \in 1..Len(pens[q]) : pens[q][k].active})])]

\* ---------------------------------------------------------------- the property's statement on the model (guards the specification itself)
AllValid(e) == \A b \in 1..Len(e.blocks) : e.blocks[b].valid
Tags(e) == Flatten([b \in 1..Len(e.blocks) |-> Flatten([p \in 1..Len(e.blocks[b].members) |->
               LET m == e.blocks[b].members[p] IN [r \in 1..m[3] |-> <<m[1], m[2], r>>]])])
EachPointOnce(c, e) ==     \* every data point of every dataset exactly once in the residual part of the vector
  (e.linked /\ AlignmentUndecided(c)) \/          \* a refused / tied alignment has no stacked problem
  LET tags == Tags(e) IN
  /\ Len(tags) = NPoints(c)
  /\ Cardinality(Range(tags)) = Len(tags)
  /\ \A b \in 1..Len(e.blocks) : e.blocks[b].valid => Len(e.blocks[b].res) = SumSeq([p \in 1..Len(e.blocks[b].members) |-> e.blocks[b].members[p][3]])
  /\ \A k \in 1..Len(c.datasets) : LET d == c.datasets[k] IN
        IF HasGlobal(d) /\ ~e.linked THEN <<k, 0, 1>> \in Range(tags)
        ELSE \A gi \in 1..Len(d.axis), r \in 1..Len(d.data) : <<k, gi, r>> \in Range(tags)
BestFit(e) == \A b \in 1..Len(e.blocks) : LET B == e.blocks[b] IN B.valid =>
  LET n == Len(B.Aw[1]) IN
  IF B.fn = "variable_projection"
  THEN \A j \in 1..n : Dot(ColI(B.Aw, j), B.res) = 0                                   \* orthogonal to every column
  ELSE \A j \in 1..n : Dot(ColI(B.Aw, j), B.res) <= 0                                  \* KKT: gradient sign
ReducedLabels(e) == \A b \in 1..Len(e.blocks) : LET B == e.blocks[b] IN B.kind = "index" =>
  /\ Range(B.reduced) \subseteq Range(B.labels)
  /\ Range(B.reduced) \cap B.zeroed = {}
  /\ \A k \in 1..Len(B.rels) : B.rels[k][2] \notin Range(B.reduced)
  /\ B.valid => \A j \in 1..Len(B.labels) : (B.labels[j] \in B.zeroed /\ \A k \in 1..Len(B.rels) : B.rels[k][2] # B.labels[j]) => B.clp[j] = 0
SharedIffSameIndex(c, e) == (e.linked /\ ~AlignmentUndecided(c)) =>
  \A b \in 1..Len(e.blocks) : \A p \in 1..Len(e.blocks[b].members) :
      LET m == e.blocks[b].members[p] IN AlignedAxes(c)[m[1]][m[2]] = e.blocks[b].g /\ Abs(c.datasets[m[1]].axis[m[2]] - e.blocks[b].g) <= c.tol
=============================================================================
