--------------------------------- MODULE Basis ---------------------------------
(* C07: damped-oscillation, PFID, coherent-artifact and spectral-shape basis          *)
(* functions as symbolic terms with exact (rational) arguments.                        *)
(*                                                                                    *)
(*   Osc(gamma, nu, t)      cos column  exp(-gamma t) cos(omega t)                     *)
(*                          sin column  Im exp(-gamma t - i omega t) = -exp(-gamma t) sin(omega t)  *)
(*                          omega = 2 pi 0.03 nu  (nu in cm^-1, t in ps; the conversion the code documents) *)
(*   Tail(k, t-c, w)        exp(k^2 w^2/2 - k (t-c)), k = gamma + i omega: the convolution of the causal   *)
(*                          (resp. anti-causal) oscillation with the area-normalised Gaussian once the      *)
(*                          error function has saturated; columns are K Re/Im SUM_g weight_g Tail_g         *)
(*   Gauss(c, w, t) = exp(-(t-c)^2/(2 w^2)), GaussD1 = (c-t)/w^2 Gauss, GaussD2 = ((t-c)^2-w^2)/w^4 Gauss   *)
(*   Shape(A, x0, D, b, x)  b = 0: A 2^(-u^2), u = 2(x-x0)/D;  b # 0: theta = 1 + b u,                      *)
(*                          theta <= 0 -> 0, else A exp(-ln2 (ln theta / b)^2)                              *)
(*                                                                                    *)
(* EffectivePosition(i) is IrfIndex!EffCentre/EffWidth: ONE definition used by decay   *)
(* (C05), artifact, oscillation and PFID.                                              *)
(* Regions in which the specification decides the value (elsewhere: undecided, needs   *)
(* the complex error function):                                                        *)
(*   oscillation (gamma >= 0):  before  t - c_g <= -10 w_g            -> 0             *)
(*                              after   t - c_g >= 7 w_g + (gamma + omega) w_g^2  -> K Tail   *)
(*   PFID (gamma < 0):          after   t - c_g >= 10 w_g             -> 0             *)
(*                              before  t - c_g <= -7 w_g - (|gamma| + |domega|) w_g^2 -> K Tail *)
(* (for z = x + iy, |erfc(z)| <= exp(y^2 - x^2)/(x sqrt pi); the conditions give x - y >= 7/sqrt2, so  *)
(*  x^2 - y^2 >= 24.5 and the relative deviation from saturation is < 3e-12.)  The regions are decided   *)
(* with outward-rounded centres/widths and a rational upper bound of omega (pi < 22/7), so that they are *)
(* subsets of the true regions.                                                        *)
EXTENDS IrfIndex

CONSTANTS Kinds,        \* subset of {"osc", "oscirf", "pfid", "art", "shape"}
          OscCounts,    \* subset of 1..3
          RatePats,     \* subset of 1..4 : rows of RateTab (1, 2 non-negative; 3, 4 contain negative rates)
          FreqVars,     \* subset of 1..2
          ArtOrders,    \* subset of 1..3
          BClasses,     \* subset of 0..12 : skewness classes
          AxisModes     \* subset of {"plain", "scaled", "inverted"}

VARIABLES bstage,  \* 0 = kind not chosen, 1 = kind chosen (IRF fan-out of IrfIndex running or complete)
          bc       \* the basis case record

bvars == <<stage, cfg, asym, bstage, bc>>

--------------------------------------------------------------------------------
(* tables *)
OscLabels == <<"oa", "ob", "oc">>
RateTab == << << <<1, 2>>, <<2, 1>>, <<1, 8>> >>,
              << <<0, 1>>, <<1, 1>>, <<1, 4>> >>,
              << <<-1, 2>>, <<-1, 4>>, <<-2, 1>> >>,
              << <<1, 1>>, <<-1, 2>>, <<0, 1>> >> >>
PfidRateTab == << << <<-1, 2>>, <<-2, 1>>, <<-1, 8>> >>,
                  << <<-1, 1>>, <<-1, 4>>, <<-4, 1>> >>,
                  << <<-1, 2>>, <<-2, 1>>, <<-1, 8>> >>,
                  << <<-1, 1>>, <<-1, 4>>, <<-4, 1>> >> >>
FreqLo == << <<10, 25, 40>>, <<0, 5, 50>> >>               \* cm^-1
FreqHi == << <<1000, 2000, 333>>, <<1500, 800, 2000>> >>
PfidNu == << <<450, 520, 690>>, <<380, 505, 1000>> >>      \* effective (after axis transformation) cm^-1
TimeNoIrf == << << <<-1, 1>>, <<0, 1>>, <<1, 1024>>, <<1, 4>>, <<1, 2>>, <<1, 1>>, <<3, 1>> >>,
                << <<0, 1>>, <<1, 4>>, <<1, 2>>, <<1, 1>>, <<2, 1>> >> >>
TimeIrf == << <<-400, 1>>, <<-60, 1>>, <<-12, 1>>, <<-1, 1>>, <<0, 1>>, <<1, 32>>, <<1, 16>>, <<1, 8>>, <<3, 16>>, <<1, 4>>,
              <<1, 2>>, <<2, 1>>, <<12, 1>>, <<40, 1>>, <<100, 1>> >>
ArtWidthTab == << <<3, 16>>, <<1, 32>> >>
AmpTab == << <<2, 1>>, <<-3, 1>>, <<1, 2>> >>
LocTab == << <<500, 1>>, <<-5, 2>>, <<0, 1>> >>
FwhmTab == << <<2, 1>>, <<1, 2>>, <<50, 1>> >>
(* skewness classes: b = sgn 2^(-e) *)
BTab == << [sgn |-> 0, e |-> 0],
           [sgn |-> 1, e |-> 30], [sgn |-> -1, e |-> 30], [sgn |-> 1, e |-> 26], [sgn |-> -1, e |-> 26],
           [sgn |-> 1, e |-> 24], [sgn |-> -1, e |-> 24], [sgn |-> 1, e |-> 20], [sgn |-> -1, e |-> 20],
           [sgn |-> 1, e |-> 1], [sgn |-> -1, e |-> 1], [sgn |-> 1, e |-> -1], [sgn |-> -1, e |-> -1] >>
ScaleOf(mode) == IF mode = "plain" THEN One ELSE IF mode = "scaled" THEN <<1, 4>> ELSE <<10000000, 1>>
(* offsets m (x' = x0 + m D) of the spectral axis: location, half maximum, far points and both sides of theta = 0 *)
ShapeOffsets == << <<0, 1>>, <<1, 2>>, <<-1, 2>>, <<1, 4>>, <<-1, 4>>, <<1, 1>>, <<-1, 1>>, <<7, 8>>, <<-7, 8>>,
                   <<9, 8>>, <<-9, 8>>, <<2, 1>>, <<-2, 1>>, <<4, 1>>, <<-4, 1>>, <<3, 16>>, <<-3, 16>>, <<5, 16>>, <<-5, 16>> >>

DefaultBC == [kind |-> "none", n |-> 1, ratePat |-> 1, freqVar |-> 1, timeVar |-> 1, ownWidth |-> 0,
              mode |-> "plain", skewed |-> FALSE, bcls |-> 0, ampVar |-> 0, locVar |-> 1, fwhmVar |-> 1]

--------------------------------------------------------------------------------
(* derived quantities of a complete case *)
NeedsIrf(k) == k \in {"oscirf", "pfid", "art"}
Rates == IF bc.kind = "pfid" THEN Prefix(PfidRateTab[bc.ratePat], bc.n) ELSE Prefix(RateTab[bc.ratePat], bc.n)
Freqs == IF bc.kind = "pfid" THEN Prefix(PfidNu[bc.freqVar], bc.n)
         ELSE IF bc.kind = "osc" THEN Prefix((IF bc.freqVar <= 2 THEN FreqLo[bc.freqVar] ELSE FreqHi[bc.freqVar - 2]), bc.n)
         ELSE Prefix((IF cfg.valVar = 3 THEN FreqHi[bc.freqVar] ELSE FreqLo[bc.freqVar]), bc.n)
Times == IF bc.kind = "osc" THEN TimeNoIrf[bc.timeVar] ELSE TimeIrf
Labels == Prefix(OscLabels, bc.n)
ExpectedClpLabels == [j \in 1..(2 * bc.n) |-> IF j <= bc.n THEN Labels[j] \o "_cos" ELSE Labels[j - bc.n] \o "_sin"]

(* PFID: the frequency parameter p of the model such that Transform(p) = the effective wavenumber nu *)
PfidParam(nu) == IF bc.mode = "inverted" THEN RDiv(ScaleOf("inverted"), RInt(nu))
                 ELSE IF bc.mode = "scaled" THEN RDiv(RInt(nu), ScaleOf("scaled")) ELSE RInt(nu)
PfidTransform(p) == IF bc.mode = "inverted" THEN RDiv(ScaleOf("inverted"), p)
                    ELSE IF bc.mode = "scaled" THEN RMul(p, ScaleOf("scaled")) ELSE p

(* rational upper bound of omega = 0.06 pi |nu| (pi < 22/7) and sampling classification of the no-IRF case *)
OmegaUB(nu) == R(Abs(nu) * 33, 175)
RECURSIVE MinGapTo(_, _)
MinGapTo(ts, n) == IF n = 2 THEN RSub(ts[2], ts[1])
                   ELSE LET d == RSub(ts[n], ts[n - 1])  r == MinGapTo(ts, n - 1) IN IF RLt(d, r) THEN d ELSE r
MinGap(ts) == MinGapTo(ts, Len(ts))                         \* the enumerated axes are increasing
(* omega * 0.06 * dt_min >= 1  <=>  nu dt 0.0036 pi >= 1 ; decided with 3.14 < pi < 3.15 *)
SurelyUnder(nu, dt) == RLe(One, RMul(RMul(RInt(nu), dt), R(11304, 1000000)))
SurelyNotUnder(nu, dt) == RLt(RMul(RMul(RInt(nu), dt), R(11340, 1000000)), One)
Undersampled == \E l \in 1..bc.n : SurelyUnder(Freqs[l], MinGap(Times))

(* outward rounding to the grid 1/q *)
CeilTo(x, q) == R(-(((-x[1]) * q) \div x[2]), q)            \* \div floors, so -floor(-y) = ceil(y)
FloorTo(x, q) == R((x[1] * q) \div x[2], q)
Grid == IF cfg.valVar = 3 THEN 4096 ELSE 256
KUp(x) == CeilTo(x, 1)                                      \* integer upper bound
(* per-state tables, flat (one level) and forced with TLCEval: TLC keeps LET-bound functions lazy and would  *)
(* re-evaluate the body at every application                                                                *)
Bounds == TLCEval([p \in (1..NIdx(cfg)) \X (1..NG(cfg)) |->
             LET wup == CeilTo(EffWidth(cfg, p[1], p[2]), Grid)
             IN [cup |-> CeilTo(EffCentre(cfg, p[1], p[2]), Grid), clo |-> FloorTo(EffCentre(cfg, p[1], p[2]), Grid),
                 wup |-> wup, w2up |-> CeilTo(RSq(wup), 65536)]])      \* w2up >= w^2 on a coarse grid (32-bit safety)
Thr(bd, kk) == RAdd(RMul(RInt(7), bd.wup), RMul(kk, bd.w2up))           \* >= 7 w + kk w^2
PfidDNuUB(i, l) == Abs(cfg.axis[i] - Freqs[l])
OscK(l) == KUp(RAdd(Rates[l], OmegaUB(Freqs[l])))
PfidK(i, l) == KUp(RAdd(RNeg(Rates[l]), OmegaUB(PfidDNuUB(i, l))))
RMax(a, b) == IF RLe(a, b) THEN b ELSE a
RMin(a, b) == IF RLe(a, b) THEN a ELSE b
Relevant(l) == IF bc.kind = "oscirf" THEN RLe(Zero, Rates[l]) ELSE RLt(Rates[l], Zero)
(* time limits: the value is decided for t >= ta ("after") and for t <= tb ("before"), for every Gaussian of the IRF *)
(*   oscillation: after  t - c_g >= 7 w_g + (gamma + omega) w_g^2,   before t - c_g <= -10 w_g                      *)
(*   PFID:        after  t - c_g >= 10 w_g,                          before t - c_g <= -7 w_g - (|gamma| + |domega|) w_g^2 *)
RECURSIVE TaTo(_, _, _, _), TbTo(_, _, _, _)
TaOne(B, i, l, g) == IF bc.kind = "oscirf" THEN RAdd(B[<<i, g>>].cup, Thr(B[<<i, g>>], OscK(l)))
                     ELSE RAdd(B[<<i, g>>].cup, RMul(RInt(10), B[<<i, g>>].wup))
TbOne(B, i, l, g) == IF bc.kind = "oscirf" THEN RSub(B[<<i, g>>].clo, RMul(RInt(10), B[<<i, g>>].wup))
                     ELSE RSub(B[<<i, g>>].clo, Thr(B[<<i, g>>], PfidK(i, l)))
TaTo(B, i, l, g) == IF g = 1 THEN TaOne(B, i, l, 1) ELSE RMax(TaOne(B, i, l, g), TaTo(B, i, l, g - 1))
TbTo(B, i, l, g) == IF g = 1 THEN TbOne(B, i, l, 1) ELSE RMin(TbOne(B, i, l, g), TbTo(B, i, l, g - 1))
LimitTable == LET B == Bounds IN
   TLCEval([p \in (1..NIdx(cfg)) \X (1..bc.n) |-> [ta |-> TaTo(B, p[1], p[2], NG(cfg)), tb |-> TbTo(B, p[1], p[2], NG(cfg))]])
RegionAt(lim, l, t) == IF ~Relevant(l) THEN "na" ELSE IF RLe(lim.ta, t) THEN "after" ELSE IF RLe(t, lim.tb) THEN "before" ELSE "inside"
RegionFlat == LET L == LimitTable IN
   TLCEval([p \in (1..NIdx(cfg)) \X (1..bc.n) \X (1..Len(Times)) |-> RegionAt(L[<<p[1], p[2]>>], p[2], Times[p[3]])])
RegionTable == LET F == RegionFlat IN          \* nested form for the emitter
   [i \in 1..NIdx(cfg) |-> [l \in 1..bc.n |-> [a \in 1..Len(Times) |-> F[<<i, l, a>>]]]]

(* coherent artifact *)
ArtCentre(i) == EffCentre(cfg, i, 1)
ArtWidth(i) == IF bc.ownWidth = 0 THEN EffWidth(cfg, i, 1) ELSE ArtWidthTab[bc.ownWidth]
ArtClean(i, t) == /\ ArtCentre(i)[2] <= 64 /\ ArtWidth(i)[2] <= 64 /\ RLt(Zero, ArtWidth(i))
                  /\ RLe(RSub(t, ArtCentre(i)), RInt(2)) /\ RLe(RInt(-2), RSub(t, ArtCentre(i)))
ArtP1(i, t) == RDiv(RSub(ArtCentre(i), t), RSq(ArtWidth(i)))                                        \* (c - t)/w^2
ArtP2(i, t) == RDiv(RSub(RSq(RSub(t, ArtCentre(i))), RSq(ArtWidth(i))), RSq(RSq(ArtWidth(i))))      \* ((t-c)^2 - w^2)/w^4
ArtGArg(i, t) == RDiv(RSq(RSub(t, ArtCentre(i))), RMul(RInt(2), RSq(ArtWidth(i))))                  \* (t-c)^2/(2 w^2)

(* spectral shapes *)
Amp == IF bc.ampVar = 0 THEN One ELSE AmpTab[bc.ampVar]
Loc == LocTab[bc.locVar]
Fwhm == FwhmTab[bc.fwhmVar]
BRec == BTab[bc.bcls + 1]
BigB == BRec.sgn # 0 /\ BRec.e <= 1                          \* |b| >= 1/2 : theta changes sign on the axis
BRat == IF BRec.sgn = 0 THEN Zero ELSE IF BRec.e = 1 THEN <<BRec.sgn, 2>> ELSE IF BRec.e = -1 THEN <<2 * BRec.sgn, 1>> ELSE Zero
XPrime(k) == RAdd(Loc, RMul(ShapeOffsets[k], Fwhm))          \* point of the transformed axis
XReal(k) == IF bc.mode = "inverted" THEN RDiv(ScaleOf("inverted"), XPrime(k))
            ELSE IF bc.mode = "scaled" THEN RDiv(XPrime(k), ScaleOf("scaled")) ELSE XPrime(k)
XTransform(x) == IF bc.mode = "inverted" THEN RDiv(ScaleOf("inverted"), x)
                 ELSE IF bc.mode = "scaled" THEN RMul(x, ScaleOf("scaled")) ELSE x
U(k) == RMul(RInt(2), ShapeOffsets[k])                       \* u = 2 (x' - x0)/D
Theta(k) == RAdd(One, RMul(BRat, U(k)))                      \* only meaningful when BigB
ShapeFact(k) ==
   IF BigB /\ RLe(Theta(k), Zero) THEN "zero"
   ELSE IF ShapeOffsets[k] = Zero THEN "amp"
   ELSE IF BRec.sgn = 0 /\ RSq(U(k)) = One THEN "half"
   ELSE IF BRec.sgn = 0 THEN "gauss"
   ELSE IF BigB THEN "skew"
   ELSE "cont"                                               \* tiny |b|: only the continuity bound is decided
ShapePoints == 1..Len(ShapeOffsets)

--------------------------------------------------------------------------------
(* fan-out *)
BInit == IInit /\ bstage = 0 /\ bc = DefaultBC

ChooseOsc(n, rp, fv, tv) ==
  /\ bstage = 0 /\ "osc" \in Kinds /\ bstage' = 1 /\ stage' = 5
  /\ bc' = [bc EXCEPT !.kind = "osc", !.n = n, !.ratePat = rp, !.freqVar = fv, !.timeVar = tv]
  /\ UNCHANGED <<cfg, asym>>

ChooseOscIrf(n, rp, fv) ==
  /\ bstage = 0 /\ "oscirf" \in Kinds /\ bstage' = 1
  /\ bc' = [bc EXCEPT !.kind = "oscirf", !.n = n, !.ratePat = rp, !.freqVar = fv]
  /\ UNCHANGED <<stage, cfg, asym>>

ChoosePfid(n, rp, fv, md) ==
  /\ bstage = 0 /\ "pfid" \in Kinds /\ bstage' = 1
  /\ bc' = [bc EXCEPT !.kind = "pfid", !.n = n, !.ratePat = rp, !.freqVar = fv, !.mode = md]
  /\ UNCHANGED <<stage, cfg, asym>>

ChooseArt(order, ow) ==
  /\ bstage = 0 /\ "art" \in Kinds /\ bstage' = 1
  /\ bc' = [bc EXCEPT !.kind = "art", !.n = order, !.ownWidth = ow]
  /\ UNCHANGED <<stage, cfg, asym>>

ChooseSpectral(sk, b, av, lv, fw, md) ==
  /\ bstage = 0 /\ "shape" \in Kinds /\ bstage' = 1 /\ stage' = 5
  /\ (~sk) => b = 0
  /\ md = "inverted" => lv # 3
  /\ bc' = [bc EXCEPT !.kind = "shape", !.skewed = sk, !.bcls = b, !.ampVar = av, !.locVar = lv, !.fwhmVar = fw, !.mode = md]
  /\ UNCHANGED <<cfg, asym>>

IrfStep == bstage = 1 /\ stage < 5 /\ INext /\ UNCHANGED <<bstage, bc>>

BNext == \/ \E n \in OscCounts, rp \in RatePats, fv \in 1..4, tv \in 1..2 : ChooseOsc(n, rp, fv, tv)
         \/ \E n \in OscCounts, rp \in RatePats, fv \in FreqVars : ChooseOscIrf(n, rp, fv)
         \/ \E n \in OscCounts \cap {1, 2}, rp \in RatePats \cap {1, 2}, fv \in FreqVars, md \in AxisModes : ChoosePfid(n, rp, fv, md)
         \/ \E o \in ArtOrders, ow \in 0..2 : ChooseArt(o, ow)
         \/ \E sk \in BOOLEAN, b \in BClasses, av \in 0..3, lv \in 1..3, fw \in 1..3, md \in AxisModes : ChooseSpectral(sk, b, av, lv, fw, md)
         \/ IrfStep

BSpec == BInit /\ [][BNext]_bvars

--------------------------------------------------------------------------------
(* what TLC decides *)
BDone == bstage = 1 /\ stage = 5
BIdx == 1..NIdx(cfg)
TimeIdx == 1..Len(Times)

BTypeOK == /\ bstage \in {0, 1}
           /\ bc.kind \in {"none", "osc", "oscirf", "pfid", "art", "shape"}
           /\ BDone => bc.kind # "none"

(* quadrature pairing: the two columns of an oscillation carry that oscillation's (gamma, nu), in the order  *)
(* cos labels then sin labels, and the enumerated oscillations are pairwise distinguishable                   *)
OscFacts == (BDone /\ bc.kind \in {"osc", "oscirf", "pfid"}) =>
   /\ Len(ExpectedClpLabels) = 2 * bc.n
   /\ \A l \in 1..bc.n : ExpectedClpLabels[l] = Labels[l] \o "_cos" /\ ExpectedClpLabels[bc.n + l] = Labels[l] \o "_sin"
   /\ \A l, m \in 1..bc.n : l # m => <<Rates[l], Freqs[l]>> # <<Rates[m], Freqs[m]>>
   /\ bc.kind = "osc" => \A l \in 1..bc.n : SurelyUnder(Freqs[l], MinGap(Times)) \/ SurelyNotUnder(Freqs[l], MinGap(Times))
   /\ bc.kind = "oscirf" => \A l \in 1..bc.n : SurelyNotUnder(Freqs[l], MinGap(Times))
   /\ bc.kind = "pfid" => \A l \in 1..bc.n : PfidTransform(PfidParam(Freqs[l])) = RInt(Freqs[l])

(* before/after-pulse regions: the roundings are outward, the two regions are disjoint, closed in the right  *)
(* direction along the (increasing) time axis, and neither is empty on the enumerated axis                   *)
RegionFacts == (BDone /\ bc.kind \in {"oscirf", "pfid"} /\ WidthsPositive(cfg)) =>
   LET B == Bounds
       L == LimitTable
       RT == RegionFlat
       NT == Len(Times)
   IN
   /\ \A i \in BIdx, g \in 1..NG(cfg) :
        /\ RLe(B[<<i, g>>].clo, EffCentre(cfg, i, g)) /\ RLe(EffCentre(cfg, i, g), B[<<i, g>>].cup)
        /\ RLe(EffWidth(cfg, i, g), B[<<i, g>>].wup) /\ RLe(RSq(B[<<i, g>>].wup), B[<<i, g>>].w2up)
   /\ \A i \in BIdx, l \in 1..bc.n : Relevant(l) =>
        /\ RLt(L[<<i, l>>].tb, L[<<i, l>>].ta)
        /\ \A a \in 1..(NT - 1) :
              /\ RT[<<i, l, a>>] = "after" => RT[<<i, l, a + 1>>] = "after"
              /\ RT[<<i, l, a + 1>>] = "before" => RT[<<i, l, a>>] = "before"
        /\ \E a \in 1..NT : RT[<<i, l, a>>] = "after"
        /\ \E a \in 1..NT : RT[<<i, l, a>>] = "before"

(* one effective position per index for every IRF-using basis function (same operator as C05's decay) *)
SharedPosition == (BDone /\ NeedsIrf(bc.kind)) => \A i \in BIdx :
   /\ ArtCentre(i) = RAdd(RSub(BCentre(cfg, 1), ShiftAt(cfg, i)), CDisp(cfg, i))
   /\ \A g \in 1..NG(cfg) : EffCentre(cfg, i, g) = RAdd(RSub(BCentre(cfg, g), ShiftAt(cfg, i)), CDisp(cfg, i))
   /\ bc.ownWidth = 0 => ArtWidth(i) = EffWidth(cfg, i, 1)

(* derivative identities of the Gaussian, on the part of the lattice with small denominators *)
ArtifactFacts == (BDone /\ bc.kind = "art") => \A i \in BIdx, a \in TimeIdx : ArtClean(i, Times[a]) =>
   LET t == Times[a]  w == ArtWidth(i)  c == ArtCentre(i) IN
   /\ ArtP2(i, t) = RSub(RSq(ArtP1(i, t)), RDiv(One, RSq(w)))          \* g''/g = (g'/g)^2 - 1/w^2
   /\ t = c => (ArtP1(i, t) = Zero /\ ArtP2(i, t) = RNeg(RDiv(One, RSq(w))) /\ ArtGArg(i, t) = Zero)
   /\ RMul(ArtP1(i, t), RSq(w)) = RSub(c, t)
   /\ RSq(RSub(t, c)) = RSq(w) => ArtP2(i, t) = Zero                   \* inflection points at c +- w
   /\ RMul(ArtGArg(i, t), RMul(RInt(2), RSq(w))) = RSq(RSub(t, c))

(* Shape(x0) = A, Shape(x0 +- D/2) = A/2 (b = 0), theta <= 0 => 0, both sides of theta = 0 on the axis *)
ShapeFacts == (BDone /\ bc.kind = "shape") =>
   /\ \A k \in ShapePoints :
        /\ XTransform(XReal(k)) = XPrime(k)
        /\ ShapeOffsets[k] = Zero => (U(k) = Zero /\ XPrime(k) = Loc /\ (BigB => Theta(k) = One) /\ ShapeFact(k) = "amp")
        /\ (BRec.sgn = 0 /\ (ShapeOffsets[k] = <<1, 2>> \/ ShapeOffsets[k] = <<-1, 2>>)) => (RSq(U(k)) = One /\ ShapeFact(k) = "half")
        /\ BigB => ((ShapeFact(k) = "zero") <=> RLe(RMul(BRat, U(k)), RInt(-1)))
        /\ (BRec.sgn # 0 /\ ~BigB) => ShapeFact(k) \in {"amp", "cont"}
        /\ bc.mode = "inverted" => XPrime(k) # Zero
        /\ \A j \in ShapePoints : (BRec.sgn = 0 /\ ShapeOffsets[j] = RNeg(ShapeOffsets[k])) => RSq(U(j)) = RSq(U(k))
   /\ BigB => /\ \E k \in ShapePoints : RLt(Theta(k), Zero)
              /\ \E k \in ShapePoints : Theta(k) = Zero
              /\ \E k \in ShapePoints : RLt(Zero, Theta(k)) /\ ShapeOffsets[k] # Zero
   /\ (~bc.skewed) => BRec.sgn = 0

================================================================================
