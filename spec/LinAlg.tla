------------------------------- MODULE LinAlg -------------------------------
(* Fraction-free integer linear algebra for small dense matrices (TLC: 32-bit ints,  *)
(* overflow is an error, never a wrong value).  A matrix is a sequence of rows.       *)
(* A least-squares solution is [den |-> d > 0 (0 if rank deficient), num |-> vector]. *)
EXTENDS Integers, Sequences, FiniteSets

Abs(x) == IF x < 0 THEN -x ELSE x
RECURSIVE SumSeq(_)
SumSeq(s) == IF s = <<>> THEN 0 ELSE Head(s) + SumSeq(Tail(s))
Dot(u, v) == SumSeq([i \in 1..Len(u) |-> u[i] * v[i]])
ColI(A, j) == [i \in 1..Len(A) |-> A[i][j]]
Range(s) == {s[i] : i \in 1..Len(s)}
InSeq(s, x) == \E i \in 1..Len(s) : s[i] = x
Pos(s, x) == CHOOSE i \in 1..Len(s) : s[i] = x
IndexOf(s, x) == Pos(s, x)
RECURSIVE Flatten(_)
Flatten(ss) == IF ss = <<>> THEN <<>> ELSE Head(ss) \o Flatten(Tail(ss))

(* Gram matrix and right-hand side restricted to the column subset js (a sequence of column indices) *)
Gram(A, js) == [p \in 1..Len(js) |-> [q \in 1..Len(js) |-> Dot(ColI(A, js[p]), ColI(A, js[q]))]]
Rhs(A, y, js) == [p \in 1..Len(js) |-> Dot(ColI(A, js[p]), y)]
Repl(G, p, b) == [i \in 1..Len(G) |-> [j \in 1..Len(G) |-> IF j = p THEN b[i] ELSE G[i][j]]]

Det2(a, b, c, d) == a * d - b * c
Det3(M) == M[1][1] * Det2(M[2][2], M[2][3], M[3][2], M[3][3])
         - M[1][2] * Det2(M[2][1], M[2][3], M[3][1], M[3][3])
         + M[1][3] * Det2(M[2][1], M[2][2], M[3][1], M[3][2])
Minor(M, r, c) == LET n == Len(M) IN
   [i \in 1..(n - 1) |-> [j \in 1..(n - 1) |-> M[IF i < r THEN i ELSE i + 1][IF j < c THEN j ELSE j + 1]]]
DetI(M) == CASE Len(M) = 0 -> 1
             [] Len(M) = 1 -> M[1][1]
             [] Len(M) = 2 -> Det2(M[1][1], M[1][2], M[2][1], M[2][2])
             [] Len(M) = 3 -> Det3(M)
             [] Len(M) = 4 -> M[1][1] * Det3(Minor(M, 1, 1)) - M[1][2] * Det3(Minor(M, 1, 2))
                            + M[1][3] * Det3(Minor(M, 1, 3)) - M[1][4] * Det3(Minor(M, 1, 4))

(* least squares on the columns js of A (N columns in total): Cramer on the normal equations *)
LS(A, y, js, N) ==
  LET G == Gram(A, js)  b == Rhs(A, y, js)  d == DetI(G)
  IN [den |-> d,      \* Gram determinants are >= 0; 0 iff the selected columns are dependent
      num |-> [j \in 1..N |-> IF InSeq(js, j) THEN DetI(Repl(G, Pos(js, j), b)) ELSE 0]]
ResNum(A, y, sol) == [i \in 1..Len(A) |-> sol.den * y[i] - Dot(A[i], sol.num)]

AllCols(n) == [j \in 1..n |-> j]
SubSeqs(n) == LET RECURSIVE S(_)
                  S(k) == IF k = 0 THEN {<<>>} ELSE S(k - 1) \cup {s \o <<k>> : s \in S(k - 1)}
              IN S(n)
=============================================================================
