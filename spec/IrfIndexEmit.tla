---------------------------- MODULE IrfIndexEmit ----------------------------
(* Prints every complete configuration of IrfIndex with the exact Effective(i) per  *)
(* index, and every asymptote case with its region and exponent (use -workers 1).   *)
EXTENDS IrfIndex, Json

CaseOut == [cfg |-> cfg,
            error |-> ShapeError(cfg),
            indexDependent |-> IsIndexDependent(cfg),
            varies |-> IF ShapeError(cfg) THEN FALSE ELSE Varies(cfg),
            widthsPositive |-> IF ShapeError(cfg) THEN FALSE ELSE WidthsPositive(cfg),
            shifts |-> [i \in 1..NIdx(cfg) |-> ShiftAt(cfg, i)],
            eff |-> IF ShapeError(cfg) THEN <<>> ELSE [i \in 1..NIdx(cfg) |-> Effective(cfg, i)]]

AsymOut == [k |-> asym.k, w |-> asym.w, c |-> asym.c, m |-> asym.m, t |-> asym.t,
            region |-> Region(asym.t, asym.c, asym.w, asym.k),
            exponent |-> AsymExp(asym.t, asym.c, asym.w, asym.k)]

Emit == /\ stage = 5 => PrintT(<<"CASE", ToJson(CaseOut)>>)
        /\ stage = 9 => PrintT(<<"ASYM", ToJson(AsymOut)>>)
=============================================================================
