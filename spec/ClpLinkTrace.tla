---------------------------- MODULE ClpLinkTrace ----------------------------
(* code -> spec for C09: "aligned" events recorded from real linked data providers (the repository's own tests and *)
(* drivers, hooks on).  A recorded alignment is accepted iff some behaviour of ClpLink.tla started from the recorded *)
(* axes / tolerance / method ends in the recorded assignment (or in a refusal, if one was recorded), AND the recorded  *)
(* stack composition (which dataset columns sit at which aligned point, in which order, how many rows) is the one the *)
(* specification derives from that assignment.  Coordinates are scaled to integers by the harness.                    *)
EXTENDS ClpLink, Json, IOUtils, TLCExt

Input == JsonDeserialize(IOEnv.TRACE_FILE)
Traces == Input.traces
VARIABLE tid
tvars == <<vars, tid>>
T == Traces[tid]

TraceInit == /\ tid \in 1..Len(Traces)
             /\ axes = Traces[tid].axes /\ tol = Traces[tid].tol /\ method = Traces[tid].method
             /\ d = 2 /\ k = 1 /\ assign = <<Traces[tid].axes[1]>> /\ target = Range(Traces[tid].axes[1])
             /\ outcome = IF Len(Traces[tid].axes) = 1 THEN "done" ELSE "running"   \* a group of one dataset is aligned with itself
TraceNext == (AlignPoint \/ FinishDataset) /\ UNCHANGED tid
TraceSpec == TraceInit /\ [][TraceNext]_tvars

(* the stack the specification derives from an assignment: per aligned point (ascending) the members in dataset order *)
StackOf == LET ax == SortedSeq(target) IN
   [i \in 1..Len(ax) |-> SelectSeq([n \in 1..Len(axes) |-> IF \E j \in 1..Len(assign[n]) : assign[n][j] = ax[i]
                                                            THEN <<n, CHOOSE j \in 1..Len(assign[n]) : assign[n][j] = ax[i]>> ELSE <<0, 0>>],
                                 LAMBDA m : m[1] # 0)]
RowsOf == [i \in 1..Len(StackOf) |-> LET st == StackOf[i] IN
             IF st = <<>> THEN 0 ELSE LET RECURSIVE S(_)
                                          S(q) == IF q = 0 THEN 0 ELSE T.model_sizes[st[q][1]] + S(q - 1)
                                      IN S(Len(st))]
Matches == \/ (outcome = "done" /\ T.outcome = "done" /\ assign = T.assign /\ SortedSeq(target) = T.aligned_axis
               /\ StackOf = T.members /\ RowsOf = T.data_sizes)
           \/ (outcome = "AlignDatasetError" /\ T.outcome = "AlignDatasetError")
N == Len(Traces)
ASSUME \A i \in 1..N : TLCSet(i, FALSE)
Mark == IF Matches THEN TLCSet(tid, TRUE) ELSE TRUE
Accepted == /\ PrintT(<<"VERDICT", [i \in 1..N |-> IF TLCGet(i) = TRUE THEN 0 ELSE 1]>>)
            /\ \A i \in 1..N : TLCGet(i) = TRUE
=============================================================================
