--------------------------- MODULE ObjectiveCases ---------------------------
(* Drives Objective over a JSON case file: one state per case; invariants = the property's statement; *)
(* emits the exact expected artefacts (run with -workers 1 for emission).                             *)
EXTENDS Objective, Json, IOUtils
Cases == JsonDeserialize(IOEnv.CASES_FILE)
VARIABLE i
Init == i = 0
Next == i < Len(Cases) /\ i' = i + 1
Spec == Init /\ [][Next]_i
E == Expected(Cases[i])
InvEachPointOnce == i > 0 => EachPointOnce(Cases[i], E)
InvBestFit == i > 0 => BestFit(E)
InvReducedLabels == i > 0 => ReducedLabels(E)
InvSharedIffSameIndex == i > 0 => SharedIffSameIndex(Cases[i], E)
Strip(b) == [kind |-> b.kind, members |-> b.members, g |-> b.g, labels |-> b.labels, reduced |-> b.reduced, den |-> b.den, res |-> b.res,
             w |-> b.w, clp |-> b.clp, valid |-> b.valid, why |-> b.why, active |-> b.active,
             zeroed |-> SelectSeq(b.labels, LAMBDA x : x \in b.zeroed),
             glabels |-> IF b.kind = "full" THEN b.glabels ELSE <<>>]
Emit == IF i > 0 THEN LET e == E IN
           PrintT(<<"EXP", ToJson([i |-> i, linked |-> e.linked, blocks |-> [b \in 1..Len(e.blocks) |-> Strip(e.blocks[b])],
                                   penalties |-> e.penalties, npoints |-> e.npoints, nclps |-> e.nclps, npenalties |-> e.npenalties])>>)
        ELSE TRUE
=============================================================================
