------------------------------ MODULE Intervals ------------------------------
(* C08: interval-scoped items act on their interval.                                                   *)
(* Positions are integers on a half-step grid (coordinate = position / 2) so that bounds between two    *)
(* axis points are representable; -Inf / +Inf are sentinels outside the grid.                           *)
(* Must(I, axis): every axis point inside the closed interval [min(lo,hi), max(lo,hi)] IS affected.     *)
(* May(I, axis) : no point beyond the axis point nearest to a bound is affected.                        *)
(* An implementation's affected set Aff must satisfy Must \subseteq Aff \subseteq May (D2); constraints *)
(* and relations use exact membership (Aff = Must).  Enumeration by fan-out: axis, then interval(s).    *)
EXTENDS Integers, Sequences, FiniteSets, TLC

CONSTANTS Grid,        \* set of axis positions (even numbers = integer coordinates)
          MaxAxis,     \* max axis length
          Bounds,      \* finite bound positions (half-step grid, may lie outside the axis)
          NIntervals   \* 1 or 2 intervals per item
Inf == 1000
NegInf == -1000
QuickBounds == -2..10
SmallBounds == {-1, 0, 1, 3, 6, 7}
AllBounds == Bounds \cup {Inf, NegInf}

VARIABLES axis, ivs, stage
vars == <<axis, ivs, stage>>

Abs(x) == IF x < 0 THEN -x ELSE x
Min2(a, b) == IF a <= b THEN a ELSE b
Max2(a, b) == IF a <= b THEN b ELSE a
Lo(iv) == Min2(iv[1], iv[2])
Hi(iv) == Max2(iv[1], iv[2])
Range(s) == {s[i] : i \in 1..Len(s)}
SortedSeq(S) == LET RECURSIVE F(_)
                    F(T) == IF T = {} THEN <<>> ELSE LET x == CHOOSE x \in T : \A z \in T : x <= z IN <<x>> \o F(T \ {x})
                IN F(S)

Init == axis = <<>> /\ ivs = <<>> /\ stage = "axis"
ChooseAxis == /\ stage = "axis"
              /\ \E S \in SUBSET Grid : Cardinality(S) >= 1 /\ Cardinality(S) <= MaxAxis /\ axis' = SortedSeq(S)
              /\ stage' = "interval" /\ UNCHANGED ivs
ChooseInterval == /\ stage = "interval" /\ Len(ivs) < NIntervals
                  /\ \E lo \in AllBounds, hi \in AllBounds : ivs' = Append(ivs, <<lo, hi>>)
                  /\ UNCHANGED <<axis, stage>>
Finish == stage = "interval" /\ Len(ivs) >= 1 /\ stage' = "done" /\ UNCHANGED <<axis, ivs>>
Next == ChooseAxis \/ ChooseInterval \/ Finish
Spec == Init /\ [][Next]_vars

-------------------------------------------------------------------------------
Points == Range(axis)
InClosed(iv, p) == Lo(iv) <= p /\ p <= Hi(iv)
Must1(iv) == {p \in Points : InClosed(iv, p)}
(* the axis point(s) nearest to a bound: an infinite bound reaches the end of the axis *)
Nearest(b) == IF b >= Inf THEN {CHOOSE p \in Points : \A q \in Points : q <= p}
              ELSE IF b <= NegInf THEN {CHOOSE p \in Points : \A q \in Points : p <= q}
              ELSE {p \in Points : \A q \in Points : Abs(p - b) <= Abs(q - b)}
May1(iv) == LET nlo == Nearest(Lo(iv)) nhi == Nearest(Hi(iv))
                a == CHOOSE p \in nlo : \A q \in nlo : p <= q
                b == CHOOSE p \in nhi : \A q \in nhi : q <= p
            IN Must1(iv) \cup {p \in Points : a <= p /\ p <= b}
Must(is) == UNION {Must1(is[k]) : k \in 1..Len(is)}
May(is) == UNION {May1(is[k]) : k \in 1..Len(is)}
ZeroAff(is) == Must(is)                 \* exact membership for constraints and relations
OnlyAff(is) == Points \ Must(is)        \* `only` is exactly the complement of `zero`

Done == stage = "done"
MustInMay == Done => Must(ivs) \subseteq May(ivs)
Complement == Done => (ZeroAff(ivs) \cup OnlyAff(ivs) = Points /\ ZeroAff(ivs) \cap OnlyAff(ivs) = {})
UnionOfIntervals == Done => \A p \in Points : p \in Must(ivs) <=> \E k \in 1..Len(ivs) : InClosed(ivs[k], p)
OrderInsensitive == Done => Must(ivs) = Must([k \in 1..Len(ivs) |-> <<ivs[k][2], ivs[k][1]>>])
InfiniteReachesEnd == Done => \A k \in 1..Len(ivs) :
      /\ (Hi(ivs[k]) = Inf /\ Lo(ivs[k]) <= axis[Len(axis)]) => axis[Len(axis)] \in Must(ivs)
      /\ (Lo(ivs[k]) = NegInf /\ Hi(ivs[k]) >= axis[1]) => axis[1] \in Must(ivs)
(* enlarging an interval never shrinks what must be affected nor what may be affected (single intervals) *)
Monotone == Done => \A lo \in AllBounds, hi \in AllBounds :
      (Lo(<<lo, hi>>) <= Lo(ivs[1]) /\ Hi(ivs[1]) <= Hi(<<lo, hi>>)) =>
          (Must1(ivs[1]) \subseteq Must1(<<lo, hi>>) /\ May1(ivs[1]) \subseteq May1(<<lo, hi>>))
===============================================================================
