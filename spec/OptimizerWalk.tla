---------------------------- MODULE OptimizerWalk ----------------------------
(* Evaluation histories of Optimizer as explicit walks: a history variable records the      *)
(* controllable label (operation, point) of every direct evaluation.  Used with -simulate:   *)
(* every state whose walk has WalkLen labels prints the walk (each printed walk is a         *)
(* behaviour of the specification; duplicates are removed by the harness).                   *)
EXTENDS Optimizer, Json

CONSTANT WalkLen
VARIABLE walk
wvars == <<vars, walk>>

WalkInit == Init /\ walk = <<>>
WalkNext == \/ (\E x \in Points : Construct(x)) /\ UNCHANGED walk
            \/ \E x \in Points : DirectEval(x) /\ walk' = Append(walk, <<"eval", x>>)
            \/ \E x \in Points : DirectEvalFail(x) /\ walk' = Append(walk, <<"fail", x>>)
WalkSpec == WalkInit /\ [][WalkNext]_wvars

EmitWalk == Len(walk) = WalkLen => PrintT(<<"WALK", ToJson(walk)>>)
WPure == [][\A x \in Points : memo[x] # 0 => memo'[x] = memo[x]]_wvars
=============================================================================
