------------------------------ MODULE ProjectRuns ------------------------------
(* Result runs and generated/imported items of a glotaran.project.Project (C18,     *)
(* second half).                                                                    *)
(*                                                                                  *)
(* runs \subseteq Name x Nat (with a content token): one record per folder          *)
(* <project>/results/<name>_run_<NNNN>.  Optimize(name) stores the new result under *)
(* the next run number of exactly that name (max + 1, or 0000), Latest(name) is the *)
(* latest-result lookup, Remove is the user deleting a run folder (environment; it  *)
(* makes "max + 1" differ from "number of runs").  Item operations are              *)
(* import_data / generate_model / generate_parameters on one item per kind, with    *)
(* the flags ignore_existing and allow_overwrite; a file is abstracted to the       *)
(* number of times it was written (0 = absent).                                     *)
(*                                                                                  *)
(* Names are opaque strings for TLC; the folder name of a run is built by Folder.   *)
(* A name that itself ends in _run_<4 digits> can also be read as a run specifier   *)
(* of a shorter base name (the API takes both in the same argument): AmbigNames     *)
(* lists them, their base name is not a result name of the model, and the lookup    *)
(* may then resolve either way (own latest run, or "no such result").               *)
EXTENDS Naturals, Sequences, FiniteSets, TLC

CONSTANTS Names,       \* result names
          AmbigNames,  \* subset of Names that look like run specifiers themselves
          Kinds,       \* item kinds, e.g. {"data", "model", "parameters_csv", "parameters_yml"}
          MaxRuns,     \* bound on Optimize steps
          MaxWrites,   \* bound on item writes
          MaxRemoves,  \* bound on Remove steps
          MaxFails,    \* bound on OptimizeFails steps (a save that fails midway and leaves a partial run folder)
          Lookups      \* TRUE: the pure lookups are transitions (checking); FALSE: tabulated per state (emission)

VARIABLES runs,     \* set of [name, n, tok]; tok = 0: a PARTIAL run folder (left by a save that failed midway, no result.yml)
          made,     \* Name -> number of Optimize steps so far (content token source)
          nopt, nrem,
          files,    \* Kind -> number of writes (0 = absent)
          nwrites,
          last      \* observation of the last step

vars == <<runs, made, nopt, nrem, files, nwrites, last>>

NoRun == [name |-> "", n |-> 0]
Obs(op, name, ret, err, ign, allow) == [op |-> op, name |-> name, ret |-> ret, err |-> err, ignore |-> ign, allow |-> allow]
NoObs == Obs("init", "", NoRun, "", FALSE, FALSE)

RunsOf(rs, nm) == {r \in rs : r.name = nm}
NumsOf(rs, nm) == {r.n : r \in RunsOf(rs, nm)}
Max(S) == CHOOSE m \in S : \A x \in S : x <= m
NextNr(rs, nm) == IF NumsOf(rs, nm) = {} THEN 0 ELSE Max(NumsOf(rs, nm)) + 1

Digit(d) == CASE d = 0 -> "0" [] d = 1 -> "1" [] d = 2 -> "2" [] d = 3 -> "3" [] d = 4 -> "4"
              [] d = 5 -> "5" [] d = 6 -> "6" [] d = 7 -> "7" [] d = 8 -> "8" [] d = 9 -> "9"
Pad4(n) == Digit((n \div 1000) % 10) \o Digit((n \div 100) % 10) \o Digit((n \div 10) % 10) \o Digit(n % 10)
Folder(nm, n) == nm \o "_run_" \o Pad4(n)

Init == /\ runs = {} /\ made = [nm \in Names |-> 0] /\ nopt = 0 /\ nrem = 0
        /\ files = [k \in Kinds |-> 0] /\ nwrites = 0
        /\ last = NoObs

(* Project.optimize(..., result_name = nm) / ProjectResultRegistry.save(nm, result) *)
Optimize(nm) ==
  /\ nopt < MaxRuns
  /\ LET n == NextNr(runs, nm) IN
       /\ runs' = runs \cup {[name |-> nm, n |-> n, tok |-> made[nm] + 1]}
       /\ last' = Obs("optimize", nm, [name |-> nm, n |-> n], "", FALSE, FALSE)
  /\ made' = [made EXCEPT ![nm] = @ + 1]
  /\ nopt' = nopt + 1
  /\ UNCHANGED <<nrem, files, nwrites>>

(* the save of a run fails midway (a plugin raises after some files were written): the folder <name>_run_<n> exists without   *)
(* result.yml.  Its number is TAKEN all the same: the next run of that name gets n + 1 and the leftover files are never     *)
(* touched (FreshIncreasing, EarlierRunsUnchanged range over partial folders too).                                          *)
Partial == {r \in runs : r.tok = 0}
OptimizeFails(nm) ==
  /\ nopt < MaxRuns /\ Cardinality(Partial) < MaxFails
  /\ LET n == NextNr(runs, nm) IN
       /\ runs' = runs \cup {[name |-> nm, n |-> n, tok |-> 0]}
       /\ last' = Obs("optimize_fails", nm, [name |-> nm, n |-> n], "PluginError", FALSE, FALSE)
  /\ nopt' = nopt + 1
  /\ UNCHANGED <<made, nrem, files, nwrites>>

(* the user deletes a run folder *)
Remove(nm, n) ==
  /\ nrem < MaxRemoves /\ n \in NumsOf(runs, nm)
  /\ runs' = {r \in runs : ~(r.name = nm /\ r.n = n)}
  /\ nrem' = nrem + 1
  /\ last' = Obs("remove", nm, [name |-> nm, n |-> n], "", FALSE, FALSE)
  /\ UNCHANGED <<made, nopt, files, nwrites>>

(* what a latest-result lookup for nm may answer in run set rs *)
Found(nm, n) == [ret |-> [name |-> nm, n |-> n], err |-> ""]
NotFound == [ret |-> NoRun, err |-> "ValueError"]
OwnLatest(rs, nm) == IF NumsOf(rs, nm) = {} THEN NotFound ELSE Found(nm, Max(NumsOf(rs, nm)))
LatestAllowed(rs, nm) == {OwnLatest(rs, nm)} \cup (IF nm \in AmbigNames THEN {NotFound} ELSE {})

(* get_result_path(nm, latest=True), get_latest_result_path(nm | any run specifier of nm), *)
(* load_latest_result(...), load_result(nm, latest=True)                                     *)
Latest(nm) ==
  /\ Lookups
  /\ \E a \in LatestAllowed(runs, nm) : last' = Obs("latest", nm, a.ret, a.err, FALSE, FALSE)
  /\ UNCHANGED <<runs, made, nopt, nrem, files, nwrites>>

(* get_result_path(<nm>_run_<n>) / load_result(<nm>_run_<n>): a run specifier names exactly that run *)
Get(nm, n) ==
  /\ Lookups
  /\ last' = Obs("get", nm, [name |-> nm, n |-> n], IF n \in NumsOf(runs, nm) THEN "" ELSE "ValueError", FALSE, FALSE)
  /\ UNCHANGED <<runs, made, nopt, nrem, files, nwrites>>

(* import_data / generate_model / generate_parameters on the item of kind k *)
Write(k, ign, allow) ==
  /\ files' = [files EXCEPT ![k] = @ + 1]
  /\ nwrites' = nwrites + 1
  /\ last' = Obs("item_written", k, NoRun, "", ign, allow)
Skip(k, ign, allow) ==
  /\ last' = Obs("item_skipped", k, NoRun, "", ign, allow)
  /\ UNCHANGED <<files, nwrites>>
Refuse(k, ign, allow) ==
  /\ last' = Obs("item_refused", k, NoRun, "FileExistsError", ign, allow)
  /\ UNCHANGED <<files, nwrites>>

ItemOp(k, ign, allow) ==
  /\ nwrites < MaxWrites \/ (files[k] # 0 /\ ~allow)      \* bound of the model: only calls that cannot write remain at the bound
  /\ LET exists == files[k] # 0 IN
       \/ ~exists /\ Write(k, ign, allow)
       \/ exists /\ ~allow /\ ~ign /\ Refuse(k, ign, allow)
       \/ exists /\ ~allow /\ ign /\ Skip(k, ign, allow)
       \/ exists /\ allow /\ ~ign /\ Write(k, ign, allow)
       \/ exists /\ allow /\ ign /\ (Skip(k, ign, allow) \/ Write(k, ign, allow))    \* D4: either is accepted
  /\ UNCHANGED <<runs, made, nopt, nrem>>

Next == \/ \E nm \in Names : Optimize(nm)
        \/ \E nm \in Names : OptimizeFails(nm)
        \/ \E nm \in Names, n \in 0..(MaxRuns + MaxRemoves) : Remove(nm, n)
        \/ \E nm \in Names : Latest(nm)
        \/ \E nm \in Names, n \in 0..(MaxRuns + MaxRemoves) : Get(nm, n)
        \/ \E k \in Kinds, ign \in BOOLEAN, allow \in BOOLEAN : ItemOp(k, ign, allow)

Spec == Init /\ [][Next]_vars

-------------------------------------------------------------------------------
Ops == {"init", "optimize", "optimize_fails", "remove", "latest", "get", "item_written", "item_skipped", "item_refused"}
TypeOK == /\ \A r \in runs : r.name \in Names /\ r.n \in 0..(MaxRuns + MaxRemoves) /\ r.tok \in 0..MaxRuns
          /\ nopt \in 0..MaxRuns /\ nrem \in 0..MaxRemoves /\ nwrites \in 0..MaxWrites
          /\ \A k \in Kinds : files[k] \in 0..MaxWrites
          /\ last.op \in Ops

(* one folder per run: two runs never share a folder, a (name, number) pair occurs once *)
RunKeyUnique == \A r1, r2 \in runs : (r1.name = r2.name /\ r1.n = r2.n) => r1 = r2
FoldersDistinct == \A r1, r2 \in runs : Folder(r1.name, r1.n) = Folder(r2.name, r2.n) => r1 = r2

(* every optimisation is stored under a fresh, strictly larger run number of exactly its name *)
FreshIncreasing ==
  [][last'.op \in {"optimize", "optimize_fails"} =>
       LET new == runs' \ runs IN
         /\ Cardinality(new) = 1
         /\ \A r \in new : /\ r.name = last'.name /\ r.n = last'.ret.n
                           /\ \A x \in runs : Folder(x.name, x.n) # Folder(r.name, r.n)
                           /\ \A x \in RunsOf(runs, r.name) : x.n < r.n]_vars

(* earlier runs stay, with their content; only the user's deletion removes one *)
EarlierRunsUnchanged == [][last'.op # "remove" => runs \subseteq runs']_vars
RemoveOnlyRemoves == [][last'.op = "remove" => (runs' \subseteq runs /\ Cardinality(runs \ runs') = 1)]_vars

(* the latest lookup answers with the largest run number of exactly that name *)
LatestIsOwnMax ==
  last.op = "latest" =>
     IF last.err = ""
     THEN /\ last.ret.name = last.name
          /\ last.ret.n \in NumsOf(runs, last.name)
          /\ \A k \in NumsOf(runs, last.name) : k <= last.ret.n
     ELSE NumsOf(runs, last.name) = {} \/ last.name \in AmbigNames

(* a run specifier resolves to exactly that run, and only if it exists (earlier runs stay addressable) *)
GetIsExact == last.op = "get" => (last.err = "" <=> \E r \in runs : r.name = last.ret.name /\ r.n = last.ret.n /\ r.name = last.name)

LookupsArePure == [][last'.op \in {"latest", "get"} => UNCHANGED <<runs, files>>]_vars

(* an existing item changes only if the caller allowed it; refusal and skipping leave it alone *)
ItemChangesOnlyIfAsked ==
  [][\A k \in Kinds : (files[k] # 0 /\ files'[k] # files[k]) =>
        (last'.op = "item_written" /\ last'.name = k /\ last'.allow)]_vars
ItemRefusal ==
  [][\A k \in Kinds :
        (files[k] # 0 /\ last'.op \in {"item_written", "item_skipped", "item_refused"} /\ last'.name = k /\ ~last'.allow) =>
           (files' = files /\ (last'.ignore => last'.err = "") /\ (~last'.ignore => last'.err = "FileExistsError"))]_vars
ItemsAndRunsIndependent ==
  [][(last'.op \in {"item_written", "item_skipped", "item_refused"} => runs' = runs)
     /\ (last'.op \in {"optimize", "remove"} => files' = files)]_vars
===============================================================================
