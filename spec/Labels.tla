------------------------------- MODULE Labels -------------------------------
(* C06: labelled outputs follow their labels.                                                            *)
(* A dataset's matrix is the combination of its megacomplexes' matrices: as a FUNCTION label -> column    *)
(* (per global index) it is the sum over the contributing megacomplexes of scale * column; it does not     *)
(* depend on the order of megacomplexes nor on the order of labels inside a megacomplex; index-dependent   *)
(* and index-independent contributions combine to the same per-index matrices.                             *)
(* Structure is enumerated by fan-out (number of megacomplexes, label sequences, index dependence, scale); *)
(* column values are a fixed injective function of (megacomplex identity, label, global index, row).       *)
EXTENDS Integers, Sequences, FiniteSets, TLC

CONSTANTS MaxMc, LabelSeqs, NGlobal, NModel
QuickLabelSeqs == {<<"a">>, <<"b">>, <<"a", "b">>, <<"b", "a">>, <<"b", "c">>, <<"c", "a", "b">>}
FullLabelSeqs == {<<"a">>, <<"b">>, <<"c">>, <<"a", "b">>, <<"b", "a">>, <<"a", "c">>, <<"c", "a">>, <<"b", "c">>, <<"c", "b">>, <<"a", "b", "c">>, <<"c", "a", "b">>, <<"b", "c", "a">>, <<"c", "b", "a">>}
VARIABLES mcs, done
vars == <<mcs, done>>

LabelNum(l) == CASE l = "a" -> 1 [] l = "b" -> 2 [] l = "c" -> 3 [] OTHER -> 4
(* the value of megacomplex identity id for label l at global index g, row i (index-independent ones ignore g) *)
Val(id, l, g, i, idx) == 1 + ((id * 11 + LabelNum(l) * 5 + (IF idx THEN g * 3 ELSE 0) + i * 2) % 7)

Init == mcs = <<>> /\ done = FALSE
AddMc == /\ ~done /\ Len(mcs) < MaxMc
         /\ \E ls \in LabelSeqs, idx \in BOOLEAN, sc \in {1, 2} :
               mcs' = Append(mcs, [id |-> Len(mcs) + 1, labels |-> ls, idx |-> idx, scale |-> sc])
         /\ UNCHANGED done
Finish == ~done /\ Len(mcs) >= 1 /\ done' = TRUE /\ UNCHANGED mcs
Next == AddMc \/ Finish
Spec == Init /\ [][Next]_vars

Range(s) == {s[i] : i \in 1..Len(s)}
RECURSIVE SumSeq(_)
SumSeq(s) == IF s = <<>> THEN 0 ELSE Head(s) + SumSeq(Tail(s))
AllLabels(ms) == UNION {Range(ms[k].labels) : k \in 1..Len(ms)}
(* the combined matrix as a function: label -> global index -> row -> value *)
Combine(ms) == [l \in AllLabels(ms) |-> [g \in 1..NGlobal |-> [i \in 1..NModel |->
                  SumSeq([k \in 1..Len(ms) |-> IF l \in Range(ms[k].labels) THEN ms[k].scale * Val(ms[k].id, l, g, i, ms[k].idx) ELSE 0])]]]
IndexDependent(ms) == \E k \in 1..Len(ms) : ms[k].idx

Perms(n) == {p \in [1..n -> 1..n] : \A i, j \in 1..n : i # j => p[i] # p[j]}
PermuteMcs(ms, p) == [k \in 1..Len(ms) |-> ms[p[k]]]
ReverseLabels(ms) == [k \in 1..Len(ms) |-> [ms[k] EXCEPT !.labels = [j \in 1..Len(ms[k].labels) |-> ms[k].labels[Len(ms[k].labels) + 1 - j]]]]

Equivariant == done => /\ \A p \in Perms(Len(mcs)) : Combine(PermuteMcs(mcs, p)) = Combine(mcs)
                       /\ Combine(ReverseLabels(mcs)) = Combine(mcs)
SharedAdd == done => \A l \in AllLabels(mcs), g \in 1..NGlobal, i \in 1..NModel :
    Combine(mcs)[l][g][i] = SumSeq([k \in 1..Len(mcs) |-> IF l \in Range(mcs[k].labels) THEN Combine(<<mcs[k]>>)[l][g][i] ELSE 0])
DistinctSeparate == done => \A k \in 1..Len(mcs) : \A l \in Range(mcs[k].labels) :
    (\A k2 \in 1..Len(mcs) : k2 # k => l \notin Range(mcs[k2].labels)) => Combine(mcs)[l] = Combine(<<mcs[k]>>)[l]
(* an index-independent contribution equals the index-dependent one that repeats it at every index *)
MixedDims == done => \A l \in AllLabels(mcs), i \in 1..NModel :
    (\A k \in 1..Len(mcs) : l \in Range(mcs[k].labels) => ~mcs[k].idx) => \A g \in 1..NGlobal : Combine(mcs)[l][g][i] = Combine(mcs)[l][1][i]
=============================================================================
