----------------------------- MODULE SaveProtocol -----------------------------
(* Overwrite protection of glotaran.io.save_* (C18, first half).                    *)
(*                                                                                  *)
(* One save call is modelled as the steps of the code                               *)
(*   Call -> Protect -> LookupPlugin -> PluginWrite -> UpdateSourcePath             *)
(* (glotaran/plugin_system/io_plugin_utils.py:protect_from_overwrite, called first  *)
(* in every save_* of project_io_registration.py / data_io_registration.py) over an *)
(* abstract file system around the target path:                                     *)
(*   parent   directory that contains the target (created by Protect if missing)    *)
(*   target   the path passed by the caller (D10): absent / file / directory        *)
(*   child    a pre-existing file inside the target when it is a non-empty folder   *)
(*   sibling  a pre-existing, unrelated file next to the target                     *)
(*   out      whatever else the plugin creates (files inside a target folder, the   *)
(*            companion files of a multi-file save, D10)                            *)
(* Content is abstracted to tokens: 1,2,3 pre-existing contents, 8 a partial write, *)
(* 9 a complete write.  What a plugin does once it is allowed to write is left      *)
(* nondeterministic (it may be unimplemented, succeed, or fail midway after any     *)
(* partial effect): the property is silent there.  Everything before is fixed.      *)
EXTENDS Naturals, FiniteSets, TLC

CONSTANTS DataFns,         \* save functions dispatching on the data-io registry
          ProjectFns,      \* save functions dispatching on the project-io registry
          DataFormats,     \* registered data-io format names
          ProjectFormats,  \* registered project-io format names
          Unknown,         \* a format name registered nowhere
          Failing,         \* a registered format whose plugin raises after a partial write
          TStates          \* subset of {"absent","file","emptydir","nonemptydir","subdironly","noparent"}

VARIABLES pc,    \* "idle" "protect" "lookup" "write" "update" "done" "raised"
          call,  \* [fn, fmt, ts, allow, infer]
          fs,    \* Paths -> [kind, tok]
          fs0,   \* fs when the call was made
          exc,   \* "" "FileExistsError" "ValueError" "PluginError"
          src    \* the saved object's source_path was updated

vars == <<pc, call, fs, fs0, exc, src>>

Paths == {"parent", "target", "child", "sibling", "out"}
Absent == [kind |-> "absent", tok |-> 0]
Dir == [kind |-> "dir", tok |-> 0]
File(t) == [kind |-> "file", tok |-> t]
NoCall == [fn |-> "", fmt |-> "", ts |-> "absent", allow |-> FALSE, infer |-> FALSE]

InitFs(ts) ==
  [p \in Paths |->
     CASE p = "parent"  -> IF ts = "noparent" THEN Absent ELSE Dir
       [] p = "target"  -> IF ts = "file" THEN File(2)
                           ELSE IF ts \in {"emptydir", "nonemptydir", "subdironly"} THEN Dir ELSE Absent
       [] p = "child"   -> IF ts = "nonemptydir" THEN File(3)
                           ELSE IF ts = "subdironly" THEN [kind |-> "dir", tok |-> 3]      \* the folder holds nothing but a sub folder (with content)
                           ELSE Absent
       [] p = "sibling" -> File(1)
       [] p = "out"     -> Absent]

FormatsOf(fn) == (IF fn \in DataFns THEN DataFormats ELSE ProjectFormats) \cup {Unknown, Failing}

Init == /\ pc = "idle" /\ call = NoCall
        /\ fs = InitFs("absent") /\ fs0 = InitFs("absent")
        /\ exc = "" /\ src = FALSE

(* fan-out: one branch per function x format x target state x flag x (format given | inferred) *)
Call(fn, fmt, ts, allow, infer) ==
  /\ pc = "idle"
  /\ pc' = "protect"
  /\ call' = [fn |-> fn, fmt |-> fmt, ts |-> ts, allow |-> allow, infer |-> infer]
  /\ fs' = InitFs(ts) /\ fs0' = InitFs(ts)
  /\ UNCHANGED <<exc, src>>

FileThere(f) == f["target"].kind = "file"
FolderNotEmpty(f) == f["target"].kind = "dir" /\ f["child"].kind # "absent"
Occupied(f) == FileThere(f) \/ FolderNotEmpty(f)

(* protect_from_overwrite: resolve, create the parent, allow => pass, file => refuse, *)
(* non-empty folder => refuse                                                         *)
Protect ==
  /\ pc = "protect"
  /\ fs' = [fs EXCEPT !["parent"] = Dir]
  /\ IF call.allow THEN pc' = "lookup" /\ exc' = exc
     ELSE IF FileThere(fs) THEN pc' = "raised" /\ exc' = "FileExistsError"
     ELSE IF FolderNotEmpty(fs) THEN pc' = "raised" /\ exc' = "FileExistsError"
     ELSE pc' = "lookup" /\ exc' = exc
  /\ UNCHANGED <<call, fs0, src>>

(* get_data_io / get_project_io (after infer_file_format when no format is given) *)
LookupPlugin(found) ==
  /\ pc = "lookup"
  /\ IF found THEN pc' = "write" /\ exc' = exc
     ELSE pc' = "raised" /\ exc' = "ValueError"
  /\ UNCHANGED <<call, fs, fs0, src>>

ChildAfter == IF fs["child"].kind = "absent" THEN {Absent} ELSE {fs["child"], Absent, File(9)}
OutAfter == {Absent, File(9)}

(* the plugin does not implement the method: NotImplementedError -> ValueError, nothing written *)
WriteNotImplemented ==
  /\ pc = "write" /\ call.fmt # Failing
  /\ pc' = "raised" /\ exc' = "ValueError"
  /\ UNCHANGED <<call, fs, fs0, src>>

WriteOk ==
  /\ pc = "write" /\ call.fmt # Failing
  /\ \E t \in (IF fs["target"].kind = "dir" THEN {Dir} ELSE {File(9), Dir}), o \in OutAfter, c \in ChildAfter :
        fs' = [fs EXCEPT !["target"] = t, !["out"] = o, !["child"] = c]
  /\ pc' = "update"
  /\ UNCHANGED <<call, fs0, exc, src>>

(* the plugin raises, possibly after a partial effect *)
WriteFail(e) ==
  /\ pc = "write"
  /\ \E t \in ({fs["target"]} \cup (IF fs["target"].kind = "dir" THEN {} ELSE {File(8), Dir})), o \in OutAfter, c \in ChildAfter :
        fs' = [fs EXCEPT !["target"] = t, !["out"] = o, !["child"] = c]
  /\ pc' = "raised" /\ exc' = e
  /\ UNCHANGED <<call, fs0, src>>

UpdateSourcePath ==
  /\ pc = "update"
  /\ pc' = "done" /\ src' = TRUE
  /\ UNCHANGED <<call, fs, fs0, exc>>

Lookup == /\ pc = "lookup"
          /\ LookupPlugin(call.fmt # Unknown)
PluginWrite == WriteNotImplemented \/ WriteOk \/ \E e \in {"ValueError", "PluginError"} : WriteFail(e)

Next == \/ \E fn \in DataFns \cup ProjectFns, ts \in TStates, allow \in BOOLEAN, infer \in BOOLEAN :
             \E fmt \in FormatsOf(fn) : Call(fn, fmt, ts, allow, infer)
        \/ Protect
        \/ Lookup
        \/ PluginWrite
        \/ UpdateSourcePath

Spec == Init /\ [][Next]_vars

-------------------------------------------------------------------------------
Terminal == pc \in {"done", "raised"}
Kinds == {"absent", "file", "dir"}

TypeOK == /\ pc \in {"idle", "protect", "lookup", "write", "update", "done", "raised"}
          /\ \A p \in Paths : fs[p].kind \in Kinds /\ fs0[p].kind \in Kinds
          /\ exc \in {"", "FileExistsError", "ValueError", "PluginError"}
          /\ src \in BOOLEAN

(* target occupied and no permission: FileExistsError and the tree is exactly as it was - *)
(* for every function, every format, the unknown format and the failing plugin            *)
Refusal == (Terminal /\ Occupied(fs0) /\ ~call.allow) => (exc = "FileExistsError" /\ fs = fs0)

(* ... and the refusal is decided at the first step: no other step is ever taken *)
RefusalFirst == (Occupied(fs0) /\ ~call.allow) => pc \in {"idle", "protect", "raised"}

(* FileExistsError means refusal, nothing else does *)
RefusedOnlyWhenDue == exc = "FileExistsError" => (Occupied(fs0) /\ ~call.allow)

(* an existing target file changes only if the caller allowed it *)
OverwriteOnlyIfAsked == (fs0["target"].kind = "file" /\ fs["target"] # fs0["target"]) => call.allow

(* without permission no pre-existing file changes, whatever happens afterwards *)
PreexistingUntouched == ~call.allow => \A p \in Paths : fs0[p].kind = "file" => fs[p] = fs0[p]

(* a file that is neither the target nor inside it never changes *)
UnrelatedUntouched == fs["sibling"] = fs0["sibling"]

(* the unknown format never writes; when the call is not refused it is a ValueError *)
UnknownFormat == (Terminal /\ call.fmt = Unknown /\ ~(Occupied(fs0) /\ ~call.allow)) =>
                   (exc = "ValueError" /\ \A p \in Paths \ {"parent"} : fs[p] = fs0[p])

SourcePathOnlyOnSuccess == src => (pc = "done" /\ exc = "")

(* nothing but the parent directory is touched before the check has passed *)
NoWriteBeforeCheck ==
  [][(pc # "idle" /\ \E p \in Paths \ {"parent"} : fs'[p] # fs[p]) =>
        (pc = "write" /\ (call.allow \/ ~Occupied(fs0)))]_vars
===============================================================================
