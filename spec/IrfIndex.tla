------------------------------- MODULE IrfIndex -------------------------------
(* C05: the parameters of a (multi-)Gaussian IRF at global index i.                   *)
(*                                                                                    *)
(* Effective(c, i) = centres, widths, scales and normalisation divisor that the       *)
(* property's second sentence speaks about: "the matrix at each global index equals   *)
(* the index-independent matrix evaluated with that index's effective centre and      *)
(* width (centre - shift_i plus the documented dispersion polynomial in wavelength or *)
(* reciprocal wavenumber)".  Documented (glotaran/builtin/megacomplexes/decay/irf.py) *)
(*   one centre, many widths  -> the centre is repeated; one width likewise;          *)
(*   both > 1 and unequal     -> error;                                               *)
(*   dist_i = (lambda_i - lambda_c)/100         (model_dispersion_with_wavenumber=F)  *)
(*   dist_i = 1000/lambda_i - 1000/lambda_c     (model_dispersion_with_wavenumber=T)  *)
(*   centre_g(i) = centre_g - shift_i + SUM_k ccoef_k dist_i^k   (k = 1..order)       *)
(*   width_g(i)  = width_g            + SUM_k wcoef_k dist_i^k                        *)
(*   column = SUM_g scale_g Single(centre_g(i), width_g(i)) / divisor,                *)
(*   divisor = SUM_g scale_g if normalize else 1.                                     *)
(* All numbers are exact rationals <<num, den>> (den > 0, gcd-normalised) over small  *)
(* integer tables; TLC enumerates the configuration space by fan-out actions (one     *)
(* choice per step), checks the algebraic facts below in every complete state and     *)
(* (module IrfIndexEmit) prints every configuration with the exact Effective(i).      *)
(*                                                                                    *)
(* The module owns its rational arithmetic (no shared Rat module existed when it was  *)
(* written); Basis.tla EXTENDS it.                                                    *)
EXTENDS Integers, Sequences, FiniteSets, TLC

CONSTANTS GaussCounts,   \* subset of 1..3 : number of Gaussians
          ValVars,       \* subset of 1..3 : which row of the centre/width tables (3 = narrow pulse)
          ScaleOpts,     \* subset of BOOLEAN : scale attribute given / omitted
          ShiftVars,     \* subset of 0..2 : 0 = no shift attribute, else row of ShiftTab
          COrders,       \* subset of 0..3 : order of the centre dispersion polynomial
          WOrders,       \* subset of 0..3 : order of the width dispersion polynomial
          WOrderCap,     \* thinning of the order product: (co, wo) is enumerated iff wo <= WOrderCap or co = wo
          NormOpts,      \* subset of BOOLEAN
          BacksweepOpts, \* subset of BOOLEAN: the periodic-excitation ("backsweep") term; Effective(i) does not depend on it, the relations
                         \* PerIndex and Linear must hold with it as without it (it is linear in the per-Gaussian terms)
          AxisVars,      \* subset of 1..4 : which global axis
          WithErrors,    \* BOOLEAN : also enumerate the illegal shapes (2,3) and (3,2)
          WithAsym       \* BOOLEAN : also enumerate the single-Gaussian asymptote lattice

VARIABLES stage,   \* 0..5 configuration fan-out, 5 = complete; 9 = asymptote case complete
          cfg,     \* the configuration record (all fields always present)
          asym     \* the asymptote case record

ivars == <<stage, cfg, asym>>

-------------------------------------------------------------------------------
(* exact rationals *)
Abs(x) == IF x < 0 THEN -x ELSE x
RECURSIVE GCD(_, _)
GCD(a, b) == IF b = 0 THEN a ELSE GCD(b, a % b)
R(n, d) == LET s == IF d < 0 THEN -1 ELSE 1
               g == GCD(Abs(n), Abs(d))
           IN <<(s * n) \div g, (s * d) \div g>>
Zero == <<0, 1>>
One == <<1, 1>>
RInt(n) == <<n, 1>>
RAdd(a, b) == LET g == GCD(a[2], b[2])                      \* over the least common denominator (32-bit safety)
              IN R(a[1] * (b[2] \div g) + b[1] * (a[2] \div g), (a[2] \div g) * b[2])
RNeg(a) == <<-a[1], a[2]>>
RSub(a, b) == RAdd(a, RNeg(b))
RMul(a, b) == LET g1 == GCD(Abs(a[1]), b[2])  g2 == GCD(Abs(b[1]), a[2])   \* cross-reduce before multiplying
              IN R((a[1] \div g1) * (b[1] \div g2), (a[2] \div g2) * (b[2] \div g1))
RInv(b) == IF b[1] < 0 THEN <<-b[2], -b[1]>> ELSE <<b[2], b[1]>>      \* b # 0
RDiv(a, b) == RMul(a, RInv(b))
RLe(a, b) == LET g == GCD(a[2], b[2]) IN a[1] * (b[2] \div g) <= b[1] * (a[2] \div g)
RLt(a, b) == LET g == GCD(a[2], b[2]) IN a[1] * (b[2] \div g) < b[1] * (a[2] \div g)
RSq(a) == RMul(a, a)
RECURSIVE RPow(_, _)
RPow(a, k) == IF k = 0 THEN One ELSE RMul(a, RPow(a, k - 1))
RECURSIVE RSumTo(_, _)
RSumTo(s, n) == IF n = 0 THEN Zero ELSE RAdd(s[n], RSumTo(s, n - 1))
RSum(s) == RSumTo(s, Len(s))
IsRat(a) == a \in Int \X Int /\ a[2] > 0 /\ GCD(Abs(a[1]), a[2]) = 1
Max(a, b) == IF a >= b THEN a ELSE b

-------------------------------------------------------------------------------
(* parameter tables (small dyadic numbers: every one is exactly a double) *)
CentreTab == << << <<1, 4>>, <<-1, 2>>, <<3, 4>> >>,
                << <<0, 1>>, <<3, 2>>, <<-1, 4>> >>,
                << <<1, 8>>, <<3, 16>>, <<1, 16>> >> >>
WidthTab  == << << <<1, 8>>, <<1, 4>>, <<1, 2>> >>,
                << <<1, 2>>, <<1, 8>>, <<3, 8>> >>,
                << <<1, 128>>, <<1, 64>>, <<1, 256>> >> >>
ScaleTab  == << <<5, 2>>, <<3, 1>>, <<1, 2>> >>   \* the first scale is not 1: a single Gaussian with an explicit scale is distinguishable from the default
ShiftTab  == << << <<1, 2>>, <<-1, 4>>, <<0, 1>>, <<3, 8>> >>,
                << <<-1, 8>>, <<1, 1>>, <<1, 4>>, <<-3, 4>> >> >>
CDispTab  == << << <<1, 2>>, <<1, 4>>, <<-1, 8>> >>,
                << <<1, 2>>, <<1, 4>>, <<-1, 8>> >>,
                << <<1, 64>>, <<-1, 128>>, <<1, 256>> >> >>
WDispTab  == << << <<1, 16>>, <<1, 32>>, <<1, 64>> >>,
                << <<-1, 16>>, <<1, 32>>, <<-1, 64>> >>,
                << <<1, 1024>>, <<1, 2048>>, <<1, 4096>> >> >>
AxisTab   == << <<400, 500, 700>>, <<625, 500, 250>>, <<1000, 500, 450, 300>>, <<500, 520>> >>
DispCentre == 500

Prefix(s, n) == [k \in 1..n |-> s[k]]

DefaultCfg == [nc |-> 1, nw |-> 1, scalar |-> FALSE, valVar |-> 1, centres |-> <<Zero>>, widths |-> <<One>>,
               hasScale |-> FALSE, shiftVar |-> 0, spectral |-> FALSE, wn |-> FALSE,
               cdisp |-> <<>>, wdisp |-> <<>>, dcentre |-> DispCentre, normalize |-> TRUE, axisVar |-> 1, axis |-> AxisTab[1], backsweep |-> FALSE]
DefaultAsym == [k |-> Zero, w |-> One, c |-> Zero, m |-> 0, t |-> Zero]

-------------------------------------------------------------------------------
(* the reference: Effective(c, i) *)
NG(c) == Max(c.nc, c.nw)
ShapeError(c) == c.nc # c.nw /\ c.nc > 1 /\ c.nw > 1
NIdx(c) == Len(c.axis)
BCentre(c, g) == IF c.nc = 1 THEN c.centres[1] ELSE c.centres[g]        \* broadcasting
BWidth(c, g) == IF c.nw = 1 THEN c.widths[1] ELSE c.widths[g]
Dist(c, i) == IF c.wn THEN RSub(R(1000, c.axis[i]), R(1000, c.dcentre))
                      ELSE R(c.axis[i] - c.dcentre, 100)
RECURSIVE PolyTo(_, _, _)
PolyTo(coef, x, n) == IF n = 0 THEN Zero ELSE RAdd(RMul(coef[n], RPow(x, n)), PolyTo(coef, x, n - 1))
Poly(coef, x) == PolyTo(coef, x, Len(coef))                                \* SUM_k coef_k x^k, k >= 1
RECURSIVE HornerFrom(_, _, _)
HornerFrom(coef, x, k) == IF k > Len(coef) THEN Zero ELSE RMul(x, RAdd(coef[k], HornerFrom(coef, x, k + 1)))
ShiftAt(c, i) == IF c.shiftVar = 0 THEN Zero ELSE ShiftTab[c.shiftVar][i]
CDisp(c, i) == IF c.spectral THEN Poly(c.cdisp, Dist(c, i)) ELSE Zero
WDisp(c, i) == IF c.spectral THEN Poly(c.wdisp, Dist(c, i)) ELSE Zero
EffCentre(c, i, g) == RAdd(RSub(BCentre(c, g), ShiftAt(c, i)), CDisp(c, i))
EffWidth(c, i, g) == RAdd(BWidth(c, g), WDisp(c, i))
Scales(c) == [g \in 1..NG(c) |-> IF c.hasScale THEN ScaleTab[g] ELSE One]
Divisor(c) == IF c.normalize THEN RSum(Scales(c)) ELSE One
Weight(c, g) == RDiv(Scales(c)[g], Divisor(c))
Effective(c, i) == [centres |-> [g \in 1..NG(c) |-> EffCentre(c, i, g)],
                    widths  |-> [g \in 1..NG(c) |-> EffWidth(c, i, g)],
                    scales  |-> Scales(c),
                    divisor |-> Divisor(c),
                    weights |-> [g \in 1..NG(c) |-> Weight(c, g)],
                    dist    |-> Dist(c, i)]
IsIndexDependent(c) == c.shiftVar # 0 \/ c.spectral
WidthsPositive(c) == \A i \in 1..NIdx(c), g \in 1..NG(c) : RLt(Zero, EffWidth(c, i, g))
Varies(c) == \E i, j \in 1..NIdx(c), g \in 1..NG(c) :
                 EffCentre(c, i, g) # EffCentre(c, j, g) \/ EffWidth(c, i, g) # EffWidth(c, j, g)

(* single-Gaussian asymptotes (normalised kernel: exp(-k t) * area-normalised Gaussian) *)
AsymAfter(t, c, w, k) == RLe(RAdd(RMul(RInt(7), w), RMul(k, RSq(w))), RSub(t, c))    \* t - c >= 7w + k w^2
AsymBefore(t, c, w) == RLe(RSub(t, c), RMul(RInt(-40), w))                             \* t - c <= -40 w
AsymExp(t, c, w, k) == RAdd(RNeg(RMul(k, RSub(t, c))), RDiv(RMul(RSq(k), RSq(w)), RInt(2)))  \* -k(t-c) + k^2 w^2/2
Region(t, c, w, k) == IF AsymAfter(t, c, w, k) THEN "after" ELSE IF AsymBefore(t, c, w) THEN "before" ELSE "inside"

-------------------------------------------------------------------------------
(* fan-out enumeration *)
ShapesOf(n) == IF n = 1 THEN {<<1, 1>>} ELSE {<<n, n>>, <<1, n>>, <<n, 1>>}
LegalShapes == UNION {ShapesOf(n) : n \in GaussCounts}
ErrorShapes == IF WithErrors THEN {<<2, 3>>, <<3, 2>>} ELSE {}

AsymPairs == { <<R(1, 8192), One>>, <<R(1, 8192), RInt(8)>>, <<R(1, 1024), R(1, 16)>>, <<R(1, 64), R(1, 2)>>,
               <<R(1, 2), R(1, 1024)>>, <<One, One>>, <<One, R(1, 16)>>, <<RInt(8), R(1, 2)>>, <<RInt(8), RInt(8)>>,
               <<RInt(1024), R(1, 1024)>>, <<RInt(1024), R(1, 16)>>, <<RInt(1024), RInt(8)>>, <<Zero, R(1, 4)>> }
AsymCentres == { Zero, R(1, 4), R(-3, 2) }
AsymOffsets == { -100, -40, 7, 10, 100, 1000 }       \* t = c + m w (+ k w^2 for m >= 7)

IInit == stage = 0 /\ cfg = DefaultCfg /\ asym = DefaultAsym

ChooseShape(sh, sc) ==
  /\ stage = 0 /\ stage' = 1
  /\ cfg' = [cfg EXCEPT !.nc = sh[1], !.nw = sh[2], !.scalar = sc]
  /\ UNCHANGED asym

ChooseValues(v, hs) ==
  /\ stage = 1 /\ stage' = 2
  /\ cfg' = [cfg EXCEPT !.valVar = v, !.centres = Prefix(CentreTab[v], cfg.nc), !.widths = Prefix(WidthTab[v], cfg.nw), !.hasScale = hs]
  /\ UNCHANGED asym

ChooseShift(sv) ==
  /\ stage = 2 /\ stage' = 3
  /\ cfg' = [cfg EXCEPT !.shiftVar = sv]
  /\ UNCHANGED asym

ChooseDispersion(sp, co, wo, wn) ==
  /\ stage = 3 /\ stage' = 4
  /\ (~sp) => (co = 0 /\ wo = 0 /\ ~wn)
  /\ (co = 0 /\ wo = 0) \/ sp
  /\ wo <= WOrderCap \/ co = wo           \* thin the product of orders: all (co, wo <= cap) and the diagonal
  /\ cfg' = [cfg EXCEPT !.spectral = sp, !.wn = wn,
                        !.cdisp = Prefix(CDispTab[cfg.valVar], co), !.wdisp = Prefix(WDispTab[cfg.valVar], wo)]
  /\ UNCHANGED asym

ChooseNormAxis(nm, av, bs) ==
  /\ stage = 4 /\ stage' = 5
  /\ cfg.shiftVar = 0 \/ Len(AxisTab[av]) <= Len(ShiftTab[1])
  /\ bs => av = 1                                        \* thin the product: the backsweep term with the first axis only
  /\ cfg' = [cfg EXCEPT !.normalize = nm, !.axisVar = av, !.axis = AxisTab[av], !.backsweep = bs]
  /\ UNCHANGED asym

ChooseAsym(p, c, m) ==
  /\ WithAsym /\ stage = 0 /\ stage' = 9
  /\ LET k == p[1]  w == p[2]
         t == RAdd(RAdd(c, RMul(RInt(m), w)), IF m >= 7 THEN RMul(k, RSq(w)) ELSE Zero)
     IN asym' = [k |-> k, w |-> w, c |-> c, m |-> m, t |-> t]
  /\ UNCHANGED cfg

INext == \/ \E sh \in LegalShapes \cup ErrorShapes, sc \in BOOLEAN : (sc => sh = <<1, 1>>) /\ ChooseShape(sh, sc)
         \/ \E v \in ValVars, hs \in ScaleOpts : ChooseValues(v, hs)
         \/ \E sv \in ShiftVars : ChooseShift(sv)
         \/ \E sp \in BOOLEAN, co \in COrders, wo \in WOrders, wn \in BOOLEAN : ChooseDispersion(sp, co, wo, wn)
         \/ \E nm \in NormOpts, av \in AxisVars, bs \in BacksweepOpts : ChooseNormAxis(nm, av, bs)
         \/ \E p \in AsymPairs, c \in AsymCentres, m \in AsymOffsets : ChooseAsym(p, c, m)

ISpec == IInit /\ [][INext]_ivars

-------------------------------------------------------------------------------
(* what TLC decides: algebraic facts in every complete configuration *)
Complete == stage = 5
Legal == Complete /\ ~ShapeError(cfg)
Idx == 1..NIdx(cfg)
Gs == 1..NG(cfg)

TypeOK == /\ stage \in {0, 1, 2, 3, 4, 5, 9}
          /\ Legal => \A i \in Idx : LET e == Effective(cfg, i) IN
                 /\ Len(e.centres) = NG(cfg) /\ Len(e.widths) = NG(cfg) /\ Len(e.scales) = NG(cfg)
                 /\ \A g \in Gs : IsRat(e.centres[g]) /\ IsRat(e.widths[g]) /\ IsRat(e.scales[g])

(* broadcasting: a single centre (width) is shared by all Gaussians at every index *)
Broadcast == Legal =>
   /\ cfg.nc = 1 => \A i \in Idx, g \in Gs : EffCentre(cfg, i, g) = EffCentre(cfg, i, 1)
   /\ cfg.nw = 1 => \A i \in Idx, g \in Gs : EffWidth(cfg, i, g) = EffWidth(cfg, i, 1)
   /\ (cfg.nc > 1 /\ cfg.nw > 1) => cfg.nc = cfg.nw

(* PerIndex: the case analysis behind "centre - shift_i plus the dispersion polynomial" *)
PerIndex == Legal => \A i \in Idx, g \in Gs :
   /\ (~IsIndexDependent(cfg)) => (EffCentre(cfg, i, g) = BCentre(cfg, g) /\ EffWidth(cfg, i, g) = BWidth(cfg, g))
   /\ (Len(cfg.cdisp) = 0 \/ ~cfg.spectral) => EffCentre(cfg, i, g) = RSub(BCentre(cfg, g), ShiftAt(cfg, i))
   /\ (Len(cfg.wdisp) = 0 \/ ~cfg.spectral) => EffWidth(cfg, i, g) = BWidth(cfg, g)
   /\ cfg.axis[i] = cfg.dcentre =>            \* dispersion vanishes at the dispersion centre, for either variable
          (EffCentre(cfg, i, g) = RSub(BCentre(cfg, g), ShiftAt(cfg, i)) /\ EffWidth(cfg, i, g) = BWidth(cfg, g))
   /\ \A h \in Gs :                           \* shift and dispersion are common to all Gaussians of the IRF
          /\ RSub(EffCentre(cfg, i, g), EffCentre(cfg, i, h)) = RSub(BCentre(cfg, g), BCentre(cfg, h))
          /\ RSub(EffWidth(cfg, i, g), EffWidth(cfg, i, h)) = RSub(BWidth(cfg, g), BWidth(cfg, h))
   /\ (cfg.spectral /\ Len(cfg.cdisp) = 1 /\ ~cfg.wn) => \A j \in Idx :     \* first order in wavelength: linear in lambda
          RSub(EffCentre(cfg, i, g), EffCentre(cfg, j, g)) =
             RSub(RMul(cfg.cdisp[1], R(cfg.axis[i] - cfg.axis[j], 100)), RSub(ShiftAt(cfg, i), ShiftAt(cfg, j)))
   /\ Poly(cfg.cdisp, Dist(cfg, i)) = HornerFrom(cfg.cdisp, Dist(cfg, i), 1)     \* power sum = Horner form
   /\ Poly(cfg.wdisp, Dist(cfg, i)) = HornerFrom(cfg.wdisp, Dist(cfg, i), 1)

IndexDependence == Legal => (Varies(cfg) => IsIndexDependent(cfg))

(* Linear: the multi-Gaussian column is SUM_g Weight(g) Single(centre_g, width_g) *)
Linear == Legal =>
   /\ \A g \in Gs : RMul(Weight(cfg, g), Divisor(cfg)) = Scales(cfg)[g]
   /\ cfg.normalize => RSum([g \in Gs |-> Weight(cfg, g)]) = One
   /\ (~cfg.normalize) => \A g \in Gs : Weight(cfg, g) = Scales(cfg)[g]
   /\ (NG(cfg) = 1 /\ cfg.normalize) => Weight(cfg, 1) = One          \* a single normalised Gaussian ignores its scale
   /\ (~cfg.hasScale) => \A g \in Gs : Weight(cfg, g) = (IF cfg.normalize THEN R(1, NG(cfg)) ELSE One)

(* Asymptote: facts about exp(-k(t-c) + k^2 w^2/2) in the region t - c >= 7w + k w^2 *)
AsymDone == stage = 9
Asymptote == AsymDone =>
   LET k == asym.k  w == asym.w  c == asym.c  t == asym.t
       E == AsymExp(t, c, w, k)
   IN /\ ~(AsymAfter(t, c, w, k) /\ AsymBefore(t, c, w))
      /\ (asym.m >= 7) = AsymAfter(t, c, w, k)
      /\ (asym.m <= -40) = AsymBefore(t, c, w)
      /\ AsymAfter(t, c, w, k) =>
            /\ RLe(E, RNeg(RAdd(RMul(RInt(7), RMul(k, w)), RDiv(RMul(RSq(k), RSq(w)), RInt(2)))))   \* E <= -7kw - k^2w^2/2
            /\ RLe(E, Zero)                                                                    \* the column is in (0, 1]
            /\ AsymExp(RAdd(t, One), c, w, k) = RSub(E, k)                                     \* decays with rate k exactly
            /\ AsymExp(RSub(t, c), Zero, w, k) = E                                             \* depends on t - c only
            /\ AsymAfter(RAdd(t, One), c, w, k)                                                \* the region is upward closed
      /\ AsymBefore(t, c, w) => AsymBefore(RSub(t, One), c, w)

===============================================================================
