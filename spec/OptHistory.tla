----------------------------- MODULE OptHistory -----------------------------
(* Growth beyond the listed properties: the optimisation history is parsed from what scipy's least_squares *)
(* (verbose=2) wrote to the tee buffer (OptimizationHistory.from_stdout_str) and the current iteration is    *)
(* the number of the last iteration line (Optimizer.get_current_optimization_iteration).  The buffer is a    *)
(* sequence of lines of a few kinds; lines are appended one at a time (fan-out).                             *)
EXTENDS Naturals, Sequences, TLC
CONSTANTS MaxLines
Kinds == {"header", "iter0", "iter", "message", "summary", "blank", "modeltext"}
VARIABLES lines, nextIter
vars == <<lines, nextIter>>
Init == lines = <<>> /\ nextIter = 0
(* scipy prints the header, then iteration 0 without cost reduction / step norm, then numbered iterations; *)
(* the model may print anything in between (here: a text line that is not an iteration line)              *)
Append1(k) == /\ Len(lines) < MaxLines
              /\ k = "iter0" => nextIter = 0
              /\ k = "iter" => nextIter > 0
              /\ lines' = Append(lines, [kind |-> k, it |-> IF k \in {"iter0", "iter"} THEN nextIter ELSE 0])
              /\ nextIter' = IF k \in {"iter0", "iter"} THEN nextIter + 1 ELSE nextIter
Next == \E k \in Kinds : Append1(k)
Spec == Init /\ [][Next]_vars
Rows == SelectSeq(lines, LAMBDA l : l.kind \in {"iter0", "iter"})
CurrentIteration == IF Rows = <<>> THEN 0 ELSE Rows[Len(Rows)].it
RowsAreConsecutive == \A i \in 1..Len(Rows) : Rows[i].it = i - 1
CurrentIsLast == CurrentIteration = (IF Rows = <<>> THEN 0 ELSE Len(Rows) - 1)
FirstRowHasNoStep == Rows # <<>> => Rows[1].kind = "iter0"
=============================================================================
