"""Schemes for C10, built deterministically (integers or simulate(..., noise_seed=...)): identical in every process.

Each builder returns (scheme, points): points = three parameter vectors in optimiser space (point 1 = initial).
Every scheme carries an extra dataset `zf` modelled by the fault megacomplex (rates fixed) so that any
evaluation can be made to raise / go non-finite in between; `zf` sits in its own dataset group (first or last).
"""
from __future__ import annotations

import numpy as np
import xarray as xr

from .c15_models import FAULT_SPECTRAL
from .c15_models import FAULT_TIME
from .c15_models import dataset
from .c15_models import model_class


def _fault_part(spec: dict, params: dict, data: dict, first: bool, residual="variable_projection"):
    """Adds dataset zf / af (fault megacomplex, own group) to a model spec."""
    label = "af" if first else "zf"
    spec["megacomplex"]["mfault"] = {"type": "verif-fault", "rates": ["fk.1", "fk.2"]}
    spec.setdefault("dataset_groups", {})["faultgroup"] = {"residual_function": residual, "link_clp": False}
    entry = {label: {"megacomplex": ["mfault"], "group": "faultgroup"}}
    spec["dataset"] = {**entry, **spec["dataset"]} if first else {**spec["dataset"], **entry}
    params["fk"] = [["1", 0.5, {"vary": False}], ["2", 1.25, {"vary": True}]]
    m = np.exp(-np.outer(FAULT_TIME, np.asarray([0.4, 1.5])))
    vals = m @ np.array([[3.0, 1.0, 2.0], [1.0, 4.0, 2.0]]) + ((np.arange(36).reshape(12, 3) * 7) % 5 - 2) * 0.004
    data[label] = dataset(vals, FAULT_TIME, FAULT_SPECTRAL)


def _scheme(spec, params, data, **kw):
    from glotaran.parameter import Parameters
    from glotaran.project import Scheme
    model = model_class()(**spec)
    parameters = Parameters.from_dict(params)
    return Scheme(model=model, parameters=parameters, data=data, **kw)


def _points(scheme, deltas):
    labels, x0, lo, up = scheme.parameters.copy().get_label_value_and_bounds_arrays(exclude_non_vary=True)
    pts = [x0.copy()]
    for d in deltas:
        pts.append(x0 + np.resize(np.asarray(d, dtype=float), x0.shape))
    return labels, pts


def lat_unlinked(with_fault=True, fault_first=False):
    """Two lattice datasets, unlinked group: relation, constraint, equal-area penalty, dataset scale, dataset weight."""
    cols = [[1, 2, 3, 4, 5], [1, 0, 1, 0, 2], [0, 1, 1, 2, 1]]
    dcols = [[0, 1, 0, 1, 0], [1, 1, 0, 0, 1], [0, 0, 1, 0, 0]]
    spec = {
        "megacomplex": {"m1": {"type": "verif-lat", "labels": ["a", "b", "c"], "cols": cols, "dcols": dcols, "par": ["p.1", "p.2", "p.3"]},
                        "m2": {"type": "verif-lat", "labels": ["a", "b"], "cols": [[2, 1, 0, 1], [0, 1, 2, 1]], "dcols": [[1, 0, 1, 0], [0, 1, 0, 2]],
                               "par": ["p.2", "p.1"]},
                        # d3 (the LAST dataset) has the source clp of the penalty but not its target: the penalty applies to d1 and d2 only
                        "m3": {"type": "verif-lat", "labels": ["a", "c"], "cols": [[1, 2, 1], [2, 0, 1]], "dcols": [[0, 1, 1], [1, 1, 0]],
                               "par": ["e.a", "e.b"]}},
        # d3 depends on the free parameters ONLY through expression parameters (vary=False, yet they change with p.3)
        "dataset": {"d1": {"megacomplex": ["m1"], "scale": "s.1"}, "d2": {"megacomplex": ["m2"]}, "d3": {"megacomplex": ["m3"]}},
        "dataset_groups": {"default": {"residual_function": "variable_projection", "link_clp": False}},
        "clp_relations": [{"source": "a", "target": "c", "parameter": "e.a", "interval": [(0, 1)]}],
        "clp_constraints": [{"type": "zero", "target": "b", "interval": [(2, 2)]}],
        "clp_penalties": [{"type": "equal_area", "source": "a", "source_intervals": [(3, 0)], "target": "b", "target_intervals": [(0, 3)],      # the source interval is written in reversed order (legitimate input)
                           
                           "parameter": "r.2", "weight": 2.0}],
    }
    # e.a -> e.b -> p.3: an expression chain declared BEFORE its operands (two levels), used as relation parameter
    params = {"e": [["a", {"expr": "$e.b * 1.0"}], ["b", {"expr": "$p.3 + 0.0"}]],
              "p": [["1", 1.0], ["2", 2.0], ["3", 0.5]], "s": [["1", 2.0]], "r": [["2", 1.5]]}
    t1, g1 = np.arange(5.0), np.arange(4.0)
    t2, g2 = np.arange(4.0), np.arange(3.0)
    d1 = (np.outer(t1 + 1, g1 + 2) % 7) + (np.outer(t1, g1) % 3)
    d2 = (np.outer(t2 + 2, g2 + 1) % 5) + 1.0
    w1 = 1.0 + (np.outer(t1, g1) % 2)
    # d1 is stored (spectral, time), C-ordered, with a weight: the provider must not alias (and then weight in place) the caller's array
    d1ds = xr.Dataset({"data": (("spectral", "time"), np.ascontiguousarray(np.asarray(d1, dtype=float).T)),
                       "weight": (("spectral", "time"), np.ascontiguousarray(np.asarray(w1, dtype=float).T))},
                      coords={"time": t1, "spectral": g1})
    t3, g3 = np.arange(3.0), np.arange(2.0)
    data = {"d1": d1ds, "d2": dataset(d2, t2, g2), "d3": dataset((np.outer(t3 + 1, g3 + 3) % 4) + 1.0, t3, g3)}
    if with_fault:
        _fault_part(spec, params, data, fault_first)
    sch = _scheme(spec, params, data)
    # third point: a finite-difference sized step from the first one (4e-6 relative): expression chains must follow it
    labels, pts = _points(sch, [[0.25, -0.5, 0.125], [0.0]])
    pts[2] = pts[0] * (1.0 + 4e-6)
    return sch, (labels, pts)


def lat_linked(with_fault=True, fault_first=True):
    """Two datasets sharing clps on overlapping global axes (linked), index-dependent matrix, penalty, relation."""
    spec = {
        "megacomplex": {"m1": {"type": "verif-lat-idx", "labels": ["a", "b"], "cols": [[1, 2, 3, 4], [1, 0, 1, 2]], "dcols": [[0, 1, 0, 1], [1, 0, 0, 1]],
                               "par": ["p.1", "p.2"]},
                        "m2": {"type": "verif-lat", "labels": ["a", "b"], "cols": [[2, 1, 0], [0, 1, 2]], "dcols": [[1, 0, 1], [0, 1, 0]], "par": ["p.2", "p.3"]}},
        "dataset": {"d1": {"megacomplex": ["m1"]}, "d2": {"megacomplex": ["m2"], "scale": "s.1"}},
        "dataset_groups": {"default": {"residual_function": "non_negative_least_squares", "link_clp": True}},
        "clp_penalties": [{"type": "equal_area", "source": "a", "source_intervals": [(0, 5)], "target": "b", "target_intervals": [(1, 5)],
                           "parameter": "r.1", "weight": 1.0}],
    }
    params = {"p": [["1", 1.0, {"min": 0.0, "max": 5.0}], ["2", 0.5], ["3", 2.0, {"min": -10.0}]], "s": [["1", 3.0]], "r": [["1", 2.0, {"vary": False}]]}
    t1, g1 = np.arange(4.0), np.array([0.0, 1.0, 2.0, 3.0])
    t2, g2 = np.arange(3.0), np.array([1.0, 2.0, 4.0])
    d1 = (np.outer(t1 + 1, g1 + 1) % 6) + 1.0
    d2 = (np.outer(t2 + 3, g2 + 2) % 4) + 2.0
    data = {"d1": dataset(d1, t1, g1), "d2": dataset(d2, t2, g2)}
    if with_fault:
        _fault_part(spec, params, data, fault_first)
    sch = _scheme(spec, params, data)
    return sch, _points(sch, [[0.5, 0.25, -0.25], [-0.25, 0.125, 0.5]])


def decay_irf(with_fault=True, fault_first=False, n_time=120, n_spec=12):
    """Builtin sequential decay with a Gaussian IRF (numba kernels), expression parameter, non-negative rates; seeded noise."""
    from glotaran.simulation import simulate
    spec = {
        "megacomplex": {"mseq": {"type": "decay-sequential", "compartments": ["s1", "s2"], "rates": ["rates.1", "rates.2"]}},
        "irf": {"irf1": {"type": "gaussian", "center": "irf.center", "width": "irf.width"}},
        "dataset": {"d1": {"megacomplex": ["mseq"], "irf": "irf1"}},
    }
    params = {"rates": [["1", 0.5, {"non-negative": True}], ["2", 0.1, {"expr": "$rates.1 / 5"}]],
              "irf": [["center", 0.3], ["width", 0.1]]}
    true = {"rates": [["1", 0.55], ["2", 0.11]], "irf": [["center", 0.32], ["width", 0.12]]}
    time = np.linspace(-1, 10, n_time)
    spectral = np.linspace(600, 700, n_spec)
    sim_spec = {k: v for k, v in spec.items()}
    from glotaran.parameter import Parameters
    sim_model = model_class()(**{k: (dict(v) if isinstance(v, dict) else v) for k, v in sim_spec.items()})
    clp = xr.DataArray(np.stack([10 * np.exp(-((spectral - 630) / 20) ** 2), 6 * np.exp(-((spectral - 660) / 25) ** 2)], axis=1),
                       coords={"spectral": spectral, "clp_label": ["s1", "s2"]}, dims=("spectral", "clp_label"))
    ds = simulate(sim_model, "d1", Parameters.from_dict(true), {"time": time, "spectral": spectral}, clp=clp, noise=True, noise_std_dev=1e-2,
                  noise_seed=11)
    data = {"d1": xr.Dataset({"data": ds.data})}
    if with_fault:
        _fault_part(spec, params, data, fault_first, residual="non_negative_least_squares")
    sch = _scheme(spec, params, data)
    return sch, _points(sch, [[0.05, 0.01, 0.02], [-0.1, -0.02, 0.05]])


def decay_two_datasets(with_fault=True, fault_first=False):   # the auto-linked group is constructed FIRST (its link decision must not depend on what optimize() adds to the datasets)
    """Parallel decay + Gaussian IRF on two linked datasets with different time axes (thread-parallel kernels, alignment)."""
    from glotaran.parameter import Parameters
    from glotaran.simulation import simulate
    spec = {
        "megacomplex": {"mpar": {"type": "decay-parallel", "compartments": ["s1", "s2"], "rates": ["rates.1", "rates.2"]}},
        # a two-component, non-dispersive multi-Gaussian IRF: several components accumulate into one matrix entry (the kernels run on
        # several threads: the sum must not depend on how many)
        "irf": {"irf1": {"type": "multi-gaussian", "center": ["irf.center", "irf.center2"], "width": ["irf.width"], "scale": ["irf.one", "irf.s2"]}},
        "dataset": {"d1": {"megacomplex": ["mpar"], "irf": "irf1"}, "d2": {"megacomplex": ["mpar"], "irf": "irf1", "scale": "sc.1"}},
        "dataset_groups": {"default": {"residual_function": "variable_projection", "link_clp": None}},
    }
    params = {"rates": [["1", 0.8], ["2", 0.15]], "irf": [["center", 0.2], ["width", 0.15], ["center2", 0.9, {"vary": False}], ["one", 1.0, {"vary": False}], ["s2", 0.3, {"vary": False}]], "sc": [["1", 0.7]]}
    true = {"rates": [["1", 0.9], ["2", 0.12]], "irf": [["center", 0.25], ["width", 0.13], ["center2", 0.9], ["one", 1.0], ["s2", 0.3]], "sc": [["1", 0.8]]}
    spectral = np.linspace(600, 650, 6)
    clp = xr.DataArray(np.stack([8 * np.exp(-((spectral - 610) / 15) ** 2), 5 * np.exp(-((spectral - 640) / 10) ** 2)], axis=1),
                       coords={"spectral": spectral, "clp_label": ["s1", "s2"]}, dims=("spectral", "clp_label"))
    sim_model = model_class()(**{k: (dict(v) if isinstance(v, dict) else v) for k, v in spec.items()})
    data = {}
    for label, time, seed in (("d1", np.linspace(-1, 8, 80), 5), ("d2", np.linspace(-0.5, 12, 60), 6)):
        ds = simulate(sim_model, label, Parameters.from_dict(true), {"time": time, "spectral": spectral}, clp=clp, noise=True,
                      noise_std_dev=1e-2, noise_seed=seed)
        data[label] = xr.Dataset({"data": ds.data})
    if with_fault:
        _fault_part(spec, params, data, fault_first)
    sch = _scheme(spec, params, data)
    return sch, _points(sch, [[0.05, -0.01, 0.02, 0.01, 0.05], [-0.1, 0.02, -0.03, 0.02, -0.1]])


def decay_free_inputs(with_fault=True, fault_first=False):
    """General decay megacomplex with a chain K-matrix whose initial concentrations are FREE and start at exactly (1, 0): the implementation
    switches to a closed-form solution at such values, so which algorithm is used depends on the parameter VALUES of the evaluated point;
    points 2 and 3 leave (1, 0).  What was evaluated before must not decide the branch."""
    from glotaran.parameter import Parameters
    from glotaran.simulation import simulate
    spec = {
        "megacomplex": {"mdec": {"type": "decay", "k_matrix": ["km"]}},
        "k_matrix": {"km": {"matrix": {("s2", "s1"): "rates.1", ("s2", "s2"): "rates.2"}}},
        "initial_concentration": {"j": {"compartments": ["s1", "s2"], "parameters": ["inputs.1", "inputs.2"]}},
        "dataset": {"d1": {"megacomplex": ["mdec"], "initial_concentration": "j"}},
    }
    params = {"rates": [["1", 0.6], ["2", 0.12]], "inputs": [["1", 1.0], ["2", 0.0]]}
    true = {"rates": [["1", 0.65], ["2", 0.1]], "inputs": [["1", 0.8], ["2", 0.2]]}
    time = np.linspace(0, 12, 70)
    spectral = np.linspace(600, 650, 5)
    clp = xr.DataArray(np.stack([7 * np.exp(-((spectral - 615) / 15) ** 2), 4 * np.exp(-((spectral - 640) / 12) ** 2)], axis=1),
                       coords={"spectral": spectral, "clp_label": ["s1", "s2"]}, dims=("spectral", "clp_label"))
    sim_model = model_class()(**{k: (dict(v) if isinstance(v, dict) else v) for k, v in spec.items()})
    ds = simulate(sim_model, "d1", Parameters.from_dict(true), {"time": time, "spectral": spectral}, clp=clp, noise=True, noise_std_dev=1e-2, noise_seed=3)
    data = {"d1": xr.Dataset({"data": ds.data})}
    if with_fault:
        _fault_part(spec, params, data, fault_first)
    sch = _scheme(spec, params, data)
    return sch, _points(sch, [[0.05, 0.01, -0.2, 0.2], [-0.05, 0.02, 0.0, 0.3]])


def fault_nnls():
    """Only the fault megacomplex, NNLS: a NaN matrix makes scipy.optimize.nnls raise inside estimate (partial provider state)."""
    from .c15_models import fault_scheme
    sch = fault_scheme(residual_function="non_negative_least_squares", ndatasets=2, link_clp=False)
    return sch, _points(sch, [[0.1, -0.2], [-0.15, 0.3]])


BOUNDED = {"lat-linked"}        # Levenberg-Marquardt does not support bounds

BUILDERS = {
    "lat-unlinked": lat_unlinked,
    "lat-linked": lat_linked,
    "decay-irf": decay_irf,
    "decay-2ds-linked": decay_two_datasets,
    "fault-nnls": fault_nnls,
    "decay-free-inputs": decay_free_inputs,
}


def build(name: str, **kw):
    return BUILDERS[name](**kw)
