"""C04 — decay matrices are the solution of the compartmental rate equations.

spec/Compartments.tla is the exact reference: TLC enumerates K-matrices (edge sets x integer rates, optionally a second
combined K-matrix), declaration orders, initial concentration vectors and exclude_from_normalize by fan-out actions,
accepts the instances with real, distinct (integer) spectrum, computes eigenvalues and amplitude vectors in fraction-free
integer arithmetic, checks on every accepted instance that these amplitudes solve c' = Kc, c(0) = j (SumsToJ, EigenEq),
conservation, permutation equivariance, the sequential / parallel equivalences and the admissibility rule of the
closed-form unibranched path, and prints every instance as JSON.  Every printed instance is replayed here on the real
DecayMegacomplex / DecaySequentialMegacomplex / DecayParallelMegacomplex (no IRF): compartments, K-matrix arrays,
normalised j, rates, A-matrix, calculate_matrix columns; a sample additionally through optimize() (rate_*, lifetime_*,
a_matrix_*, k_matrix_*, species_concentration, DAS = SAS x A^T on the result arrays).

The only numeric code on the oracle side is exp(-lambda*t) (numpy) applied to the exact eigenvalues, and the division of
the exact integer numerators by their denominators.
"""
from __future__ import annotations

import itertools
import json
import os
import random
import re
import warnings
import zlib
from concurrent.futures import ProcessPoolExecutor, ThreadPoolExecutor, as_completed

from .core import Check, MachineryError, seed
from .tlc import require_actions, run_tlc

SPEC_INVARIANTS = ["TypeOK", "CheckAndEmit"]
NAMED_INVARIANTS = ["TypeOK", "InvSumsToJ", "InvEigenEq", "InvConserved", "InvPermutationEquivariance", "InvSeqEquiv", "InvParEquiv",
                    "InvSequentialShortcutAdmissible", "InvSequentialShortcutSound"]
RATES = [1, 2, 3, 5]
TIMES = [0.0, 0.25, 0.5, 1.0, 2.0, 5.0]
GLOBAL = [1.0, 2.0, 3.0, 4.0]
TOL = 1e-9
TLC_TIMEOUT = 4 * 3600        # a starved machine makes a run slow, not a machinery failure
JCODES = {
    1: [(1,), (2,)],
    2: [(1, 0), (0, 1), (1, 1), (1, 2)],
    3: [(1, 0, 0), (0, 1, 0), (0, 0, 1), (1, 1, 1), (1, 1, 0), (1, 2, 1)],
    4: [(1, 0, 0, 0), (0, 1, 0, 0), (0, 0, 1, 0), (0, 0, 0, 1), (1, 1, 1, 1), (1, 1, 0, 0), (1, 2, 1, 0)],
}
KEY_J = "Compartments: sequential shortcut with j != e1"
KEY_PAIR = "Compartments: sequential shortcut on non-chain K (reversible pair)"
KEY_CYCLE = "Compartments: sequential shortcut on non-chain K (back transfer from the last compartment closing a cycle)"
KEY_RESULT_UNINVOLVED = "Compartments: optimize() result creation fails when the initial concentration declares a compartment no K-matrix involves"
_CASE = re.compile(r'^<<"CASE", (".*")>>$')


# ------------------------------------------------------------------------------------------------ TLC side
def cfg(job: dict, emit: bool = True, named: bool = False) -> str:
    def s(xs):
        return "{" + ", ".join(str(x) for x in xs) + "}"

    code = lambda v: str(int("".join(str(x) for x in v)))  # noqa: E731
    lines = ["SPECIFICATION Spec", "CONSTANTS", f"  N = {job['n']}", f"  Rates = {s(job.get('rates', RATES))}",
             f"  MaxEntries = {job['e1']}", f"  MaxEntries2 = {job['e2']}", f"  OrdCode = {code(job['ord'])}",
             f"  Excl = {s(job['excl'])}", "  JCodes = {" + ", ".join(code(v) for v in job["jv"]) + "}",
             "  Kinds = {" + ", ".join(f'"{k}"' for k in job["kinds"]) + "}", f"  EmitOn = {'TRUE' if emit else 'FALSE'}",
             f"  FirstLo = {job.get('first', (1, job['n'] ** 2))[0]}", f"  FirstHi = {job.get('first', (1, job['n'] ** 2))[1]}",
             "CHECK_DEADLOCK FALSE"]
    lines += [f"INVARIANT {i}" for i in (NAMED_INVARIANTS if named else SPEC_INVARIANTS)]
    return "\n".join(lines) + "\n"


def job_name(job: dict) -> str:
    return (f"Compartments[N={job['n']},E={job['e1']}+{job['e2']},ord={''.join(map(str, job['ord']))},"
            f"excl={sorted(job['excl'])},j={len(job['jv'])},kinds={'/'.join(job['kinds'])}"
            + (f",first={job['first'][0]}..{job['first'][1]}" if "first" in job else "") + "]")


def jobs_for(tier: str) -> list[dict]:
    """One TLC run per (N, entry bounds, declaration order, exclude_from_normalize[, j subset]); costliest first."""
    rng = random.Random(seed())
    jobs = []

    def add(n, e1, e2, orders, excls, jvs=None, kinds=("general", "seq", "par"), workers=1, cost=1, firsts=None):
        for o in orders:
            for ex in excls:
                exs = sorted({o[i] for i in ex if i < n})
                ks = [k for k in kinds if k == "general" or (not exs and e2 == 0)]   # seq / par have neither initial concentration nor K items
                for first in firsts or [None]:          # big enumerations are split by the position of the first K-matrix entry
                    job = dict(n=n, e1=e1, e2=e2, ord=list(o), excl=exs, jv=list(jvs or JCODES[n]), kinds=ks, workers=workers, cost=cost)
                    if first:
                        job["first"] = first
                        job["kinds"] = ["general"]
                    jobs.append(job)

    perms = lambda n: list(itertools.permutations(range(1, n + 1)))  # noqa: E731
    # exclude_from_normalize variants, as positions in the declaration order: none / the second declared (the only one if N = 1)
    add(1, 1, 0, perms(1), [(), (0,)])
    add(2, 4, 0, perms(2), [(), (1,)])
    add(2, 2, 1, perms(2), [(), (1,)])                                    # two combined K-matrices (later entries override)
    add(3, 1, 1, perms(3), [()], cost=5)
    if tier == "quick":
        add(3, 3, 0, perms(3), [(), (1,)], cost=30)
    else:
        p4 = perms(4)
        some = [p4[0], p4[-1]] + rng.sample(p4[1:-1], 2)
        add(4, 4, 0, [p4[0]], [()], jvs=[(0, 1, 0, 0), (1, 2, 1, 0)], workers=2, cost=300,
            firsts=[(1, 1), (2, 2), (3, 3), (4, 5), (6, 16)])
        add(4, 2, 1, [p4[9]], [()], jvs=[(1, 0, 0, 0), (1, 1, 1, 1), (1, 2, 1, 0)], workers=2, cost=250,
            firsts=[(1, 2), (3, 5), (6, 16)])                                                               # two combined K-matrices
        add(4, 3, 0, some, [()], workers=2, cost=250)
        add(4, 3, 0, [p4[14]], [(1,)], workers=2, cost=250)
        add(3, 4, 0, perms(3), [()], workers=2, cost=155)
        add(3, 4, 0, perms(3)[1::2], [(1,)], workers=2, cost=155)
        add(3, 2, 1, perms(3), [()], workers=2, cost=125)                                                 # two combined K-matrices
    # the same statements under their own names (one evaluation of the solution per invariant: small configurations, no emission)
    for nj in (dict(n=2, e1=4, e2=0, ord=[2, 1], excl=[], jv=JCODES[2], kinds=["general", "seq", "par"]),
               dict(n=3, e1=1, e2=1, ord=[3, 1, 2], excl=[1], jv=JCODES[3], kinds=["general"]),
               dict(n=3, e1=2, e2=0, ord=[2, 3, 1], excl=[], jv=JCODES[3], kinds=["general", "seq", "par"])):
        jobs.append(dict(nj, workers=2, cost=20, named=True))
    jobs.sort(key=lambda j: -j["cost"])
    return jobs


class CpuBudget:
    """Counting semaphore with weighted acquire: a TLC run with w workers holds w of the tokens."""

    def __init__(self, tokens: int):
        import threading
        self.tokens = tokens
        self.cv = threading.Condition()

    def run(self, job: dict) -> dict:
        w = min(job["workers"], self.tokens)
        with self.cv:
            self.cv.wait_for(lambda: self.free() >= w)
            self.used = getattr(self, "used", 0) + w
        try:
            return run_job(job)
        finally:
            with self.cv:
                self.used -= w
                self.cv.notify_all()

    def free(self) -> int:
        return self.tokens - getattr(self, "used", 0)


def run_job(job: dict) -> dict:
    if job.get("named"):
        return run_tlc("Compartments", cfg(job, emit=False, named=True), workers=job["workers"], timeout=TLC_TIMEOUT, heap="3g")
    return run_tlc("Compartments", cfg(job), workers=job["workers"], timeout=TLC_TIMEOUT, heap="3g")


def case_lines(out: str) -> list[str]:
    """Raw JSON strings of the PrintT(<<"CASE", ToJson(..)>>) lines."""
    res = []
    for line in out.splitlines():
        if line.startswith('<<"CASE"'):
            m = _CASE.match(line.strip())
            if not m:
                raise MachineryError(f"garbled CASE line in TLC output: {line[:200]}")
            res.append(json.loads(m.group(1)))
    return res


# ------------------------------------------------------------------------------------------------ real-code side
_G: dict = {}


def _init_worker():
    warnings.simplefilter("ignore")
    import numpy as np
    from glotaran.builtin.megacomplexes.decay import DecayMegacomplex
    from glotaran.builtin.megacomplexes.decay import DecayParallelMegacomplex
    from glotaran.builtin.megacomplexes.decay import DecaySequentialMegacomplex
    from glotaran.model import Model
    from glotaran.parameter import Parameters

    _G["np"] = np
    _G["Model"] = Model.create_class_from_megacomplexes([DecayMegacomplex, DecayParallelMegacomplex, DecaySequentialMegacomplex])
    fixed = {"vary": False, "non-negative": False}
    _G["params"] = Parameters.from_dict({
        "r": [[str(r), float(r)] for r in range(1, 10)] + [fixed],
        "j": [[str(v), float(v)] for v in range(0, 10)] + [fixed],
        # optimize() needs one free parameter; no model item references this one, so the model stays where the spec put it
        "free": [["1", 1.0, {"vary": True, "non-negative": False}]],
    })
    _G["t"] = np.array(TIMES)
    _G["g"] = np.array(GLOBAL)


def lab(c: int) -> str:
    return f"s{c}"


def model_items(case: dict, tag: str, flip: bool) -> tuple[dict, list[tuple[str, str, str]]]:
    """Model-dict fragments for one emitted case and the (dataset, megacomplex, role) triples to evaluate."""
    d = {"initial_concentration": {}, "k_matrix": {}, "megacomplex": {}, "dataset": {}}
    targets = []
    kms = []
    for name, ents in (("a", case["k1"]), ("b", case["k2"])):
        if ents:
            ents = list(reversed(ents)) if flip else ents            # dict insertion order must not matter
            # ... nor how the entries are spread over k_matrix items: in the flipped variant a K-matrix with several entries is declared as
            # two items with disjoint entries (their combination is the matrix itself), so that a megacomplex combines up to four items
            parts = [ents[:1], ents[1:]] if (flip and len(ents) >= 2) else [ents]
            for pi, part in enumerate(parts):
                key_ = f"k{tag}{name}{pi if len(parts) > 1 else ''}"
                d["k_matrix"][key_] = {"matrix": {(lab(t), lab(f)): f"r.{r}" for t, f, r in part}}
                kms.append(key_)
    d["initial_concentration"][f"j{tag}"] = {
        "compartments": [lab(c) for c in case["ord"]],
        "parameters": [f"j.{v}" for v in case["jv"]],
        "exclude_from_normalize": [lab(c) for c in case["excl"]],
    }
    d["megacomplex"][f"m{tag}"] = {"type": "decay", "k_matrix": kms}
    d["dataset"][f"d{tag}"] = {"initial_concentration": f"j{tag}", "megacomplex": [f"m{tag}"]}
    targets.append((f"d{tag}", f"m{tag}", "general"))
    if case["kind"] in ("seq", "par"):
        typ = "decay-sequential" if case["kind"] == "seq" else "decay-parallel"
        d["megacomplex"][f"x{tag}"] = {"type": typ, "compartments": [lab(c) for c in case["ord"]], "rates": [f"r.{r}" for r in case["rv"]]}
        d["dataset"][f"e{tag}"] = {"megacomplex": [f"x{tag}"]}
        targets.append((f"e{tag}", f"x{tag}", case["kind"]))
    return d, targets


def merge(dst: dict, src: dict):
    for k, v in src.items():
        dst.setdefault(k, {}).update(v)


def expected(case: dict):
    np = _G["np"]
    eig = np.array(case["eig"], dtype=float)
    A = np.array(case["anum"], dtype=float) / np.array(case["aden"], dtype=float)[:, None]      # component x compartment
    C = np.exp(-np.outer(_G["t"], eig)) @ A                                                     # time x compartment
    return eig, A, C


def close(got, want) -> bool:
    np = _G["np"]
    got = np.asarray(got, dtype=float)
    want = np.asarray(want, dtype=float)
    if got.shape != want.shape:
        return False
    return bool(np.all(np.abs(got - want) <= TOL * np.maximum(1.0, np.abs(want))))


def match_components(rates, eig):
    """Bijection component of the code -> component of the spec by rate, or None."""
    np = _G["np"]
    rates = np.asarray(rates, dtype=float)
    if rates.shape != eig.shape or not np.all(np.isfinite(rates)):
        return None
    idx = [int(np.argmin(np.abs(eig - r))) for r in rates]
    if sorted(idx) != list(range(len(eig))):
        return None
    if not close(rates, eig[idx]):
        return None
    return idx


def case_key(case: dict, role: str) -> str:
    return (f"Compartments[{case['kind']}/{role}]: ord={case['ord']} k1={case['k1']} k2={case['k2']} j={case['jv']} "
            f"excl={case['excl']} rv={case['rv'] if case['kind'] != 'general' else []}")


def classify(case: dict, role: str, failed: list[str], seq_taken, through: str = "matrix", detail: str = "") -> str:
    """Stable key: one per distinct cause where the cause is the closed-form dispatch, else the instance."""
    if role == "general" and seq_taken and set(failed) <= {"rates", "a_matrix", "calculate_matrix", "result"}:
        if case["chain"] and not case["je1"]:
            return KEY_J
        if not case["chain"]:
            # what KMatrix.is_sequential lets through besides chains: the last declared compartment feeding back
            m = len(case["idx"])
            red = case["reduced"]
            rows = [a for a in range(m) if red[a][m - 1] != 0]
            if rows == [m - 2] and m >= 2:
                return KEY_PAIR
            if rows and rows[0] < m - 2:
                return KEY_CYCLE
    if through == "optimize" and failed == ["result"] and detail.startswith("optimize raised ValueError: conflicting sizes for dimension 'species'") \
            and len(case["idx"]) < case["n"]:
        return KEY_RESULT_UNINVOLVED
    return case_key(case, role) + " failed=" + ",".join(failed)


def _C_by(labels, want_comps, case):
    """Expected concentration matrix with columns in the order of the clp labels the code returned."""
    _, _, C = expected(case)
    return C[:, [want_comps.index(c) for c in labels]]


def check_direct(case: dict, ds, mc, role: str) -> tuple[list[str], str, object]:
    """Compare what the real megacomplex computes with the emitted case.  Returns (failed observables, detail, seq_taken)."""
    np = _G["np"]
    eig, A, C = expected(case)
    want_comps = [lab(c) for c in case["idx"]]
    failed, detail = [], []
    comps = list(mc.get_compartments(ds))
    if sorted(comps) != sorted(want_comps):
        return ["compartments"], f"compartments {comps}, specification {want_comps}", None
    # everything is compared per compartment label: the order in which the code lists the compartments is its own business
    o = [want_comps.index(c) for c in comps]
    A, C = A[:, o], C[:, o]
    want_full = np.array(case["full"], dtype=float)[np.ix_(o, o)]
    want_red = np.array(case["reduced"], dtype=float)[np.ix_(o, o)]
    kmat = mc.get_k_matrix()
    full = kmat.full(comps)
    if not np.array_equal(full, want_full):
        failed.append("k_matrix_full")
        detail.append(f"KMatrix.full({comps}) = {full.tolist()}, specification {want_full.tolist()}")
    red = kmat.reduced(comps)
    if not np.array_equal(red, want_red):
        failed.append("k_matrix_reduced")
        detail.append(f"KMatrix.reduced({comps}) = {red.tolist()}, specification {want_red.tolist()}")
    j = np.asarray(mc.get_initial_concentration(ds), dtype=float)
    jw = (np.array(case["jn"], dtype=float) / case["jden"])[o]
    if not close(j, jw):
        failed.append("initial_concentration")
        detail.append(f"normalised j = {j.tolist()}, specification {jw.tolist()}")
    seq_taken = None
    if role == "general" and hasattr(kmat, "is_sequential"):
        try:
            seq_taken = bool(kmat.is_sequential(comps, j))
        except Exception:  # noqa: BLE001
            seq_taken = None
    try:
        with np.errstate(all="ignore"):
            rates = np.asarray(kmat.rates(comps, j), dtype=float)
            amat = np.asarray(mc.get_a_matrix(ds), dtype=float)
            labels, matrix = mc.calculate_matrix(ds, _G["g"], _G["t"])
    except Exception as ex:  # noqa: BLE001
        failed.append("calculate_matrix")
        detail.append(f"raised {type(ex).__name__}: {ex}")
        return failed, "; ".join(detail), seq_taken
    perm = match_components(rates, eig)
    if perm is None:
        failed.append("rates")
        detail.append(f"rates = {rates.tolist()}, specification (any order) {eig.tolist()}")
    elif not close(amat, A[perm]):
        failed.append("a_matrix")
        detail.append(f"a_matrix (component x compartment) = {amat.tolist()}, specification {A[perm].tolist()}")
    if sorted(labels) != sorted(want_comps):
        failed.append("calculate_matrix")
        detail.append(f"clp labels {list(labels)}, specification {want_comps}")
    elif np.shape(matrix) != C.shape or not close(matrix, _C_by(labels, want_comps, case)):
        failed.append("calculate_matrix")
        Cl = _C_by(labels, want_comps, case)
        bad = np.argwhere(~(np.abs(matrix - Cl) <= TOL * np.maximum(1.0, np.abs(Cl))))[0] if np.shape(matrix) == Cl.shape else [0, 0]
        C = Cl
        want_comps = list(labels)
        detail.append(f"calculate_matrix column {want_comps[bad[1]]} at t={TIMES[bad[0]]}: {matrix[bad[0], bad[1]]!r}, "
                      f"sum_l A_l exp(-lambda_l t) = {C[bad[0], bad[1]]!r} (lambda={case['eig']}, j={jw.tolist()})")
    return failed, "; ".join(detail), seq_taken


def check_result(case: dict, rds, mlabel: str) -> tuple[list[str], str]:
    """Reported quantities on a result dataset of optimize()."""
    np = _G["np"]
    eig, A, C = expected(case)
    comps = [lab(c) for c in case["idx"]]
    failed, detail = [], []

    def bad(what, msg):
        failed.append(what)
        detail.append(msg)

    try:
        rate = rds[f"rate_{mlabel}"].values
        life = rds[f"lifetime_{mlabel}"].values
        am = rds[f"a_matrix_{mlabel}"]
        km = rds[f"k_matrix_{mlabel}"]
        kr = rds[f"k_matrix_reduced_{mlabel}"]
        das = rds[f"decay_associated_spectra_{mlabel}"]
        sas = rds["species_associated_spectra"]
        conc = rds["species_concentration"]
    except KeyError as ex:
        return ["result"], f"result dataset lacks {ex}"
    if sorted(am.coords[f"species_{mlabel}"].values) != sorted(comps):
        bad("result", f"species_{mlabel} = {list(am.coords[f'species_{mlabel}'].values)}, specification {comps}")
        return failed, "; ".join(detail)
    am = am.sel({f"species_{mlabel}": comps})          # per compartment label, whatever order the result uses
    with np.errstate(all="ignore"):
        inv = 1.0 / rate
        fin = np.isfinite(inv)
        if life.shape != inv.shape or not np.array_equal(life[~fin], inv[~fin]) or not close(life[fin], inv[fin]):
            bad("result", f"lifetime_{mlabel} = {life.tolist()} is not 1/rate, rate = {rate.tolist()}")
    perm = match_components(rate, eig)
    if perm is None:
        bad("rates", f"rate_{mlabel} = {rate.tolist()}, specification (any order) {eig.tolist()}")
    elif not close(am.values, A[perm]):
        bad("a_matrix", f"a_matrix_{mlabel} = {am.values.tolist()}, specification {A[perm].tolist()}")
    try:
        sel = {f"to_species_{mlabel}": comps, f"from_species_{mlabel}": comps}
        kmv = km.sel(sel).transpose(f"to_species_{mlabel}", f"from_species_{mlabel}").values
        krv = kr.sel(sel).transpose(f"to_species_{mlabel}", f"from_species_{mlabel}").values
    except KeyError as ex:
        bad("k_matrix_full", f"k_matrix_{mlabel} lacks species {ex}")
        return failed, "; ".join(detail)
    if not np.array_equal(kmv, np.array(case["full"], dtype=float)):
        bad("k_matrix_full", f"k_matrix_{mlabel} = {kmv.tolist()}, specification {case['full']}")
    if not np.array_equal(krv, np.array(case["reduced"], dtype=float)):
        bad("k_matrix_reduced", f"k_matrix_reduced_{mlabel} = {krv.tolist()}, specification {case['reduced']}")
    cs = conc.sel(species=comps).transpose("time", "species").values
    if not close(cs, C):
        bad("calculate_matrix", f"species_concentration = {cs.tolist()}, specification {C.tolist()}")
    # the reported quantities among themselves: c(t) = sum_l A_l exp(-rate_l t) and DAS = SAS x A^T
    with np.errstate(all="ignore"):
        recon = np.exp(-np.outer(rds["time"].values, rate)) @ am.values
    if not (np.all(np.isfinite(recon)) and close(cs, recon)):
        bad("result", f"species_concentration is not sum_l a_matrix[l] exp(-rate_l t): {cs.tolist()} vs {recon.tolist()}")
    want_das = sas.sel(species=comps).transpose("spectral", "species").values @ am.values.T
    if not close(das.transpose("spectral", f"component_{mlabel}").values, want_das):
        bad("result", f"decay_associated_spectra_{mlabel} is not SAS x A^T")
    return failed, "; ".join(detail)


def sas_for(m: int):
    np = _G["np"]
    return np.array([[1 + ((s + 1) * (g + 2)) % 5 + (2 if s == g else 0) for s in range(m)] for g in range(len(GLOBAL))], dtype=float)


def seq_taken_for(case: dict):
    """Does the general megacomplex of this case take the closed-form path (KMatrix.is_sequential)?  Attribution only."""
    from glotaran.model.item import fill_item
    try:
        d, tg = model_items(case, "q", flip=False)
        model = _G["Model"](**d)
        ds = fill_item(model.dataset["dq"], model, _G["params"])
        mc = ds.megacomplex[0]
        km = mc.get_k_matrix()
        return bool(km.is_sequential(mc.get_compartments(ds), mc.get_initial_concentration(ds)))
    except Exception:  # noqa: BLE001
        return None


def run_optimize(cases: list[tuple[int, dict]]) -> list[dict]:
    """One optimize() over several unlinked datasets; returns per-(case, role) comparison records."""
    np = _G["np"]
    import xarray as xr
    from glotaran.optimization.optimize import optimize
    from glotaran.project import Scheme

    md: dict = {"dataset_groups": {"default": {"link_clp": False}}}
    todo = []
    data = {}
    for n, (cid, case) in enumerate(cases):
        d, targets = model_items(case, f"{n:03d}", flip=bool(cid % 2))
        merge(md, d)
        _, _, C = expected(case)
        vals = C @ sas_for(C.shape[1]).T
        for dl, ml, role in targets:
            data[dl] = xr.DataArray(vals, coords=[("time", _G["t"]), ("spectral", _G["g"])]).to_dataset(name="data")
            todo.append((cid, case, dl, ml, role))
    model = _G["Model"](**md)
    scheme = Scheme(model=model, parameters=_G["params"], data=data, maximum_number_function_evaluations=1)
    out = []
    try:
        with warnings.catch_warnings(), np.errstate(all="ignore"):
            warnings.simplefilter("ignore")
            result = optimize(scheme, verbose=False, raise_exception=True)
    except Exception as ex:  # noqa: BLE001
        if len(cases) > 1:      # isolate the instance(s) on which optimize fails
            for c in cases:
                out += run_optimize([c])
            return out
        cid, case = cases[0]
        return [dict(cid=cid, case=case, role=todo[0][4], through="optimize", failed=["result"],
                     detail=f"optimize raised {type(ex).__name__}: {ex}", seq=seq_taken_for(case))]
    for cid, case, dl, ml, role in todo:
        failed, detail = check_result(case, result.data[dl], ml)
        seq = seq_taken_for(case) if failed and role == "general" else None
        out.append(dict(cid=cid, case=case, role=role, through="optimize", failed=failed, detail=detail, seq=seq))
    return out


def replay_batch(args) -> dict:
    """Worker: raw JSON case strings -> statistics and failure records."""
    first_id, lines, opt_every = args
    from glotaran.model.item import fill_item

    stats = {"ok": 0, "skip_norm": 0, "skip_spectrum": 0, "evaluations": 0, "nontrivial": 0, "optimized": 0,
             "kinds": {}, "shortcut_ok": 0, "lossless": 0, "inv_lt_declared": 0, "two_k": 0, "excl": 0}
    cases = []
    for n, raw in enumerate(lines):
        c = json.loads(raw)
        if c["st"] != "ok":
            stats[c["st"]] += 1
            continue
        cases.append((zlib.crc32(raw.encode()), c))      # content-derived id: sampling does not depend on the order of TLC's output
    fails, samples = [], []
    md: dict = {}
    targets = []
    for n, (cid, case) in enumerate(cases):
        d, tg = model_items(case, str(n), flip=bool(cid % 2))
        merge(md, d)
        targets.append(tg)
    if cases:
        model = _G["Model"](**md)
    opt = []
    for (cid, case), tg in zip(cases, targets):
        stats["ok"] += 1
        stats["kinds"][case["kind"]] = stats["kinds"].get(case["kind"], 0) + 1
        m = len(case["idx"])
        offdiag = any(case["reduced"][a][b] != 0 for a in range(m) for b in range(m) if a != b)
        if m >= 2 and offdiag:
            stats["nontrivial"] += 1
        stats["shortcut_ok"] += bool(case["chain"] and case["je1"])
        stats["lossless"] += bool(case["lossless"])
        stats["inv_lt_declared"] += m < case["n"]
        stats["two_k"] += bool(case["k2"])
        stats["excl"] += bool(case["excl"])
        for dl, ml, role in tg:
            ds = fill_item(model.dataset[dl], model, _G["params"])
            failed, detail, seq = check_direct(case, ds, ds.megacomplex[0], role)
            stats["evaluations"] += 1
            if failed:
                fails.append(dict(cid=cid, case=case, role=role, through="matrix", failed=failed, detail=detail, seq=seq))
        if opt_every and cid % opt_every == 0:
            opt.append((cid, case))
        if cid % 9973 == 0 or (case["kind"] != "general" and cid % 23 == 0):
            _, A, _ = expected(case)
            samples.append({"kind": case["kind"], "declared": [lab(c) for c in case["ord"]], "k_matrix": case["k1"], "k_matrix_2": case["k2"],
                            "j": case["jv"], "exclude_from_normalize": case["excl"], "compartments": [lab(c) for c in case["idx"]],
                            "rates": case["eig"], "a_matrix_num": case["anum"], "a_matrix_den": case["aden"], "code_agrees": not any(
                                f["cid"] == cid for f in fails)})
    # instances whose initial concentration declares more compartments than K involves are grouped apart (small groups):
    # a failure of optimize() on one of them must not cost the re-run of a large group
    whole = [c for c in opt if len(c[1]["idx"]) == c[1]["n"]]
    part = [c for c in opt if len(c[1]["idx"]) < c[1]["n"]]
    groups = [whole[i:i + 25] for i in range(0, len(whole), 25)] + [part[i:i + 4] for i in range(0, len(part), 4)]
    for grp in groups:
        recs = run_optimize(grp)
        stats["optimized"] += len(recs)
        stats["evaluations"] += len(recs)
        fails += [r for r in recs if r["failed"]]
    return {"stats": stats, "fails": fails, "samples": samples, "first_id": first_id}


def replay_one(case: dict, role: str, through: str) -> list[dict]:
    from glotaran.model.item import fill_item
    if through == "optimize":
        return [r for r in run_optimize([(0, case)]) if r["role"] == role]
    d, tg = model_items(case, "0", flip=False)
    model = _G["Model"](**d)
    out = []
    for dl, ml, r in tg:
        if r != role:
            continue
        ds = fill_item(model.dataset[dl], model, _G["params"])
        failed, detail, seq = check_direct(case, ds, ds.megacomplex[0], r)
        out.append(dict(cid=0, case=case, role=r, through="matrix", failed=failed, detail=detail, seq=seq))
    return out


# ------------------------------------------------------------------------------------------------ driver
def report_all(chk: Check, recs: list[dict]):
    """One violation per key (= per distinct cause, or per instance where no common cause is identified), first instance as replay."""
    by_key: dict[str, list[dict]] = {}
    for rec in recs:
        key = classify(rec["case"], rec["role"], rec["failed"], rec["seq"], rec["through"], rec["detail"])
        by_key.setdefault(key, []).append(rec)
    for key, rs in by_key.items():
        rec = rs[0]
        case = rec["case"]
        why = ""
        if rec["seq"] and not (case["chain"] and case["je1"]):
            reasons = ([] if case["chain"] else ["K is not a chain in declaration order"]) + ([] if case["je1"] else ["j is not e1"])
            why = " -- KMatrix.is_sequential() returned True although " + " and ".join(reasons)
        what = (f"{len(rs)} instance(s); first: {rec['role']} megacomplex, declared {[lab(c) for c in case['ord']]}, K={case['k1']}"
                + (f" combined with {case['k2']}" if case["k2"] else "") + f", j={case['jv']}, exclude_from_normalize={[lab(c) for c in case['excl']]}"
                + (f", rates={case['rv']}" if case["kind"] != "general" else "")
                + f" [{rec['through']}]: {rec['detail']}" + why)
        chk.violation(key, what[:1800], {"engine": "c04", "case": case, "role": rec["role"], "through": rec["through"]})


def run(tier: str, replay=None) -> int:
    # the no-IRF kernel is a numba prange loop over <= 4 rates: one thread, or 16 spinning threads per replay process
    os.environ["NUMBA_NUM_THREADS"] = "1"
    chk = Check("C04", tier)
    chk.rule = ("every accepted instance printed by TLC (spec/Compartments.tla, all terminal states of the fan-out enumeration) is built as a "
                "real decay / decay-sequential / decay-parallel model and compared (compartments, K arrays, normalised j, rates, A-matrix, "
                "calculate_matrix on t in {0,1/4,1/2,1,2,5}); every n-th one additionally through optimize(); non-trivial = at least two "
                "involved compartments and a K-matrix with an off-diagonal entry; instances are distinct by construction "
                "(K-matrix pair, declaration order, j, exclude_from_normalize, kind)")
    chk.assumptions = [
        "rational spectrum only: instances are accepted iff the integer search finds as many distinct integer eigenvalues as involved "
        "compartments; irrational, complex and repeated spectra are counted (skip_spectrum) and not judged",
        "j is normalised over the non-excluded compartments of the initial-concentration item (InitialConcentration.normalized) and then "
        "restricted to the compartments the K-matrix involves; instances whose normaliser is 0 are counted (skip_norm) and not judged",
        "rates {1,2,3,5}, j entries in 0..2: six-decade rate spreads and near-degenerate spectra (conditioning of scipy.linalg.eig) are not decided",
        "float vs exact: |f - p/q| <= 1e-9 * max(1, |p/q|); exp(-lambda t) evaluated with numpy on exact integer lambda",
        "components are matched by rate (the order of reported components is not part of the property)",
        "compartment labels are opaque: s1..sN; K-matrix dict insertion order alternates between instances",
        "trusted: TLC, CommunityModules Json, numpy exp and float division, xarray selection",
    ]
    ncpu = os.cpu_count() or 4
    nproc = max(2, min(8, ncpu // 2))
    if replay:
        _init_worker()
        r = replay["replay"]
        for rec in replay_one(r["case"], r["role"], r["through"]):
            chk.evaluations += 1
            chk.traces += 1
            if rec["failed"]:
                report_all(chk, [rec])
        chk.exhaustive = False
        return chk.finish()

    jobs = jobs_for(tier)
    opt_every = 701 if tier == "quick" else 1499
    totals = {"ok": 0, "skip_norm": 0, "skip_spectrum": 0, "optimized": 0, "shortcut_ok": 0, "lossless": 0, "inv_lt_declared": 0,
              "two_k": 0, "excl": 0, "kinds": {}}
    all_fails: list = []
    all_samples: list = []
    budget = CpuBudget(max(2, ncpu - 4))
    # replay workers are *spawned*: a forked worker would inherit the pipe ends of TLC subprocesses that other threads are just
    # starting (Popen then waits for ever for the exec-status pipe to close and TLC blocks on a full stdout pipe)
    import multiprocessing
    with ProcessPoolExecutor(max_workers=nproc, initializer=_init_worker, mp_context=multiprocessing.get_context("spawn")) as pool, \
            ThreadPoolExecutor(max_workers=len(jobs)) as tp:
        futs = {tp.submit(budget.run, job): n for n, job in enumerate(jobs)}
        pending = []
        named: list = []
        for fut in as_completed(futs):
            n = futs[fut]
            job = jobs[n]
            res = fut.result()
            need = ["Close", "Instantiate"] if "general" in job["kinds"] else []
            need += ["Fill1"] if "general" in job["kinds"] else []
            need += ["StartK2", "Fill2"] if job["e2"] else []
            need += ["DefineSeq"] if "seq" in job["kinds"] else []
            need += ["DefinePar"] if "par" in job["kinds"] else []
            require_actions(res, need)
            if job.get("named"):
                res.pop("stdout")
                named.append({"spec": job_name(job), "invariants": NAMED_INVARIANTS, "states": res["distinct"], "wall_s": res["wall_s"]})
                continue
            lines = case_lines(res.pop("stdout"))
            act = res["actions"]
            terminal = act.get("Instantiate", [0, 0])[0] + act.get("DefineSeq", [0, 0])[0] + act.get("DefinePar", [0, 0])[0]
            closed = act.get("Close", [0, 0])[0]
            skipped_k = sum(1 for raw in lines if raw == '{"st":"skip_spectrum","kind":"general"}')
            if len(lines) - skipped_k != terminal or skipped_k > closed:
                raise MachineryError(f"{job_name(job)}: {len(lines)} CASE lines ({skipped_k} skipped K-matrices) for {terminal} terminal states")
            chk.add_tlc(res, job_name(job))
            for i in range(0, len(lines), 400):        # instance id = (job, line): independent of the order in which TLC runs finish
                pending.append(pool.submit(replay_batch, (n * 10_000_000 + i, lines[i:i + 400], opt_every)))
            del lines
        outs = [p.result() for p in pending]
    outs.sort(key=lambda o: o["first_id"])
    for o in outs:
        st = o["stats"]
        for k in totals:
            if k == "kinds":
                for kk, v in st["kinds"].items():
                    totals["kinds"][kk] = totals["kinds"].get(kk, 0) + v
            else:
                totals[k] += st[k]
        chk.evaluations += st["evaluations"]
        chk.traces += st["ok"]
        base = len(chk.nontrivial)
        for i in range(st["nontrivial"]):
            chk.nontriv(base + i)
        all_fails += o["fails"]
        all_samples += o["samples"]
    if totals["ok"] == 0:
        raise MachineryError("no accepted instance was emitted")
    for need in ("shortcut_ok", "lossless", "inv_lt_declared", "excl", "two_k", "optimized"):
        if totals[need] == 0:
            raise MachineryError(f"vacuity: no replayed instance with {need}")
    for kind in ("general", "seq", "par"):
        if totals["kinds"].get(kind, 0) == 0:
            raise MachineryError(f"vacuity: no replayed instance of kind {kind}")
    chk.skip("spectrum not rational, real and distinct (outside the premise / not decided)", totals["skip_spectrum"])
    if totals["skip_norm"]:
        chk.skip("normaliser of the initial concentration is 0 (normalisation undefined)", totals["skip_norm"])
    all_samples.sort(key=lambda s: (-sum(1 for row in s["a_matrix_num"] for v in row if v), json.dumps(s, sort_keys=True)))
    for kind, k in (("general", 3), ("seq", 2), ("par", 1)):
        for smp in [x for x in all_samples if x["kind"] == kind][:k]:
            chk.sample(smp)
    chk.extra["instances"] = {k: v for k, v in totals.items()}
    chk.extra["tlc_jobs"] = len(jobs)
    chk.extra["named_invariant_runs"] = sorted(named, key=lambda r: r["spec"])
    all_fails.sort(key=lambda r: (r["through"], r["case"]["n"], len(r["case"]["k1"]) + len(r["case"]["k2"]), not r["case"]["je1"], json.dumps(r["case"], sort_keys=True), r["role"]))
    chk.extra["failing_instances"] = len(all_fails)
    report_all(chk, all_fails)
    return chk.finish()
