"""TLC runner: timeouts, -coverage parsing, summary parsing, exit-2 policy."""
from __future__ import annotations

import json
import os
import re
import shutil
import subprocess
import tempfile
import time
from pathlib import Path

from .core import SPEC, MachineryError

JAR = "/opt/veriftools/tla/tla2tools.jar:/opt/veriftools/tla/CommunityModules-deps.jar"

_SUMMARY = re.compile(r"(\d+) states generated, (\d+) distinct states found, (\d+) states left on queue")
_COV = re.compile(r"^<(\w+) line \d+, col \d+ to line \d+, col \d+ of module (\w+)>: (\d+):(\d+)", re.M)
_INV = re.compile(r"Error: Invariant (\w+) is violated")
_PROP = re.compile(r"Error: (?:Action|Temporal) propert(?:y|ies) (\w+)? ?(?:is|were) violated")


def run_tlc(
    module: str,
    cfg: str,
    *,
    workers: int | str = 16,
    timeout: int = 1200,
    simulate: str | None = None,
    depth: int | None = None,
    env: dict | None = None,
    extra: list[str] | None = None,
    coverage: bool = True,
    deadlock: bool = True,
    seed: int | None = None,
    dfs: bool = False,
    keep_dir: bool = False,
    heap: str = "4g",
    allow_violation: bool = False,
) -> dict:
    """Run TLC on spec/<module>.tla with the given cfg *text*.

    Returns dict(generated, distinct, queue, complete, actions{name: [distinct, generated]},
    violated (name or None), stdout, wall_s, printed (list of PrintT payload lines)).
    Raises MachineryError on crash/overflow/timeout/parse problems.
    """
    tmp = Path(tempfile.mkdtemp(prefix="verif_tlc_"))
    try:
        cfgp = tmp / f"{module}.cfg"
        cfgp.write_text(cfg)
        java_opts = [f"-Xmx{heap}", "-XX:+UseParallelGC", "-XX:ParallelGCThreads=4"]
        if dfs:
            java_opts.append("-Dtlc2.tool.queue.IStateQueue=StateDeque")
        cmd = ["java", *java_opts, "-cp", JAR, "tlc2.TLC", "-workers", str(workers), "-metadir", str(tmp / "meta"),
               "-noGenerateSpecTE", "-config", str(cfgp)]
        if coverage and not simulate:
            cmd += ["-coverage", "1"]
        if not deadlock:
            cmd += ["-deadlock"]
        if simulate:
            cmd += ["-simulate", simulate]
        if depth is not None:
            cmd += ["-depth", str(depth)]
        if seed is not None:
            cmd += ["-seed", str(seed)]
        if extra:
            cmd += extra
        cmd.append(str(SPEC / f"{module}.tla"))
        e = dict(os.environ)
        e.pop("JAVA_TOOL_OPTIONS", None)
        if env:
            e.update({k: str(v) for k, v in env.items()})
        t0 = time.time()
        try:
            p = subprocess.run(cmd, capture_output=True, text=True, timeout=timeout, env=e, cwd=str(tmp))
        except subprocess.TimeoutExpired as ex:
            subprocess.run(["pkill", "-f", str(tmp)], check=False)
            if simulate:
                out = (ex.stdout or b"").decode() if isinstance(ex.stdout, bytes) else (ex.stdout or "")
                return {"spec": module, "mode": "simulate", "generated": 0, "distinct": 0, "queue": 0, "complete": False,
                        "actions": {}, "violated": None, "stdout": out, "wall_s": time.time() - t0, "tmp": tmp}
            raise MachineryError(f"TLC timeout after {timeout}s on {module}") from ex
        wall = time.time() - t0
        out = p.stdout + p.stderr
        res = {"spec": module, "mode": "simulate" if simulate else "bfs", "stdout": out, "wall_s": round(wall, 2), "tmp": tmp}
        m = None
        for m in _SUMMARY.finditer(out):
            pass
        if m:
            res.update(generated=int(m.group(1)), distinct=int(m.group(2)), queue=int(m.group(3)))
        else:
            res.update(generated=0, distinct=0, queue=-1)
        res["postcondition_false"] = bool(re.search(r"Postcondition \w+ .*is false", out))
        res["complete"] = ("Model checking completed. No error has been found." in out or res["postcondition_false"]) and res["queue"] == 0
        actions: dict[str, list[int]] = {}
        for cm in _COV.finditer(out):
            name = cm.group(1)
            cur = actions.get(name, [0, 0])
            actions[name] = [max(cur[0], int(cm.group(3))), max(cur[1], int(cm.group(4)))]
        res["actions"] = actions
        viol = None
        im = _INV.search(out)
        if im:
            viol = im.group(1)
        elif res["postcondition_false"]:
            viol = None
        elif "is violated" in out or "was violated" in out or "Error: Deadlock reached" in out:
            pm = re.search(r"Error: (.*(?:violated|Deadlock reached).*)", out)
            viol = pm.group(1) if pm else "unknown"
        res["violated"] = viol
        if "Overflow when computing" in out:
            raise MachineryError(f"TLC integer overflow in {module}: " + _first_error(out))
        if viol is None and not simulate and not res["complete"]:
            raise MachineryError(f"TLC did not complete on {module} (rc={p.returncode}): " + _first_error(out))
        if viol is None and simulate and p.returncode not in (0,):
            if "Error:" in out:
                raise MachineryError(f"TLC simulate error on {module}: " + _first_error(out))
        if viol is not None and not allow_violation:
            raise MachineryError(f"spec-level property {viol} violated in {module} (the specification itself is wrong):\n" + _tail(out))
        return res
    finally:
        if not keep_dir:
            shutil.rmtree(tmp, ignore_errors=True)


def _first_error(out: str) -> str:
    i = out.find("Error:")
    return out[i:i + 1500] if i >= 0 else out[-1500:]


def _tail(out: str) -> str:
    return out[-3000:]


def printed_json(out: str, tag: str) -> list:
    """Payloads of PrintT(<<tag, ToJson(x)>>) lines: <<"tag", "json">> (single worker)."""
    res = []
    pat = re.compile(r'^<<"' + re.escape(tag) + r'", (".*")>>$')
    for line in out.splitlines():
        m = pat.match(line.strip())
        if m:
            res.append(json.loads(json.loads(m.group(1))))
    return res


def sany(module_path: Path) -> bool:
    p = subprocess.run(["java", "-cp", JAR, "tla2sany.SANY", str(module_path)], capture_output=True, text=True, cwd=str(module_path.parent))
    return p.returncode == 0 and "Semantic errors" not in p.stdout and "***Parse Error***" not in p.stdout and "Fatal errors" not in p.stdout


def require_actions(res: dict, names: list[str]):
    """Vacuity guard: every listed action must have been taken at least once."""
    missing = [n for n in names if res["actions"].get(n, [0, 0])[1] == 0]
    if missing:
        raise MachineryError(f"vacuity: actions never taken in {res['spec']}: {missing}")
