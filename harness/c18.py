"""C18 - saving never destroys existing files unless asked; project results accumulate.

spec/SaveProtocol.tla : one glotaran.io.save_* call as Protect -> LookupPlugin -> PluginWrite -> UpdateSourcePath over an
                        abstract file system; TLC decides Refusal / OverwriteOnlyIfAsked / PreexistingUntouched / ... and
                        enumerates every call with its allowed outcomes; every call is executed on the real functions
                        (harness/c18_save.py).
spec/ProjectRuns.tla  : result runs (Optimize / Remove / Latest / Get) and imported / generated items with
                        ignore_existing / allow_overwrite; every state and transition of the TLC graph is replayed on a
                        real Project folder, at registry level and through Project.optimize (harness/c18_project.py).
spec/*Trace.tla       : calls recorded from the real code (hooks on: the harness' own driver and the repository's tests)
                        are accepted or rejected by the specifications (harness/c18_trace.py).
"""
from __future__ import annotations

import random

from . import c18_project, c18_save, c18_trace
from .core import Check, seed

NAMES, KINDS = c18_project.NAMES, c18_project.KINDS


def run(tier: str, replay=None) -> int:
    chk = Check("C18", tier)
    rng = random.Random(seed())
    chk.rule = ("SaveProtocol: every (function, format, target state, allow_overwrite, format given|inferred) TLC enumerates is executed on the real "
                "save_* on a fresh tree and its outcome (exception class; bytes+mtime of every pre-existing file; what appeared) must be a terminal state "
                "of the specification; non-trivial = the target is occupied (file or non-empty folder).  ProjectRuns: every state of the TLC graph is "
                "reached on a real project folder, every transition executed by the real operation, every lookup of every state compared with the "
                "emitted table; non-trivial = states holding runs of two names of which one is a prefix of the other.  Traces: non-trivial = occupied "
                "target / run folders of at least two names present.")
    chk.assumptions = [
        "D10: the target of a save is the path the caller passed; companion files of a multi-file save are part of its output ('out' in SaveProtocol)",
        "D4: ignore_existing together with allow_overwrite on an existing item: skipping and overwriting are both accepted (ProjectRuns.ItemOp, last disjunct)",
        "ignore_existing without allow_overwrite on an existing item: skipped silently (documented meaning of the flag); without either flag: FileExistsError",
        "what a plugin does after the check passed is nondeterministic in SaveProtocol (not implemented -> ValueError, success, failure after any partial "
        "effect); FileExistsError may only come from the check; an unknown format is a ValueError without any write when the call is not refused",
        "with allow_overwrite on a non-empty target folder, files inside it may be kept, replaced or removed (property silent)",
        "run numbers: next = largest existing run number of exactly that name + 1, first = 0000 (gaps after a user's deletion are not refilled)",
        "a result name that itself ends in _run_<4 digits> ('b_run_0000') also reads as a run specifier of the shorter name: the lookup may answer with "
        "its own latest run or with 'no such result' (ProjectRuns.AmbigNames); never with another name's run or the results directory",
        "registry-level Optimize stores one real one-evaluation Result by ProjectResultRegistry(folder).save; when the real call fails and leaves the "
        "results folder untouched the violation is recorded and the state a correct implementation would have produced is put in place so that "
        "exploration continues (counted in coverage.project_runs.*.states_repaired_after_failed_optimize)",
        "run folders are forked by copying the tree (shutil.copytree preserves bytes and mtimes); unchanged = same names, bytes and mtimes",
        "trusted: TLC, CommunityModules Json/IOUtils, CPython os/shutil/hashlib, the frame-identity pairing of hook events into calls",
    ]
    if replay:
        return _replay(chk, replay)

    import time
    phases = chk.extra.setdefault("phase_wall_s", {})

    def timed(label, fn, *a, **kw):
        t0 = time.time()
        out = fn(*a, **kw)
        phases[label] = round(phases.get(label, 0) + time.time() - t0, 1)
        return out

    # ---- spec -> code: save protocol (identical in both tiers: the case space is small and finite)
    cases = timed("save_protocol", c18_save.run, chk, tier)

    # ---- spec -> code: project runs and items
    P3 = ["a", "a_run_b", "a_run"]     # three names of which one is a prefix of the two others
    if tier == "quick":
        timed("runs<=4", c18_project.run_graph, chk, "registry", NAMES, [], 4, 0, 0, "runs<=4", load_every=4)
        timed("runs<=3,remove<=1", c18_project.run_graph, chk, "registry", P3, [], 3, 0, 1, "runs<=3,remove<=1", load_every=0)
        timed("items<=3", c18_project.run_graph, chk, "project", [], KINDS, 0, 3, 0, "items<=3", load_every=0)
        timed("optimize<=3", c18_project.run_graph, chk, "project", P3, [], 3, 0, 0, "optimize<=3", load_every=5)
        timed("mixed", c18_project.run_graph, chk, "project", ["a", "a_run_b"], ["data"], 2, 2, 0, "mixed", load_every=0)
    else:
        timed("runs<=6", c18_project.run_graph, chk, "registry", NAMES, [], 6, 0, 0, "runs<=6", load_every=6)
        timed("runs<=4,remove<=1", c18_project.run_graph, chk, "registry", NAMES, [], 4, 0, 1, "runs<=4,remove<=1", load_every=10)
        timed("items<=5", c18_project.run_graph, chk, "project", [], KINDS, 0, 5, 0, "items<=5", load_every=0)
        timed("optimize<=4", c18_project.run_graph, chk, "project", NAMES, [], 4, 0, 0, "optimize<=4", load_every=3)
        timed("mixed", c18_project.run_graph, chk, "project", P3, ["data", "model"], 2, 2, 1, "mixed", load_every=0)

    # result names containing a dot (outside the five names of the design, inside "every Project.optimize run")
    timed("dotted", c18_project.run_graph, chk, "registry", ["v1.2", "v1"], [], 3, 0, 0, "dotted-names", load_every=2)
    # result names are literal text, not patterns: '.', '+', '(' in a name match only themselves ('fit.v2' is not 'fit_v2')
    timed("literal", c18_project.run_graph, chk, "registry", ["fit.v2", "fit_v2", "a+b(1)"], [], 3, 0, 0, "literal-names", load_every=2)
    # a save that fails midway leaves a partial run folder: its number is taken, its leftover files are never rewritten
    timed("partial", c18_project.run_graph, chk, "registry", ["a", "a_run_b"], [], 4, 0, 0, "partial-runs", load_every=2, max_fails=2)
    # a run specifier in the MIDDLE of a result name must stay part of the name ('a_run_0001_b' is not a run of 'a_b')
    timed("inner", c18_project.run_graph, chk, "project", ["a_run_0001_b", "a_b"], [], 3, 0, 0, "inner-run-specifier", load_every=2)

    # ---- code -> spec
    timed("traces", c18_trace.run, chk, tier, cases)
    return chk.finish()


def _replay(chk: Check, rp) -> int:
    r = rp["replay"]
    eng = r.get("engine")
    if eng == "c18-save":
        c18_save.replay(chk, r)
    elif eng in ("c18-runs", "c18-items"):
        c18_project.replay(chk, r)
    else:
        c18_trace.replay(chk, r)
    return chk.finish()
