"""Shared by C02 / C03 / C13 / C14: lattice case generator, TLC oracle runner (spec/Objective.tla), comparators."""
from __future__ import annotations

import json
import math
import os
import random
import tempfile
import warnings
from concurrent.futures import ThreadPoolExecutor
from fractions import Fraction
from pathlib import Path

from .core import MachineryError
from .tlc import printed_json, run_tlc

INF = 1000000          # sentinel for infinite interval bounds on the TLC side
TOL = 1e-9
DS_LABELS = ["a", "b", "ab", "ba", "a_b", "b1", "1", "dataset1", "dataset10"]


# ----------------------------------------------------------------------------------------------- generator
def _iv(rng, points, allow_inf=True, allow_rev=True, on_points=None):
    """One interval [lo, hi]; bounds on the integer grid (or restricted to on_points) and optionally infinite."""
    pool = list(on_points) if on_points is not None else list(points)
    lo_opts = pool + (["-inf"] if allow_inf else [])
    hi_opts = pool + (["inf"] if allow_inf else [])
    if not pool:
        return ["-inf", "inf"]
    lo, hi = rng.choice(lo_opts), rng.choice(hi_opts)
    if isinstance(lo, int) and isinstance(hi, int) and lo > hi and not allow_rev:
        lo, hi = hi, lo
    return [lo, hi]


def _dataset_fullrank(mcs, n_model, n_global):
    """Generator bias only (never a verdict): does the combined dataset matrix have full column rank at every index?"""
    import numpy as np
    labels = []
    for mc in mcs:
        labels += [l for l in mc["labels"] if l not in labels]
    for g in range(n_global):
        A = np.zeros((n_model, len(labels)))
        for mc in mcs:
            cols = mc["cols"][g] if mc["idx"] else mc["cols"]
            for l, c in zip(mc["labels"], cols):
                A[:, labels.index(l)] += mc["scale"] * np.array(c, dtype=float)
        if np.linalg.matrix_rank(A) < len(labels):
            return False
    return True


def gen_case(rng, *, full_model=True, penalties=True, weights=True, two_groups=True, special_labels=True, max_datasets=3):
    grid = [0, 1, 2, 3, 4]
    ngroups = 2 if (two_groups and rng.random() < 0.2) else 1
    groups = []
    datasets = []
    labels_pool = rng.sample(DS_LABELS, len(DS_LABELS)) if special_labels else [f"dataset{i + 1}" for i in range(9)]
    li = 0
    for gi in range(ngroups):
        glabel = "default" if gi == 0 else f"grp{gi}"
        link = rng.choice([True, False, None, None])
        fn = "variable_projection" if rng.random() < 0.7 else "non_negative_least_squares"
        nds = rng.choice([1, 2, 2, 3][: max_datasets + 1])
        group_has_global = False
        names = []
        for _ in range(nds):
            if len(datasets) >= 4:
                break
            n_model = rng.choice([1, 2, 2, 3, 3])
            axis = sorted(rng.sample(grid, rng.choice([1, 2, 2, 3])))
            for _attempt in range(20):
                nmc = rng.choice([1, 1, 2])
                mcs = []
                idxdep = rng.random() < 0.3
                for _k in range(nmc):
                    labs = rng.sample(["a", "b", "c"], rng.choice([1, 2, 2][: max(1, n_model)]))
                    idx = idxdep and rng.random() < 0.7
                    def col():
                        return [rng.choice([0, 1, 1, 2]) for _ in range(n_model)]
                    cols = [[col() for _ in labs] for _ in axis] if idx else [col() for _ in labs]
                    mcs.append({"scale": rng.choice([1, 1, 1, 1, 2]), "labels": labs, "idx": idx, "cols": cols})
                if _dataset_fullrank(mcs, n_model, len(axis)) or rng.random() < 0.05:
                    break
            d = {"label": labels_pool[li], "group": glabel, "axis": axis, "maxis": [], "scale": rng.choice([1, 1, 1, 2, 3]),
                 "data": [[rng.randint(0, 4) for _ in axis] for _ in range(n_model)], "weight": [], "mcs": mcs, "gmcs": [],
                 "transposed": rng.random() < 0.3}
            li += 1
            if weights and rng.random() < 0.25:
                d["weight"] = [[rng.choice([1, 1, 2]) for _ in axis] for _ in range(n_model)]
            if full_model and link is not True and rng.random() < 0.15:
                # full model: keep it tiny (<= 4 unknowns, 0/1 entries)
                for mc in mcs:
                    mc["scale"] = 1
                    mc["labels"] = mc["labels"][:1] if len(mcs) > 1 else mc["labels"]
                    if mc["idx"]:
                        mc["cols"] = [[[min(v, 1) for v in c] for c in cc[: len(mc["labels"])]] for cc in mc["cols"]]
                    else:
                        mc["cols"] = [[min(v, 1) for v in c] for c in mc["cols"][: len(mc["labels"])]]
                glabs = rng.sample(["x", "y"], rng.choice([1, 2]))
                d["gmcs"] = [{"scale": 1, "labels": glabs, "cols": [[rng.choice([0, 1, 1]) for _ in axis] for _ in glabs]}]
                # a local generator (derived from the case so far): the main stream of draws is the one earlier rounds were run with
                lr = random.Random(sum(axis) * 31 + n_model * 7 + len(datasets) * 3 + len(glabs))
                if lr.random() < 0.5:
                    # two global megacomplexes that share a label, with different scales (the megacomplexes of the model dimension keep
                    # scale 1, so the dataset sets global_megacomplex_scale only): the shared column is s1*c1 + s2*c2
                    d["gmcs"][0]["scale"] = lr.choice([1, 2, 3])
                    d["gmcs"].append({"scale": lr.choice([1, 2, 3]), "labels": [glabs[0]], "cols": [[lr.choice([0, 1, 1]) for _ in axis]]})
                d["scale"] = 1
                group_has_global = True
            datasets.append(d)
            names.append(d["label"])
        groups.append({"label": glabel, "link": link, "residual_function": fn, "datasets": names, "has_global": group_has_global})
    all_labels = sorted({l for d in datasets for mc in d["mcs"] for l in mc["labels"]})
    has_global = any(d["gmcs"] for d in datasets)
    case = {"groups": groups, "datasets": datasets, "relations": [], "constraints": [], "penalties": [], "weights": []}
    rel_targets = set()
    rel_sources = set()
    if not has_global and len(all_labels) >= 2 and rng.random() < 0.3:
        s, t = rng.sample(all_labels, 2)
        ivs = [] if rng.random() < 0.4 else [_iv(rng, grid) for _ in range(rng.choice([1, 1, 2]))]
        case["relations"].append({"source": s, "target": t, "param": rng.choice([1, 2]), "ivs": ivs, "single": len(ivs) == 1 and rng.random() < 0.5})
        rel_targets.add(t)
        rel_sources.add(s)
    if not has_global and len(all_labels) >= 2 and not case["relations"] and rng.random() < 0.12:
        # piecewise relation: the same target is related (to the same or to another source, with another parameter) on two DISJOINT
        # parts of the axis; every index must use the relation whose interval it lies in
        t = rng.choice(all_labels)
        others = [l for l in all_labels if l != t]
        s1, s2 = rng.choice(others), rng.choice(others)
        a = rng.choice([0, 1, 2])
        b = a + rng.choice([1, 2])
        p1 = rng.choice([1, 2])
        case["relations"].append({"source": s1, "target": t, "param": p1, "ivs": [["-inf", a]], "single": rng.random() < 0.5})
        case["relations"].append({"source": s2, "target": t, "param": 3 - p1 if s1 == s2 else rng.choice([1, 2]), "ivs": [[b, "inf"]], "single": rng.random() < 0.5})
        rel_targets.add(t)
        rel_sources |= {s1, s2}
    if not has_global and rng.random() < 0.35:
        cands = [l for l in all_labels if l not in rel_targets]      # D7
        if rel_sources and rng.random() < 0.5:
            cands = [l for l in cands if l in rel_sources] or cands   # interacting items: the constraint removes the source of the relation
        if cands:
            ivs = [] if rng.random() < 0.2 else [_iv(rng, grid) for _ in range(rng.choice([1, 1, 2]))]
            typ = rng.choice(["zero", "only"]) if ivs else "zero"
            case["constraints"].append({"type": typ, "target": rng.choice(cands), "ivs": ivs, "single": len(ivs) == 1 and rng.random() < 0.5})
    if penalties and not has_global and len(all_labels) >= 2 and rng.random() < 0.3:
        s, t = rng.sample(all_labels, 2)
        # bounds must be points of every axis the areas are evaluated on (else nearest-point slicing and membership differ, D2)
        common = set(grid)
        for g in groups:
            linked = g["link"] is True or (g["link"] is None and not g["has_global"])
            axes = [set(d["axis"]) for d in datasets if d["group"] == g["label"]]
            if linked:
                common &= set.union(*axes)
            else:
                for a in axes:
                    common &= a
        def piv():
            return [_iv(rng, grid, allow_rev=False, on_points=sorted(common))]
        case["penalties"].append({"source": s, "sivs": [] if rng.random() < 0.4 else piv(), "target": t, "tivs": [] if rng.random() < 0.4 else piv(),
                                  "param": rng.choice([1, 2]), "weight": rng.choice([1, 2])})
    if weights and rng.random() < 0.25:
        cands = [d for d in datasets if not d["weight"]]
        if cands:
            d = rng.choice(cands)
            # one or two model weights on the same dataset (they multiply; each acts on its own intervals, everywhere if it has none)
            for _k in range(rng.choice([1, 1, 2])):
                giv = [] if rng.random() < 0.4 else [_iv(rng, grid, allow_rev=True, on_points=d["axis"])]
                miv = [] if rng.random() < 0.5 else [_iv(rng, grid, allow_rev=True, on_points=list(range(len(d["data"]))))]
                case["weights"].append({"datasets": [d["label"]], "givs": giv, "mivs": miv, "value": 2})
    # alignment tolerance 1 (grid spacing) for linked groups: points one step apart are merged onto the earlier dataset's point
    if not case["penalties"] and not case["weights"] and rng.random() < 0.25:
        case["tol"] = 1
        case["method"] = "nearest"
        # near misses: later datasets of a group sit one step beside the first one's points (several datasets may want to merge onto the same point)
        for g in groups:
            ds = [d for d in datasets if d["group"] == g["label"]]
            base = ds[0]["axis"]
            for d in ds[1:]:
                if len(d["axis"]) == len(base) and max(base) < 4 and rng.random() < 0.6:
                    d["axis"] = [a + 1 for a in base]
    # descending global axes (e.g. wavenumbers): every array stays on the dataset's own coordinates.  Interval slicing (model weights,
    # penalty areas) is specified for increasing axes only (C08), so such items are not combined with a descending axis.
    if not case["penalties"] and not case["weights"]:
        for d in datasets:
            if len(d["axis"]) > 1 and rng.random() < 0.2:
                d["axis"] = d["axis"][::-1]
    return case


# ----------------------------------------------------------------------------------------------- TLC side
def _tb(v):
    return INF if v == "inf" else (-INF if v == "-inf" else v)


def _tivs(ivs):
    return [[_tb(a), _tb(b)] for a, b in ivs]


def to_tlc_groups(case):
    """One TLC case per dataset group (groups contribute independently)."""
    out = []
    for g in case["groups"]:
        ds = [d for d in case["datasets"] if d["group"] == g["label"]]
        out.append({
            "link": "auto" if g["link"] is None else ("true" if g["link"] else "false"),
            "tol": int(case.get("tol", 0)),
            "residual_function": g.get("residual_function", "variable_projection"),
            "datasets": [{"label": d["label"], "axis": d["axis"], "maxis": d.get("maxis") or [], "data": d["data"], "scale": d.get("scale", 1),
                          "weight": d.get("weight") or [], "simclp": d.get("simclp") or [],
                          "mcs": [{"scale": m.get("scale", 1), "labels": m["labels"], "idx": bool(m.get("idx")), "cols": m["cols"]} for m in d["mcs"]],
                          "gmcs": [{"scale": m.get("scale", 1), "labels": m["labels"], "cols": m["cols"]} for m in d.get("gmcs") or []]} for d in ds],
            "relations": [{"source": r["source"], "target": r["target"], "param": r["param"], "ivs": _tivs(r["ivs"])} for r in case.get("relations", [])],
            "constraints": [{"type": c["type"], "target": c["target"], "ivs": _tivs(c["ivs"])} for c in case.get("constraints", [])],
            "penalties": [{"source": p["source"], "sivs": _tivs(p["sivs"]), "target": p["target"], "tivs": _tivs(p["tivs"]), "param": p["param"], "weight": p["weight"]}
                          for p in case.get("penalties", [])],
            "weights": [{"datasets": w["datasets"], "givs": _tivs(w.get("givs") or []), "mivs": _tivs(w.get("mivs") or []), "value": w["value"]}
                        for w in case.get("weights", [])],
        })
    return out


INVS = ["InvEachPointOnce", "InvBestFit", "InvReducedLabels", "InvSharedIffSameIndex"]


def tlc_expected(cases, shards=8, timeout=3000, module="ObjectiveCases", invs=None):
    """Run spec/ObjectiveCases.tla over all groups of all cases. Returns (per case list of per-group expectation, summed TLC results)."""
    flat = []
    index = []
    for ci, c in enumerate(cases):
        for gi, g in enumerate(to_tlc_groups(c)):
            index.append((ci, gi))
            flat.append(g)
    nsh = max(1, min(shards, len(flat) // 50 or 1))
    chunks = [flat[k::nsh] for k in range(nsh)]
    cfg = "SPECIFICATION Spec\nCONSTRAINT Emit\nCHECK_DEADLOCK FALSE\n" + "".join(f"INVARIANT {i}\n" for i in (invs or INVS))

    def one(k):
        with tempfile.TemporaryDirectory(prefix="verif_obj_") as td:
            f = Path(td) / "cases.json"
            f.write_text(json.dumps(chunks[k]))
            res = run_tlc(module, cfg, workers=1, timeout=timeout, env={"CASES_FILE": str(f)}, coverage=False)
        exp = printed_json(res["stdout"], "EXP")
        if len(exp) != len(chunks[k]):
            raise MachineryError(f"ObjectiveCases: {len(exp)} expectations for {len(chunks[k])} cases")
        res["stdout"] = ""
        return res, exp

    with ThreadPoolExecutor(max_workers=nsh) as ex:
        outs = list(ex.map(one, range(nsh)))
    flat_exp = [None] * len(flat)
    for k, (res, exp) in enumerate(outs):
        for j, e in enumerate(exp):
            assert e["i"] == j + 1
            flat_exp[k + j * nsh] = e
    per_case = [[] for _ in cases]
    for (ci, gi), e in zip(index, flat_exp):
        per_case[ci].append(e)
    total = {"spec": module, "mode": "bfs", "distinct": sum(r["distinct"] for r, _ in outs), "generated": sum(r["generated"] for r, _ in outs),
             "wall_s": max(r["wall_s"] for r, _ in outs), "complete": all(r["complete"] for r, _ in outs), "actions": {}}
    return per_case, total


# ----------------------------------------------------------------------------------------------- expected vector
def in_premise(exp_groups):
    return all(b["valid"] for e in exp_groups for b in e["blocks"])


def why_not(exp_groups):
    return sorted({b["why"] for e in exp_groups for b in e["blocks"] if not b["valid"]})


def area(terms):
    return sum((Fraction(n, d) for n, d in terms), Fraction(0))


def expected_penalty_vector(exp_groups, aligned_orders=None):
    """Exact penalty vector (list of Fractions) with provenance tags, in the documented order.
    aligned_orders[gi]: for a linked group the order in which the implementation walks the aligned axis (the property does
    not fix it: each aligned point once); default ascending."""
    vec = []
    tags = []
    add = []
    for gi, e in enumerate(exp_groups):
        blocks = e["blocks"]
        if aligned_orders and aligned_orders.get(gi) is not None and e["linked"]:
            pos = {float(g): k for k, g in enumerate(aligned_orders[gi])}
            if sorted(pos) == sorted(float(b["g"]) for b in blocks):
                blocks = sorted(blocks, key=lambda b: pos[float(b["g"])])
        for b in blocks:
            pos = 0
            for (k, li, nrows) in b["members"]:
                for r in range(nrows):
                    vec.append(Fraction(b["res"][pos], b["den"]))
                    tags.append(("data", gi, k, li, r))
                    pos += 1
        gadd = []
        for plist in e["penalties"]:
            for k, p in enumerate(plist):
                if not p["active"]:
                    continue
                v = abs(area(p["src"]) - p["param"] * area(p["tgt"])) * p["weight"]
                vec.append(v)
                tags.append(("penalty", gi, k))
                gadd.append(v)
        add.append(gadd)
    return vec, tags, add


def close(f: float, q: Fraction, scale: float = 1.0) -> bool:
    qf = float(q)
    return math.isfinite(f) and abs(f - qf) <= TOL * max(1.0, abs(qf), scale)


def real_objective(case, free_model_params=False):
    """Penalty vector of the real code at x0 (+ optimizer), raising whatever the code raises."""
    from .lattice import build, objective
    with warnings.catch_warnings(record=True) as w:
        warnings.simplefilter("always")
        pen, o = objective(build(case, free_model_params=free_model_params))
    return pen, o, w


# ----------------------------------------------------------------------------------------------- exhaustive core (spec/ObjectiveEnum.tla)
def from_tlc_case(tc):
    """A single-group case in TLC's format -> harness case."""
    link = {"true": True, "false": False, "auto": None}[tc["link"]]

    def ivs(x):
        return [[("inf" if b >= INF else ("-inf" if b <= -INF else b)) for b in iv] for iv in x]
    ds = []
    for d in tc["datasets"]:
        ds.append({"label": d["label"], "group": "default", "axis": d["axis"], "maxis": [], "scale": d["scale"], "data": d["data"], "weight": d["weight"],
                   "mcs": d["mcs"], "gmcs": [], "transposed": False})
    return {"groups": [{"label": "default", "link": link, "residual_function": tc["residual_function"], "datasets": [d["label"] for d in ds], "has_global": False}],
            "datasets": ds,
            "relations": [{"source": r["source"], "target": r["target"], "param": r["param"], "ivs": ivs(r["ivs"]), "single": False} for r in tc["relations"]],
            "constraints": [{"type": c["type"], "target": c["target"], "ivs": ivs(c["ivs"]), "single": False} for c in tc["constraints"]],
            "penalties": [{"source": p_["source"], "sivs": ivs(p_["sivs"]), "target": p_["target"], "tivs": ivs(p_["tivs"]), "param": p_["param"], "weight": p_["weight"]}
                          for p_ in tc["penalties"]],
            "weights": []}


def enum_core(workers=16, timeout=3000):
    """Model-check spec/ObjectiveEnum.tla exhaustively and emit every configuration with its exact expectation.
    Returns (tlc result of the checking run, list of (case, [expectation]))."""
    base = "SPECIFICATION Spec\nCHECK_DEADLOCK FALSE\nCONSTANTS\n"
    res = run_tlc("ObjectiveEnum", base + "  LinkSet <- AllLinks\n  Ax1Set <- Axes\nINVARIANT InvAll\n", workers=workers, timeout=timeout, coverage=False)   # -coverage exhausts the heap on the deep recursive operators
    shards = [(l, a) for l in ("true", "false", "auto") for a in ("AxA", "AxB", "AxC")]

    def one(sh):
        l, a = sh
        em = run_tlc("ObjectiveEnum", base + f'  LinkSet = {{"{l}"}}\n  Ax1Set <- {a}\nCONSTRAINT Emit\n', workers=1, timeout=timeout, coverage=False)
        return printed_json(em["stdout"], "ENUM")

    with ThreadPoolExecutor(max_workers=9) as ex:
        outs = list(ex.map(one, shards))
    items = [x for o in outs for x in o]
    return res, [(from_tlc_case(x["case"]), [x["exp"]]) for x in items]


def alignment_family():
    """Every triple of small global axes for three linked datasets with tolerance 1 (one grid step): near misses, chains of merges,
    points that must merge onto an ALIGNED point and not onto another dataset's raw coordinate."""
    axes = [[0], [1], [2], [0, 2], [1, 3]]
    out = []
    for a in axes:
        for b in axes:
            for c in axes:
                ds = []
                for k, (lab, ax) in enumerate((("x", a), ("y", b), ("z", c))):
                    ds.append({"label": lab, "group": "default", "axis": ax, "maxis": [], "scale": 1, "weight": [], "gmcs": [], "transposed": False,
                               "data": [[[(1 + k + 2 * g) % 5, 3, (2 + k + g) % 5][i] for g in range(len(ax))] for i in range(3)],
                               "mcs": [{"scale": 1, "labels": ["a"], "idx": False, "cols": [[1, 1, 2]]}]})
                out.append({"groups": [{"label": "default", "link": True, "residual_function": "variable_projection", "datasets": ["x", "y", "z"], "has_global": False}],
                            "datasets": ds, "relations": [], "constraints": [], "penalties": [], "weights": [], "tol": 1, "method": "nearest"})
    return out
