"""Driver for the code -> spec direction of C18; run in a subprocess with GLOTARAN_VERIF_TRACE set.

Executes the save calls TLC enumerated (no checking here: only the recorded events are consumed) and a few random
histories of ProjectResultRegistry.save / latest-result lookups with result names that share prefixes."""
from __future__ import annotations

import json
import random
import shutil
import sys
import tempfile
import warnings
from pathlib import Path


def main(path: str):
    spec = json.loads(Path(path).read_text())
    warnings.simplefilter("ignore")
    import glotaran.io as gio
    from glotaran.project import Project
    from glotaran.project.project_result_registry import ProjectResultRegistry
    from glotaran.testing.plugin_system import monkeypatch_plugin_registry

    from .c18_fixtures import objects
    from .c18_project import NAMES
    from .c18_save import OBJ_OF, build_tree, register_failing_plugins

    base = Path(tempfile.mkdtemp(prefix="verif_c18drv_"))
    try:
        objs = objects("save")
        with monkeypatch_plugin_registry(test_data_io={}, test_project_io={}):
            register_failing_plugins()
            for n, case in enumerate(spec["cases"]):
                call = case["call"]
                target = build_tree(base / f"case{n}", call)
                try:
                    getattr(gio, call["fn"])(objs[OBJ_OF[call["fn"]]], target, format_name=None if call["infer"] else call["fmt"], allow_overwrite=call["allow"])
                except Exception:  # noqa: BLE001
                    pass
                shutil.rmtree(base / f"case{n}", ignore_errors=True)
        rng = random.Random(spec["seed"])
        for h in range(spec["histories"]):
            folder = base / f"proj{h}"
            proj = Project.open(folder)
            reg = ProjectResultRegistry(folder)
            names = NAMES + ["plain"]
            for _ in range(8):
                name = rng.choice(names)
                op = rng.choice(["save", "save", "latest", "specifier", "missing"])
                try:
                    if op == "save":
                        reg.save(name, objs["result"])
                    elif op == "latest":
                        proj.get_result_path(name, latest=True)
                    elif op == "specifier":
                        proj.get_result_path(f"{name}_run_{rng.randrange(3):04}")
                    else:
                        proj.get_latest_result_path(rng.choice(names))
                except Exception:  # noqa: BLE001
                    pass
            shutil.rmtree(folder, ignore_errors=True)
    finally:
        shutil.rmtree(base, ignore_errors=True)


if __name__ == "__main__":
    main(sys.argv[1])
