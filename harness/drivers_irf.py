"""Shared drivers for C05 / C07: model builders around the real megacomplexes, the elementary-function
interpreter (the only numeric code on the oracle side), TLC case parsing.

Everything that is compared comes either from the TLC-emitted case (exact rationals [num, den]) or from the
implementation's own kernels evaluated on a *plain* IRF (differential checks).  No special function, no
quadrature, no linear solver on the oracle side.
"""
from __future__ import annotations

import json
import math
import os
import re

# numba's parallel kernels cost ~20 ms per call with 16 threads on a loaded machine and 0.3 ms with 2;
# 2 threads keep the prange path multi-threaded (the thread count is C10's subject, not C05/C07's).
os.environ.setdefault("NUMBA_NUM_THREADS", "2")

import numpy as np  # noqa: E402

_STATE: dict = {}


def fr(x) -> float:
    """exact rational [num, den] -> nearest double"""
    return x[0] / x[1]


def frs(xs):
    return [fr(x) for x in xs]


# ----------------------------------------------------------------------------- elementary interpreter
OMEGA_PER_WAVENUMBER = 2 * math.pi * 0.03  # documented in the megacomplex: cm^-1 -> rad/ps ("0.03 = c * ps")


def osc_cos(gamma, nu, t):
    """Re exp(-gamma t - i omega t)"""
    return math.exp(-gamma * t) * math.cos(OMEGA_PER_WAVENUMBER * nu * t)


def osc_sin(gamma, nu, t):
    """Im exp(-gamma t - i omega t) = -exp(-gamma t) sin(omega t)"""
    return -math.exp(-gamma * t) * math.sin(OMEGA_PER_WAVENUMBER * nu * t)


def tail(gamma, omega, d, w):
    """exp(k^2 w^2/2 - k d), k = gamma + i omega, as (re, im); d = t - c.  Elementary: exp, cos, sin."""
    re = (gamma * gamma - omega * omega) * w * w / 2 - gamma * d
    im = gamma * omega * w * w - omega * d
    if re < -745:
        return 0.0, 0.0
    m = math.exp(re)
    return m * math.cos(im), m * math.sin(im)


def decay_tail(exponent: float) -> float:
    return 0.0 if exponent < -745 else math.exp(exponent)


def gauss_of_arg(garg: float) -> float:
    return 0.0 if garg > 745 else math.exp(-garg)


def shape_gauss(amp, usq):
    """A 2^(-u^2)"""
    return amp * math.exp(-math.log(2) * usq)


def shape_skew(amp, theta, b):
    """A exp(-ln2 (ln theta / b)^2) for theta > 0, else 0"""
    if theta <= 0:
        return 0.0
    return amp * math.exp(-math.log(2) * (math.log(theta) / b) ** 2)


# ----------------------------------------------------------------------------- real-code side
def glot():
    """Lazy import of glotaran (from $VERIF_REPO via PYTHONPATH) and the model class with all five megacomplexes."""
    if "M" not in _STATE:
        from glotaran.builtin.megacomplexes.coherent_artifact import CoherentArtifactMegacomplex
        from glotaran.builtin.megacomplexes.damped_oscillation import DampedOscillationMegacomplex
        from glotaran.builtin.megacomplexes.decay import DecayMegacomplex
        from glotaran.builtin.megacomplexes.pfid import PFIDMegacomplex
        from glotaran.builtin.megacomplexes.spectral import SpectralMegacomplex
        from glotaran.model import Model, fill_item
        from glotaran.parameter import Parameters

        _STATE["M"] = Model.create_class_from_megacomplexes(
            [DecayMegacomplex, DampedOscillationMegacomplex, CoherentArtifactMegacomplex, PFIDMegacomplex, SpectralMegacomplex])
        _STATE["fill_item"] = fill_item
        _STATE["Parameters"] = Parameters
    return _STATE


def irf_items(cfg: dict, shifts) -> tuple[dict, dict]:
    """Model item + parameter groups of the IRF of an IrfIndex configuration (the attribute names of irf.py)."""
    nc, nw = cfg["nc"], cfg["nw"]
    ng = max(nc, nw)
    spectral = cfg["spectral"]
    if cfg["scalar"]:
        item = {"type": "spectral-gaussian" if spectral else "gaussian", "center": "irfc.1", "width": "irfw.1"}
    else:
        item = {"type": "spectral-multi-gaussian" if spectral else "multi-gaussian",
                "center": [f"irfc.{g + 1}" for g in range(nc)], "width": [f"irfw.{g + 1}" for g in range(nw)]}
    pars = {"irfc": frs(cfg["centres"]), "irfw": frs(cfg["widths"])}
    if cfg["hasScale"]:
        item["scale"] = [f"irfs.{g + 1}" for g in range(ng)]
        pars["irfs"] = frs(SCALE_TAB[:ng])
    if cfg["shiftVar"] != 0:
        item["shift"] = [f"irfsh.{i + 1}" for i in range(len(shifts))]
        pars["irfsh"] = frs(shifts)
    if spectral:
        item["dispersion_center"] = "irfdc.1"
        pars["irfdc"] = [float(cfg["dcentre"])]
        item["center_dispersion_coefficients"] = [f"irfcd.{k + 1}" for k in range(len(cfg["cdisp"]))]
        if cfg["cdisp"]:
            pars["irfcd"] = frs(cfg["cdisp"])
        if cfg["wdisp"]:
            item["width_dispersion_coefficients"] = [f"irfwd.{k + 1}" for k in range(len(cfg["wdisp"]))]
            pars["irfwd"] = frs(cfg["wdisp"])
        item["model_dispersion_with_wavenumber"] = bool(cfg["wn"])
    item["normalize"] = bool(cfg["normalize"])
    if cfg.get("backsweep"):
        item["backsweep"] = True
        item["backsweep_period"] = "irfbs.1"
        pars["irfbs"] = [BACKSWEEP_PERIOD]
    return item, pars


BACKSWEEP_PERIOD = 13.0
SCALE_TAB = [[5, 2], [3, 1], [1, 2]]  # IrfIndex!ScaleTab (cross-checked against the emitted eff.scales by the callers)


def plain_irf_items(centres, widths, scales, normalize: bool, scalar: bool = False, backsweep: bool = False) -> tuple[dict, dict]:
    """The plain (no shift, no dispersion) Gaussian IRF with the given float centres / widths / scales."""
    if scalar and len(centres) == 1:
        item = {"type": "gaussian", "center": "irfc.1", "width": "irfw.1"}
    else:
        item = {"type": "multi-gaussian", "center": [f"irfc.{g + 1}" for g in range(len(centres))],
                "width": [f"irfw.{g + 1}" for g in range(len(widths))]}
    pars = {"irfc": list(centres), "irfw": list(widths)}
    if scales is not None:
        item["scale"] = [f"irfs.{g + 1}" for g in range(len(scales))]
        pars["irfs"] = list(scales)
    item["normalize"] = bool(normalize)
    if backsweep:
        item["backsweep"] = True
        item["backsweep_period"] = "irfbs.1"
        pars["irfbs"] = [BACKSWEEP_PERIOD]
    return item, pars


def build(megacomplex: dict, irf_item: dict | None, pars: dict, extra_model: dict | None = None, dataset_extra: dict | None = None):
    """-> (filled dataset model, megacomplex instance).  One dataset 'd', one megacomplex 'm'."""
    g = glot()
    spec = {"megacomplex": {"m": megacomplex}, "dataset": {"d": {"megacomplex": ["m"]}}}
    if irf_item is not None:
        spec["irf"] = {"i": irf_item}
        spec["dataset"]["d"]["irf"] = "i"
    if extra_model:
        for k, v in extra_model.items():
            spec[k] = v
    if dataset_extra:
        spec["dataset"]["d"].update(dataset_extra)
    model = g["M"](**spec)
    parameters = g["Parameters"].from_dict({k: [float(x) for x in v] for k, v in pars.items()})
    dm = g["fill_item"](model.dataset["d"], model, parameters)
    return dm, dm.megacomplex[0], model, parameters


RATES = [0.0625, 1.0, 8.0]


def decay_parts(rates=RATES):
    """One DecayMegacomplex, diagonal K, every compartment excluded from normalisation with j = 1:
    A = identity, so the column of compartment s_j is the pure convolution of exp(-k_j t)."""
    n = len(rates)
    comps = [f"s{j + 1}" for j in range(n)]
    mega = {"type": "decay", "k_matrix": ["km"]}
    extra = {"k_matrix": {"km": {"matrix": {(c, c): f"kin.{j + 1}" for j, c in enumerate(comps)}}},
             "initial_concentration": {"j0": {"compartments": comps, "parameters": [f"jj.{j + 1}" for j in range(n)],
                                              "exclude_from_normalize": comps}}}
    pars = {"kin": list(rates), "jj": [1.0] * n}
    return mega, extra, {"initial_concentration": "j0"}, pars, comps


def decay_matrix(irf_item, irf_pars, global_axis, times, rates=RATES):
    mega, extra, dsx, pars, comps = decay_parts(rates)
    pars = {**pars, **irf_pars}
    dm, mc, _, _ = build(mega, irf_item, pars, extra, dsx)
    labels, mat = mc.calculate_matrix(dm, np.asarray(global_axis, dtype=float), np.asarray(times, dtype=float))
    labels = list(labels)
    idx = [labels.index(c) for c in comps]
    return dm, np.asarray(mat)[..., idx]


def by_label(labels, mat, wanted):
    labels = list(labels)
    return np.asarray(mat)[..., [labels.index(w) for w in wanted]]


# ----------------------------------------------------------------------------- TLC output
_CASE = re.compile(r'^<<"(\w+)", (".*")>>$')


def parse_emitted(stdout: str) -> dict[str, list]:
    """tag -> list of distinct payloads (a CONSTRAINT is evaluated once per generated state, so TLC prints a
    complete state once per incoming edge; duplicates are dropped by content)."""
    out: dict[str, list] = {}
    seen: set = set()
    for line in stdout.splitlines():
        line = line.strip()
        if not line.startswith('<<"'):
            continue
        m = _CASE.match(line)
        if not m:
            continue
        raw = m.group(2)
        if raw in seen:
            continue
        seen.add(raw)
        out.setdefault(m.group(1), []).append(json.loads(json.loads(raw)))
    return out


def close(a, b, scale, rel=1e-9):
    return abs(a - b) <= rel * scale


def feature_class(cfg: dict) -> str:
    """Which IRF feature distinguishes the configuration (for violation keys: one key per feature, not per number)."""
    if cfg["shiftVar"] != 0:
        return "irf with shift"
    if cfg["spectral"] and (cfg["cdisp"] or cfg["wdisp"]):
        return "irf with dispersion"
    if cfg["spectral"]:
        return "spectral irf without coefficients"
    return "plain irf"
