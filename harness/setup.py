"""MANIFEST.setup_cmd: offline; parse every spec module with SANY, byte-compile the harness, create output dirs."""
from __future__ import annotations

import compileall
import sys

from .core import EVIDENCE, REPLAYS, SPEC, VERIF
from .tlc import sany


def main() -> int:
    EVIDENCE.mkdir(exist_ok=True)
    REPLAYS.mkdir(exist_ok=True)
    ok = True
    for f in sorted(SPEC.glob("*.tla")):
        if f.name.startswith("MC_"):
            continue
        good = sany(f)
        print(("ok   " if good else "FAIL ") + f.name)
        ok &= good
    ok &= bool(compileall.compile_dir(str(VERIF / "harness"), quiet=1, legacy=False, workers=1, ddir=None, optimize=0))
    import glotaran  # noqa: F401  (the checks import it from /repo's working tree)
    print("glotaran from", glotaran.__file__)
    return 0 if ok else 1


if __name__ == "__main__":
    sys.exit(main())
