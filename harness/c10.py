"""C10 — the objective is pure and deterministic; optimize() leaves its inputs unchanged.

spec/Optimizer.tla (purity part: memo, provider list lengths, snapshot) is model-checked as written and with the
`clear` conjunct removed (the design-level mutant must violate Pure).  TLC's behaviours drive the real
`Optimizer(scheme).objective_function`: every controllable edge of the small graph (path re-execution on a fresh
optimizer, state compared after every step) and simulated walks of length 30, on lattice schemes with penalties /
relations / constraints, builtin kinetic schemes with a Gaussian IRF and a fault megacomplex for evaluations that
raise in between.  The walks are repeated in subprocesses with NUMBA_NUM_THREADS in {1, 2, 4, 16} and in a fresh
process; penalty ids are content digests so the per-process traces join in one memo, in python and in
spec/OptimizerTrace.tla.  optimize() twice => identical Result numbers, all three methods; the caller's parameters,
model, data and weights are compared before / after.
"""
from __future__ import annotations

import json
import tempfile
from collections import defaultdict
from pathlib import Path

from . import c15_trace as T
from .c10_schemes import BOUNDED
from .c15 import cfg, fix_actions
from .core import REPO, Check, MachineryError, seed
from .tlc import printed_json, require_actions, run_tlc
from .trace import py, pytest_cmd, record

METHODS = ["TrustRegionReflection", "Dogbox", "Levenberg-Marquardt"]
CORRUPT = 1000000
PURE_INVARIANTS = ["TypeOK", "ShapesStable", "SchemeUntouched", "HistoryShape"]
PURE_PROPERTIES = ["Pure", "InputsUntouched"]
SCHEMES = ["lat-unlinked", "lat-linked", "decay-irf", "decay-2ds-linked", "fault-nnls", "decay-free-inputs"]
NAN_RAISES = {"decay-irf", "fault-nnls"}          # schemes whose fault group uses NNLS: a NaN matrix raises inside estimate()


def pure_cfg(maxdirect, clear=True, emit=False, cap=3):
    extra = ["VIEW PureView"]
    if emit:
        extra = ["ACTION_CONSTRAINT EmitEdge"]
    invs = PURE_INVARIANTS if clear and not emit else []
    props = (PURE_PROPERTIES if clear else ["Pure"]) if not emit else []
    return cfg([1, 2, 3], 0, 0, ["exception"], ["TrustRegionReflection"], [True], [False], "InvalidNone", direct=True, maxdirect=maxdirect,
               clear=clear, cap=cap, nomp="{0,1}", noml="{1}", invs=invs, props=props, extra=extra)


def model_check(chk: Check, tier: str):
    n = 6 if tier == "quick" else 7
    res = fix_actions(run_tlc("Optimizer", pure_cfg(n), workers=8, timeout=1500))
    require_actions(res, ["Construct", "DirectEvalP", "DirectEvalFail"])
    chk.add_tlc(res, f"Optimizer[purity, 3 points, histories <= {n}, as written]")
    mut = fix_actions(run_tlc("Optimizer", pure_cfg(n, clear=False), workers=4, timeout=600, allow_violation=True))
    if not mut["violated"] or "Pure" not in str(mut["violated"]):
        raise MachineryError(f"design-level mutant (no clear) does not violate Pure: violated={mut['violated']}")
    chk.extra["design_mutant_no_clear"] = f"violates Pure after {mut['distinct']} states"
    chk.tlc_runs.append({"spec": "Optimizer[purity, clear removed: must violate Pure]", "states": mut["distinct"], "transitions": mut["generated"],
                         "wall_s": mut["wall_s"], "complete": False, "mode": "bfs", "coverage_by_action": mut.get("actions", {})})


# ---------------------------------------------------------------------------------------------- graph
def skey(st: dict):
    return (tuple(st["memo"]), st["lp"]["g"], st["lc"]["d"], st["lr"]["d"], st["n"], st["last"], st["nomp"], st["noml"])


def emit_graph(chk: Check, depth: int):
    res = run_tlc("OptimizerEmit", pure_cfg(depth, emit=True), workers=1, timeout=1500, coverage=False)
    raw = printed_json(res["stdout"], "EDGE")
    if not raw:
        raise MachineryError("OptimizerEmit printed no EDGE line")
    chk.add_tlc(res, f"OptimizerEmit[purity graph, histories <= {depth}]")
    succ = defaultdict(set)
    for e in raw:
        s, d = e["src"], e["dst"]
        if d["n"] != s["n"] + 1:
            continue
        label = ("eval", e["pen"]) if e["op"] == "ok" else ("fail", 0)
        succ[(skey(s), label)].add(skey(d))
    return succ


class SchemeCtx:
    """Per scheme: the built scheme (reused: the check verifies that nothing mutates it), reference digests, nominal lengths."""

    def __init__(self, name: str):
        from .c10_driver import Walker
        from .c10_schemes import build
        from .c15_models import FAULT
        self.name = name
        self.built = build(name)
        FAULT.reset()
        w = Walker(self.built[0], self.built[1][0], self.built[1][1])
        st = w.step("eval", 1)
        self.nominal = st["lens"]
        self.ref = {1: st["pen"]}
        self.nomp = 1 if any(v > 0 for v in self.nominal["lp"]) else 0
        self.failkinds = ["exception"] + (["nan"] if name in NAN_RAISES else [])

    def codes(self, lens):
        return tuple(T._agg(lens[k], self.nominal[k]) for k in ("lp", "lc", "lr"))


def replay_graph(chk: Check, ctx: SchemeCtx, succ, depth: int):
    """Every controllable label from every state the implementation reaches; observed state must be a spec successor."""
    from .c10_driver import Walker
    from .c15_driver import snapshot, snapshot_diff
    from .c15_models import FAULT
    scheme, (labels, points) = ctx.built
    before = snapshot(scheme)
    init = ((0, 0, 0), 0, 0, 0, 0, "none", ctx.nomp, 1)
    visited = {init}
    stack = [(init, [])]
    executed = 0
    all_labels = [("eval", x, "") for x in (1, 2, 3)] + [("fail", x, fk) for x in (1, 2, 3) for fk in ctx.failkinds]
    while stack:
        key, path = stack.pop()
        if key[4] >= depth:
            continue
        for op, x, fk in all_labels:
            spec_label = ("eval", x) if op == "eval" else ("fail", 0)
            allowed = succ.get((key, spec_label))
            if not allowed:
                raise MachineryError(f"no specification edge for {spec_label} from {key}")
            FAULT.reset()
            w = Walker(scheme, labels, points)
            memo = [0, 0, 0]
            n = 0
            bad_path = False
            obs = None
            for pop_, px, pfk in path + [(op, x, fk)]:
                w.failkind = pfk or "exception"
                obs = w.step(pop_, px)
                chk.evaluations += 1
                n += 1
                if pop_ == "eval" and obs["err"]:
                    hist_ = " ".join(f"{a}{b}{('/' + c) if c else ''}" for a, b, c in path + [(op, x, fk)])
                    chk.violation(f"objective[{ctx.name}]: an evaluation without fault raises ({obs['err'].split(':')[1]}) after {'a failed evaluation' if any(p[0] == 'fail' for p in path) else 'successful evaluations'}",
                                  f"evaluation {n} of '{hist_}' (point {px}, no fault injected) {obs['err']}; evaluated on a fresh optimizer the same point gives a penalty vector",
                                  {"engine": "c10-path", "scheme": ctx.name, "path": path + [(op, x, fk)]})
                    bad_path = True
                    break
                if pop_ == "eval":
                    ref = ctx.ref.setdefault(px, obs["pen"])
                    val = px if obs["pen"] == ref and obs["finite"] else CORRUPT
                    memo[px - 1] = val if memo[px - 1] in (0, px) else CORRUPT
                elif obs["err"] == "cached":
                    ref = ctx.ref.get(px)
                    if ref is not None and (obs["pen"] != ref or not obs["finite"]):
                        hist_ = " ".join(f"{a}{b}{('/' + c) if c else ''}" for a, b, c in path + [(op, x, fk)])
                        chk.violation(f"objective[{ctx.name}]: a point answered without calling the model gets another penalty vector",
                                      f"evaluation {n} of '{hist_}' (point {px}) was answered without evaluating the model and differs from the penalty vector of that point", 
                                      {"engine": "c10-path", "scheme": ctx.name, "path": path + [(op, x, fk)]})
                    bad_path = True       # no model call, hence no failure: the specification's fail edge was not taken; nothing to extend
                    break
                elif obs["err"] in ("", "no-exception"):
                    hist_ = " ".join(f"{a}{b}{('/' + c) if c else ''}" for a, b, c in path + [(op, x, fk)])
                    chk.violation(f"objective[{ctx.name}]: a raising model evaluation returns a penalty",
                                  f"evaluation {n} of '{hist_}': the model raised ({pfk}) inside objective_function but a penalty vector was returned",
                                  {"engine": "c10-path", "scheme": ctx.name, "path": path + [(op, x, fk)]})
                    bad_path = True
                    break
            if bad_path:
                continue
            lp, lc, lr = ctx.codes(obs["lens"])
            dst = (tuple(memo), lp, lc, lr, n, "ok" if op == "eval" else "fail", ctx.nomp, 1)
            executed += 1
            hist = " ".join(f"{a}{b}{('/' + c) if c else ''}" for a, b, c in path + [(op, x, fk)])
            rep = {"engine": "c10-path", "scheme": ctx.name, "path": path + [(op, x, fk)]}
            if dst not in allowed:
                why = []
                if CORRUPT in memo:
                    why.append(f"the penalty vector at point {memo.index(CORRUPT) + 1} differs from the one obtained for the same point before")
                if op == "eval" and (lp, lc, lr) != (ctx.nomp, 1, 1):
                    why.append(f"provider lists do not have their per-evaluation lengths (codes {lp, lc, lr}, raw {obs['lens']}, per evaluation {ctx.nominal})")
                chk.violation(f"objective[{ctx.name}]: history '{hist}' leaves the specification", f"after evaluations {hist}: " + ("; ".join(why) or f"state {dst} is not a successor"), rep)
                continue
            if len(path) >= 1 and op == "eval" and any(p[1] != x for p in path) and any(p[0] == "eval" and p[1] == x for p in path):
                chk.nontriv(f"{ctx.name}:{hist}")
            if executed % 211 == 7:
                chk.sample({"scheme": ctx.name, "history": hist, "state": {"memo": list(memo), "list_length_codes": [lp, lc, lr], "n": n}})
            if dst not in visited:
                visited.add(dst)
                stack.append((dst, path + [(op, x, fk)]))
    changed = snapshot_diff(before, snapshot(scheme))
    if changed:
        chk.violation(f"objective[{ctx.name}]: evaluations change the caller's scheme: {changed}", f"Optimizer(scheme).objective_function modified {changed}", {"engine": "c10-path", "scheme": ctx.name, "path": []})
    chk.traces += executed
    return len(visited), executed


# ---------------------------------------------------------------------------------------------- walks
def simulated_walks(chk: Check, nwalks: int, length: int):
    c = cfg([1, 2, 3], 0, 0, ["exception"], ["TrustRegionReflection"], [True], [False], "InvalidNone", direct=True, maxdirect=length, cap=0,
            invs=["EmitWalk"], props=[], extra=[f"CONSTANT WalkLen = {length}"]).replace("SPECIFICATION Spec", "INIT WalkInit\nNEXT WalkNext")
    res = run_tlc("OptimizerWalk", c, workers=1, timeout=600, simulate=f"num={nwalks}", depth=length + 3, seed=seed(), coverage=False)
    walks = printed_json(res["stdout"], "WALK")
    uniq, seen = [], set()
    for w in walks:
        k = json.dumps(w)
        if k not in seen:
            seen.add(k)
            uniq.append([[a, int(b)] for a, b in w])
    if not uniq:
        raise MachineryError("OptimizerWalk printed no walk\n" + res["stdout"][-1500:])
    chk.tlc_runs.append({"spec": f"OptimizerWalk[simulate num={nwalks}, length {length}]", "states": None, "transitions": None, "wall_s": res["wall_s"],
                         "complete": False, "mode": "simulate", "coverage_by_action": {}})
    # spread: one third of the failing steps, so that most evaluations succeed
    import random
    rng = random.Random(seed())
    out = []
    for w in uniq:
        w2 = [[("eval" if (op == "fail" and rng.random() < 0.6) else op), x] for op, x in w]
        out.append(w2)
    rng.shuffle(out)
    return out[:nwalks]


def jobs_for(tier: str, walks):
    jobs = []
    per = 2 if tier == "quick" else 6
    for i, name in enumerate(SCHEMES):
        mine = [walks[(i * per + j) % len(walks)] for j in range(per)]
        jobs.append({"scheme": name, "walks": mine[: per // 2 or 1], "failkind": "exception"})
        if name in NAN_RAISES:
            jobs.append({"scheme": name, "walks": mine[per // 2:], "failkind": "nan"})
        else:
            jobs.append({"scheme": name, "walks": mine[per // 2:], "failkind": "exception"})
    for name in SCHEMES:
        for m in METHODS:
            if m == "Levenberg-Marquardt" and name in BOUNDED:
                continue
            jobs.append({"scheme": name, "optimize": m, "max_nfev": 12 if tier == "quick" else 40})
    return jobs


def run_inprocess(chk: Check, jobs, ctxs):
    """Reference run in this process: fills the reference digests; checks purity, twice-identical, inputs untouched."""
    from .c10_driver import run_optimize, run_walk
    ref = {}
    run = 0
    for job in jobs:
        ctx = ctxs[job["scheme"]]
        if "walks" in job:
            for walk in job["walks"]:
                obs = run_walk(job["scheme"], walk, job.get("failkind", "exception"), built=ctx.built)
                judge_walk(chk, obs, walk, ctx, "in-process")
                ref[run] = obs
                run += 1
        else:
            obs = run_optimize(job["scheme"], job["optimize"], job.get("max_nfev"), built=ctx.built)
            judge_optimize(chk, obs, None, "in-process")
            ref[run] = obs
            run += 1
    return ref


def judge_walk(chk: Check, obs, walk, ctx: SchemeCtx, where: str):
    name = obs["scheme"]
    revisits = False
    seen_pts = []
    for i, st in enumerate(obs["steps"]):
        chk.evaluations += 1
        hist = " ".join(f"{a}{b}" for a, b in walk[: i + 1])
        rep = {"engine": "c10-walk", "scheme": name, "walk": walk[: i + 1], "failkind": obs.get("failkind", "exception"), "where": where}
        if st["op"] == "eval":
            if st["err"]:
                chk.violation(f"objective[{name}]: an evaluation without fault raises ({where})",
                              f"{where}: after evaluations '{hist}' the evaluation of point {st['point']} (no fault injected) {st['err']}", rep)
                break
            ref = ctx.ref.setdefault(st["point"], st["pen"])
            if st["pen"] != ref:
                chk.violation(f"objective[{name}]: penalty vector at point {st['point']} not reproduced ({where})",
                              f"{where}: after evaluations '{hist}' the penalty vector at point {st['point']} has digest {st['pen']} (size {st['size']}), reference {ref}", rep)
            if ctx.codes(st["lens"]) != (ctx.nomp, 1, 1):
                chk.violation(f"objective[{name}]: provider list lengths drift ({where})",
                              f"{where}: after '{hist}' lengths are {st['lens']}, per evaluation {ctx.nominal}", rep)
            if st["point"] in seen_pts and seen_pts[-1] != st["point"]:
                revisits = True
            seen_pts.append(st["point"])
        elif st["err"] == "cached":
            ref = ctx.ref.get(st["point"])
            if ref is not None and st["pen"] != ref:
                chk.violation(f"objective[{name}]: a point answered without calling the model gets another penalty vector ({where})",
                              f"{where}: after '{hist}' point {st['point']} was answered without evaluating the model, digest {st['pen']}, reference {ref}", rep)
            break
        elif st["err"] in ("", "no-exception"):
            chk.violation(f"objective[{name}]: a raising model evaluation returns a penalty ({where})",
                          f"{where}: after '{hist}' the model raised inside objective_function but a penalty vector was returned", rep)
            break
    if obs["changed"]:
        chk.violation(f"objective[{name}]: evaluations change the caller's scheme: {obs['changed']}",
                      f"{where}: Optimizer(scheme).objective_function modified {obs['changed']}", {"engine": "c10-walk", "scheme": name, "walk": walk, "where": where})
    if revisits:
        chk.nontriv(f"{name}:{where}:{json.dumps(walk)[:200]}")


def judge_optimize(chk: Check, obs, ref, where: str):
    name, method = obs["scheme"], obs["method"]
    chk.evaluations += 2
    rep = {"engine": "c10-optimize", "scheme": name, "method": method, "where": where}
    a, b = obs["results"]
    if obs.get("error"):
        chk.violation(f"optimize[{name}, {method}]: raises {obs['error'].split(':')[0]} on a valid scheme", f"{where}: optimize(scheme) raised {obs['error']}", rep)
        return
    diff = sorted(k for k in a if a[k] != b.get(k))
    if diff:
        chk.violation(f"optimize[{name}, {method}]: second optimisation of the same scheme differs in {diff}",
                      f"{where}: optimize(scheme) twice: {[(k, a[k], b.get(k)) for k in diff][:4]}", rep)
    for i, ch in enumerate(obs["changed"]):
        if ch:
            chk.violation(f"optimize[{name}]: caller's inputs changed: {ch}", f"{where}: after optimize() number {i + 1} ({method}) the caller's {ch} differ from before", rep)
            break
    if ref is not None:
        d = sorted(k for k in a if a[k] != ref["results"][0].get(k))
        if d:
            chk.violation(f"optimize[{name}, {method}]: result differs between processes / thread counts in {d}",
                          f"{where} vs reference process: {[(k, a[k], ref['results'][0].get(k)) for k in d][:4]}", rep)
    chk.nontriv(f"optimize:{name}:{method}:{where}")


def run_subprocesses(chk: Check, tier: str, jobs, ctxs, ref):
    """Same jobs in subprocesses (hooks on): thread counts 1, 2, 4, 16 and a fresh process with the default."""
    configs = [("threads=1", {"NUMBA_NUM_THREADS": "1"}), ("threads=2", {"NUMBA_NUM_THREADS": "2"}), ("threads=4", {"NUMBA_NUM_THREADS": "4"}),
               ("threads=16", {"NUMBA_NUM_THREADS": "16"}), ("fresh-default", {})]
    families = {name: T.Family(name) for name in SCHEMES}
    all_traces = []
    with tempfile.TemporaryDirectory(prefix="verif_c10_") as td:
        f = Path(td) / "jobs.json"
        f.write_text(json.dumps(jobs))
        for where, env in configs:
            events = record(py("-m", "harness.c10_driver", str(f)), timeout=3000, env_extra=env)
            runs = T.split_runs(events)
            if len(runs) != len(ref):
                raise MachineryError(f"{where}: {len(runs)} runs recorded, {len(ref)} expected")
            for i, run in enumerate(runs):
                end = run[-1]
                obs, plan = end["obs"], end["plan"]
                ctx = ctxs[obs["scheme"]]
                if "walk" in plan:
                    judge_walk(chk, obs, plan["walk"], ctx, where)
                else:
                    judge_optimize(chk, obs, ref[i], where)
                # one trace per optimizer object: a walk has one, optimize-twice has two (scipy's own schedule, full life cycle)
                segments = [run] if "walk" in plan else T.split_optimizers(run)
                for seg in segments:
                    fam = families[obs["scheme"]] if "walk" in plan else T.Family()
                    memo0 = [[x, p] for x, p in sorted(fam.memo.items())]
                    try:
                        t = T.normalise(seg, fam)
                    except T.Skip as s:
                        chk.skip(f"trace outside the model: {s}")
                        continue
                    t["init"]["memo0"] = memo0
                    t["_where"], t["_plan"], t["_scheme"] = where, plan, obs["scheme"]
                    t["_npoints"] = len(fam.raw)
                    all_traces.append(t)
    npoints = max(t["_npoints"] for t in all_traces)

    def key_of(t, e, clause):
        what = "walk" if "walk" in t["_plan"] else f"optimize/{t['_plan'].get('optimize')}"
        if clause == "Pure":
            return f"objective[{t['_scheme']}]: penalty vector at a point seen before not reproduced (trace, {what})"
        if clause in ("ShapesStable", "InputsUntouched", "HistoryShape"):
            return f"trace[{t['_scheme']}, {what}]: violates {clause}"
        if clause == "step":
            return f"trace[{t['_scheme']}, {what}]: event {e['ev']} is not a step of the specification"
        return f"trace[{t['_scheme']}, {what}]: violates {clause}"

    acc = T.check_traces(chk, "walks and optimisations, 5 process configurations", all_traces, npoints, key_of,
                         describe=lambda t: f"{t['_where']} {json.dumps(t['_plan'])[:300]}",
                         replay_of=lambda t: {"engine": "c10-trace", "scheme": t["_scheme"], "plan": t["_plan"], "where": t["_where"]})
    chk.traces += acc
    return all_traces, npoints


def trace_selftest(chk: Check, traces, npoints):
    import copy
    for t in traces:
        oks = [e for e in t["events"] if e["ev"] == "eval_ok"]
        xs = [e["x"] for e in oks]
        dup = next((e for i, e in enumerate(oks) if e["x"] in xs[:i]), None)
        if dup is None:
            continue
        own = T.validate([copy.deepcopy(t)], npoints)
        if own["inv"] or not own["verdict"] or own["verdict"][0] != 0:
            continue            # only an ACCEPTED trace can show that a corruption is what gets rejected
        bad = copy.deepcopy(t)
        victim = next(e for e in bad["events"] if e["ev"] == "eval_ok" and e.get("_seq") == dup.get("_seq"))
        victim["pen"] = 999999
        out = T.validate([bad], npoints)
        line = bad["events"].index(victim) + 1
        if out["inv"] or not out["verdict"] or out["verdict"][0] != line or T.diagnose(bad, line) != "Pure":
            raise MachineryError(f"binding self-test failed: a corrupted penalty id was not rejected as impure ({out['inv']}, {out['verdict']}, line {line})")
        bad = copy.deepcopy(t)
        victim = next(e for e in bad["events"] if e["ev"] == "eval_ok" and e.get("_seq") == dup.get("_seq"))
        victim["lp"] = 3
        out = T.validate([bad], npoints)
        if out["verdict"] and out["verdict"][0] == 0:
            raise MachineryError("binding self-test failed: a grown penalty list was accepted")
        chk.extra["trace_binding_selftest"] = ["corrupted penalty id rejected (Pure)", "grown _clp_penalty rejected"]
        return
    if chk.violations:
        chk.extra["trace_binding_selftest"] = "skipped: no accepted trace revisits a point (the run already reports violations)"
        return
    raise MachineryError("binding self-test found no accepted trace that revisits a point")


# ---------------------------------------------------------------------------------------------- inputs with expressions
def expression_probes(chk: Check, only=None):
    """optimize() vs expression parameters of the caller (DESIGN 7, 'noted, not yet probed')."""
    from glotaran.optimization.optimize import optimize
    from glotaran.parameter import Parameters
    from .c10_schemes import lat_unlinked
    from .c15_driver import snapshot, snapshot_diff
    import warnings

    def scheme_with(extra: dict, poke=None):
        sch, _ = lat_unlinked(with_fault=False)
        d = {"e": [["a", {"expr": "$e.b * 1.0"}], ["b", {"expr": "$p.3 + 0.0"}]],
             "p": [["1", 1.0], ["2", 2.0], ["3", 0.5]], "s": [["1", 2.0]], "r": [["2", 1.5]]}
        d.update(extra)
        sch.parameters = Parameters.from_dict(d)
        sch.maximum_number_function_evaluations = 3
        if poke:
            poke(sch.parameters)
        return sch

    cases = {
        "consistent expression (q.2 = $q.1 * 2)": (lambda: scheme_with({"q": [["1", 3.0, {"vary": False}], ["2", 6.0, {"expr": "$q.1 * 2"}]]})),
        "expression chain declared before its operands (q.1 = $q.2 * 2, q.2 = $q.3 + 1, q.3 = 3)":
            (lambda: scheme_with({"q": [["1", 0.0, {"expr": "$q.2 * 2"}], ["2", 0.0, {"expr": "$q.3 + 1"}], ["3", 3.0, {"vary": False}]]})),
        "operand changed by the caller after construction (q.1.value = 4 without update_parameter_expression)":
            (lambda: scheme_with({"q": [["1", 3.0, {"vary": False}], ["2", 6.0, {"expr": "$q.1 * 2"}]]}, poke=lambda p: setattr(p.get("q.1"), "value", 4.0))),
    }
    for label, mk in cases.items():
        for what in ("optimize", "Optimizer()"):
            if only is not None and only != (label, what):
                continue
            sch = mk()
            before = snapshot(sch)
            vals = {p.label: p.value for p in sch.parameters.all()}
            with warnings.catch_warnings():
                warnings.simplefilter("ignore")
                try:
                    if what == "optimize":
                        optimize(sch, verbose=False)
                    else:
                        from glotaran.optimization.optimizer import Optimizer
                        Optimizer(sch, verbose=False)
                except Exception as e:  # noqa: BLE001
                    chk.violation(f"{what.replace('()', '')}(scheme): raises {type(e).__name__} on a valid scheme (expression probe)",
                                  f"{what} on a scheme whose parameters have an {label}: {type(e).__name__}: {str(e)[:150]}", {"engine": "c10-expr", "case": label, "what": what})
            chk.evaluations += 1
            ch = snapshot_diff(before, snapshot(sch))
            if ch:
                now = {p.label: p.value for p in sch.parameters.all()}
                delta = {k: (vals[k], now[k]) for k in vals if vals[k] != now[k]}
                cid = "consistent" if label.startswith("consistent") else "chain-declared-before-operands" if label.startswith("expression chain") else "stale-operand"
                chk.violation(f"{what.replace('()', '')}(scheme): caller's scheme.parameters modified in place (expression values refreshed) [{cid}]",
                              f"{what} on a scheme whose parameters have an {label}: {ch} changed, {delta}", {"engine": "c10-expr", "case": label, "what": what})
            chk.nontriv(f"expr:{label}:{what}")


# ---------------------------------------------------------------------------------------------- repository tests
def repo_test_traces(chk: Check):
    events = record(pytest_cmd("glotaran/optimization/test"), cwd=str(REPO), must_succeed=False, timeout=3000)
    segs = T.split_optimizers(events)
    traces = []
    npoints = 1
    for seg in segs:
        fam = T.Family()
        try:
            t = T.normalise(seg, fam)
        except T.Skip as s:
            chk.skip(f"repository-test trace outside the model: {s}")
            continue
        t["_npoints"] = len(fam.raw)
        npoints = max(npoints, len(fam.raw))
        t["_first"] = seg[0].get("seq")
        traces.append(t)
    if not traces:
        raise MachineryError("the repository's optimisation tests produced no optimizer events (hooks not active?)")

    def key_of(t, e, clause):
        if clause == "step":
            return f"trace[repository tests]: event {e['ev']} is not a step of the specification"
        return f"trace[repository tests]: violates {clause}"
    acc = T.check_traces(chk, "repository optimisation tests", traces, npoints, key_of)
    chk.traces += acc
    chk.extra["repository_test_optimizers"] = len(traces)


# ---------------------------------------------------------------------------------------------- entry
def run(tier: str, replay=None) -> int:
    chk = Check("C10", tier)
    chk.rule = ("TLC's evaluation histories (every controllable edge of the purity graph from every state the implementation reaches + simulated "
                "walks of length 30) are executed on the real objective of 5 schemes, in-process and in 5 process configurations; "
                "non-trivial = a walk that revisits a point after a different one (most also after a failing evaluation), or an optimisation "
                "repeated / compared across processes; distinct = distinct (scheme, history, process configuration)")
    chk.assumptions = [
        "points are three parameter vectors per scheme; the optimiser's own schedules are covered by the optimize-twice runs and their traces",
        "penalty vectors are compared by content digest of their float64 bytes (exact); BLAS/OpenMP threads pinned to 1, NUMBA_NUM_THREADS varied",
        "a failing evaluation is produced by the harness-defined fault megacomplex (exception, or NaN matrix into NNLS which raises inside estimate())",
        "where the specification is nondeterministic (provider state after a failing evaluation) the implementation's resolution is followed; every controllable label is executed from every state so reached",
        "data values = data / weight variables, coordinates; variables add_svd adds to the caller's datasets are not counted as a change",
        "Optimizer._free_parameter_labels is set by the harness exactly as Optimizer.optimize() sets it before handing objective_function to scipy",
        "trusted: TLC, CommunityModules Json, blake2b, the event normaliser in harness/c15_trace.py",
    ]
    if replay:
        return _replay(chk, replay)
    model_check(chk, tier)
    depth = 3 if tier == "quick" else 4
    succ = emit_graph(chk, depth)
    ctxs = {name: SchemeCtx(name) for name in SCHEMES}
    stats = {}
    for name in SCHEMES:
        stats[name] = replay_graph(chk, ctxs[name], succ, depth)
    chk.extra["graph_replay"] = {k: {"states_reached": v[0], "edges_executed": v[1]} for k, v in stats.items()}
    walks = simulated_walks(chk, 10 if tier == "quick" else 40, 30)
    jobs = jobs_for(tier, walks)
    ref = run_inprocess(chk, jobs, ctxs)
    traces, npoints = run_subprocesses(chk, tier, jobs, ctxs, ref)
    trace_selftest(chk, traces, npoints)
    expression_probes(chk)
    if tier == "thorough":
        repo_test_traces(chk)
    for t in traces[:2]:
        chk.sample({"trace": t["_where"], "scheme": t["_scheme"], "events": [T.small(e) for e in t["events"][:5]]})
    return chk.finish()


def _replay(chk: Check, rp: dict) -> int:
    r = rp["replay"]
    eng = r.get("engine")
    if eng == "c10-path":
        ctx = SchemeCtx(r["scheme"])
        succ = emit_graph(chk, max(1, len(r["path"])))
        path = [tuple(p) for p in r["path"]]
        # re-execute exactly this history: walk the graph along it
        replay_graph_path(chk, ctx, succ, path)
    elif eng == "c10-walk":
        from .c10_driver import run_walk
        ctx = SchemeCtx(r["scheme"])
        walk = r["walk"]
        if r.get("where", "in-process") == "in-process":
            judge_walk(chk, run_walk(r["scheme"], walk, r.get("failkind", "exception"), built=ctx.built), walk, ctx, "in-process")
        else:
            _replay_sub(chk, [{"scheme": r["scheme"], "walks": [walk], "failkind": r.get("failkind", "exception")}], r["where"], {r["scheme"]: ctx})
    elif eng == "c10-optimize":
        from .c10_driver import run_optimize
        ctx = SchemeCtx(r["scheme"])
        ref = run_optimize(r["scheme"], r["method"], 12, built=ctx.built)
        judge_optimize(chk, ref, None, "in-process")
        if r.get("where", "in-process") != "in-process":
            _replay_sub(chk, [{"scheme": r["scheme"], "optimize": r["method"], "max_nfev": 12}], r["where"], {r["scheme"]: ctx}, ref)
    elif eng == "c10-expr":
        expression_probes(chk, only=(r["case"], r["what"]))
    elif eng == "c10-trace":
        plan = r["plan"]
        ctx = SchemeCtx(r["scheme"])
        job = {"scheme": r["scheme"], "walks": [plan["walk"]]} if "walk" in plan else {"scheme": r["scheme"], "optimize": plan["optimize"], "max_nfev": plan.get("max_nfev")}
        ref = run_inprocess(chk, [job], {r["scheme"]: ctx})
        run_subprocesses(chk, "quick", [job], {r["scheme"]: ctx}, ref)
    else:
        raise MachineryError(f"unknown replay engine {eng}")
    return chk.finish()


def _replay_sub(chk, jobs, where, ctxs, ref=None):
    env = {"NUMBA_NUM_THREADS": where.split("=")[1]} if where.startswith("threads=") else {}
    with tempfile.TemporaryDirectory(prefix="verif_c10_") as td:
        f = Path(td) / "jobs.json"
        f.write_text(json.dumps(jobs))
        events = record(py("-m", "harness.c10_driver", str(f)), timeout=3000, env_extra=env)
    for run in T.split_runs(events):
        obs, plan = run[-1]["obs"], run[-1]["plan"]
        if "walk" in plan:
            judge_walk(chk, obs, plan["walk"], ctxs[obs["scheme"]], where)
        else:
            judge_optimize(chk, obs, ref, where)


def replay_graph_path(chk: Check, ctx: SchemeCtx, succ, path):
    from .c10_driver import Walker
    from .c15_models import FAULT
    scheme, (labels, points) = ctx.built
    FAULT.reset()
    w = Walker(scheme, labels, points)
    memo = [0, 0, 0]
    key = ((0, 0, 0), 0, 0, 0, 0, "none", ctx.nomp, 1)
    for i, (op, x, fk) in enumerate(path):
        w.failkind = fk or "exception"
        obs = w.step(op, x)
        chk.evaluations += 1
        if op == "eval":
            ref = ctx.ref.setdefault(x, obs["pen"])
            val = x if obs["pen"] == ref and obs["finite"] else CORRUPT
            memo[x - 1] = val if memo[x - 1] in (0, x) else CORRUPT
        lp, lc, lr = ctx.codes(obs["lens"])
        dst = (tuple(memo), lp, lc, lr, i + 1, "ok" if op == "eval" else "fail", ctx.nomp, 1)
        allowed = succ.get((key, ("eval", x) if op == "eval" else ("fail", 0)), set())
        hist = " ".join(f"{a}{b}{('/' + c) if c else ''}" for a, b, c in path[: i + 1])
        print(f"step {i + 1}: {op}{x} -> {dst} {'ok' if dst in allowed else 'NOT ALLOWED'}")
        if dst not in allowed:
            chk.violation(f"objective[{ctx.name}]: history '{hist}' leaves the specification", f"after evaluations {hist}: state {dst}, raw lengths {obs['lens']}",
                          {"engine": "c10-path", "scheme": ctx.name, "path": [list(p) for p in path[: i + 1]]})
            return
        key = dst
