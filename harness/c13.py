"""C13 — fit statistics are consistent with each other and with the reported data.

Counters and sums are decided exactly by spec/Objective.tla on lattice schemes (one function evaluation, x = x0);
for real multi-iteration noisy fits the same relations are evaluated on the reported numbers by a monitor that
is a transliteration of the TLA+ operators and is bound to the spec by agreeing with TLC on every lattice case.
"""
from __future__ import annotations

import math
import random
import warnings
from fractions import Fraction

from .c02 import case_id, features
from .c03 import dof_ok, run_optimize
from .core import Check, MachineryError, seed
from .objective import close, expected_penalty_vector, gen_case, in_premise, tlc_expected, why_not


def monitor(res, *, rel=1e-9):
    """Relations of the property on the *reported* numbers (transliteration of Objective.tla counters + documented formulae).
    Returns list of (kind, message)."""
    import numpy as np
    out = []
    npts = sum(int(d.data.size) for d in res.data.values())
    npen = sum(len(g) for g in res.additional_penalty)
    if res.number_of_residuals != npts + npen:
        out.append(("number_of_residuals", f"number_of_residuals {res.number_of_residuals} != data points {npts} + penalties {npen}"))
    dof = res.number_of_residuals - res.number_of_free_parameters - res.number_of_clps
    if res.degrees_of_freedom != dof:
        out.append(("degrees_of_freedom", f"degrees_of_freedom {res.degrees_of_freedom} != {res.number_of_residuals} - {res.number_of_free_parameters} - {res.number_of_clps}"))
    if res.number_of_free_parameters != len(res.free_parameter_labels):
        out.append(("number_of_free_parameters", f"{res.number_of_free_parameters} != len(free_parameter_labels) {len(res.free_parameter_labels)}"))
    chi = 0.0
    for d in res.data.values():
        wr = d.weighted_residual if "weighted_residual" in d else d.residual
        chi += float((wr ** 2).sum())
    chi += sum(float(p) ** 2 for g in res.additional_penalty for p in g)

    def near(a, b):
        return math.isfinite(a) and abs(a - b) <= rel * max(1e-300, abs(a), abs(b)) + 1e-14

    if not near(res.chi_square, chi):
        out.append(("chi_square", f"chi_square {res.chi_square!r} != sum of squared weighted residuals + squared penalties {chi!r}"))
    if not near(res.cost, res.chi_square / 2):
        out.append(("cost", f"cost {res.cost!r} != chi_square/2 {res.chi_square / 2!r}"))
    if res.degrees_of_freedom > 0:
        if not near(res.reduced_chi_square, res.chi_square / res.degrees_of_freedom):
            out.append(("reduced_chi_square", f"{res.reduced_chi_square!r} != chi_square/dof {res.chi_square / res.degrees_of_freedom!r}"))
        if not near(res.root_mean_square_error, math.sqrt(res.reduced_chi_square)):
            out.append(("root_mean_square_error", f"{res.root_mean_square_error!r} != sqrt(reduced chi square)"))
    for label, d in res.data.items():
        size = d.residual.size
        rm = math.sqrt(float((d.residual ** 2).sum()) / size)
        if not near(float(d.attrs["root_mean_square_error"]), rm):
            out.append(("dataset rmse", f"{label}: root_mean_square_error {d.attrs['root_mean_square_error']!r} != {rm!r}"))
        wr = d.weighted_residual if "weighted_residual" in d else d.residual
        wrm = math.sqrt(float((wr ** 2).sum()) / size)
        if not near(float(d.attrs["weighted_root_mean_square_error"]), wrm):
            out.append(("dataset weighted rmse", f"{label}: weighted_root_mean_square_error {d.attrs['weighted_root_mean_square_error']!r} != {wrm!r}"))
    # covariance: symmetric PSD pseudo inverse of J^T J (singular values below eps cut), standard errors
    J = np.asarray(res.jacobian, dtype=float)
    C = np.asarray(res.covariance_matrix, dtype=float)
    n = len(res.free_parameter_labels)
    if J.shape[1] != n or C.shape != (n, n):
        out.append(("shapes", f"jacobian {J.shape}, covariance {C.shape}, {n} free parameters"))
    else:
        if not np.allclose(C, C.T, rtol=1e-9, atol=1e-300):
            out.append(("covariance symmetric", "covariance matrix is not symmetric"))
        ev = np.linalg.eigvalsh((C + C.T) / 2)
        if ev.min() < -1e-9 * max(1e-300, abs(ev).max()):
            out.append(("covariance psd", f"covariance matrix has negative eigenvalue {ev.min()}"))
        _, sv, vt = np.linalg.svd(J, full_matrices=False)
        mask = sv ** 2 > np.finfo(float).eps
        H = (vt[mask].T * sv[mask] ** 2) @ vt[mask]          # J^T J restricted to the retained subspace
        sc = max(1e-300, np.abs(C).max())
        if mask.any():
            if not np.allclose(C @ H @ C, C, rtol=1e-6, atol=1e-9 * sc):
                out.append(("covariance pseudo-inverse", "C H C != C for H = J^T J (documented eps cut-off)"))
            if not np.allclose(H @ C @ H, H, rtol=1e-6, atol=1e-9 * max(1e-300, np.abs(H).max())):
                out.append(("covariance pseudo-inverse", "H C H != H for H = J^T J (documented eps cut-off)"))
        errs = res.root_mean_square_error * np.sqrt(np.clip(np.diag(C), 0, None))
        for lab, err in zip(res.free_parameter_labels, errs):
            p = res.optimized_parameters.get(lab)
            if p.non_negative:
                want = p.value * (math.exp(err) - 1.0) if err < abs(math.log(p.value)) else abs(p.value)
            else:
                want = err
            if not near(float(p.standard_error), float(want)):
                out.append(("standard_error", f"{lab}: standard_error {p.standard_error!r} != {want!r} (rmse x sqrt(diag cov){', log space' if p.non_negative else ''})"))
    return out


def reevaluate(res):
    """Objective re-evaluated at the optimised parameters (fresh optimizer on the result's scheme)."""
    import numpy as np
    from glotaran.optimization.optimizer import Optimizer
    import copy
    scheme = copy.copy(res.scheme)
    o = Optimizer(scheme, verbose=False, raise_exception=True)
    labels = res.free_parameter_labels
    _, x, _, _ = res.optimized_parameters.get_label_value_and_bounds_arrays(exclude_non_vary=True)
    o._free_parameter_labels = labels
    pen = np.asarray(o.objective_function(x))
    return pen, [list(g.get_additional_penalties()) for g in o._optimization_groups]


def check_case(chk, case, exp, method):
    feats = features(case)
    cid = case_id(case)
    rep = {"engine": "c13", "case": case, "method": method}
    chk.evaluations += 1
    try:
        res, w = run_optimize(case, method)
    except Exception as ex:  # noqa: BLE001
        chk.violation(f"Stats[raises {type(ex).__name__}]: {feats}", f"optimize raised {type(ex).__name__}: {str(ex)[:300]} (case {cid})", rep)
        return
    chk.traces += 1
    vec, tags, add = expected_penalty_vector(exp)
    npts = sum(e["npoints"] for e in exp)
    npen = sum(e["npenalties"] for e in exp)
    nclp = sum(e["nclps"] for e in exp)
    chi = sum(v * v for v in vec)
    dof = npts + npen - 1 - nclp
    exact = {"number_of_residuals": npts + npen, "number_of_clps": nclp, "number_of_free_parameters": 1, "degrees_of_freedom": dof}
    for k, v in exact.items():
        if getattr(res, k) != v:
            chk.violation(f"Stats[{k}]: {feats}", f"{k} = {getattr(res, k)}, specification {v} (points {npts}, penalties {npen}, clps {nclp}) (case {cid})", rep)
    floats = {"chi_square": chi, "cost": chi / 2, "reduced_chi_square": chi / dof}
    for k, v in floats.items():
        if not close(float(getattr(res, k)), v):
            chk.violation(f"Stats[{k}]: {feats}", f"{k} = {getattr(res, k)!r}, specification {v} = {float(v)!r} (case {cid})", rep)
    if not close(res.root_mean_square_error ** 2, chi / dof):
        chk.violation(f"Stats[root_mean_square_error]: {feats}", f"rmse^2 = {res.root_mean_square_error ** 2!r}, specification {float(chi / dof)!r} (case {cid})", rep)
    got_add = [[float(v) for v in g] for g in res.additional_penalty]
    if [len(g) for g in got_add] != [len(g) for g in add] or not all(close(a, b) for ga, gb in zip(got_add, add) for a, b in zip(ga, gb)):
        chk.violation(f"Stats[additional_penalty]: {feats}", f"additional_penalty {got_add}, specification {[[float(v) for v in g] for g in add]} (case {cid})", rep)
    # the spec-derived monitor must agree with the exact verdict on the lattice (binding of the monitor)
    for kind, msg in monitor(res):
        if kind.startswith("covariance") or kind in ("standard_error", "shapes"):
            continue      # J = 0 on lattice cases (the only free parameter is unused): covariance clauses are exercised on real fits
        chk.violation(f"Stats[monitor {kind}]: {feats}", f"{msg} (case {cid})", rep)
    if len(feats) >= 3 and chi != 0:
        chk.nontriv(cid)


# ------------------------------------------------------------------------------------------- real multi-iteration fits
def real_fit_schemes(rng, n):
    """Noisy kinetic fits (parallel decay, optional IRF-less), several methods, weights / penalties / relations / constraints, linked and unlinked."""
    import numpy as np
    import xarray as xr
    from glotaran.builtin.megacomplexes.decay import DecayParallelMegacomplex
    from glotaran.model import Model
    from glotaran.parameter import Parameters
    from glotaran.project import Scheme
    from glotaran.simulation import simulate
    M = Model.create_class_from_megacomplexes([DecayParallelMegacomplex])
    out = []
    for i in range(n):
        nds = rng.choice([1, 2, 2])
        link = rng.choice([True, False, None])
        rates = [0.5 + rng.random(), 0.05 + 0.1 * rng.random()]
        md = {"megacomplex": {"m1": {"type": "decay-parallel", "compartments": ["s1", "s2"], "rates": ["k.1", "k.2"]}},
              "dataset_groups": {"default": {"link_clp": link, "residual_function": rng.choice(["variable_projection", "variable_projection", "non_negative_least_squares"])}},
              "dataset": {}}
        feats = {"link": link, "datasets": nds}
        for d in range(nds):
            md["dataset"][f"d{d}"] = {"megacomplex": ["m1"]}
            if rng.random() < 0.4:
                md["dataset"][f"d{d}"]["scale"] = f"sc.{d}"
                feats["scale"] = True
        if rng.random() < 0.4:
            md["clp_penalties"] = [{"type": "equal_area", "source": "s1", "source_intervals": [(0, 10)], "target": "s2", "target_intervals": [(0, 10)], "parameter": "pen.1", "weight": 0.1}]
            feats["penalty"] = True
        if rng.random() < 0.3:
            md["clp_constraints"] = [{"type": "zero", "target": "s2", "interval": [(0, 1)]}]
            feats["constraint"] = True
        elif rng.random() < 0.3:
            md["clp_relations"] = [{"source": "s1", "target": "s2", "parameter": "rel.1", "interval": [(0, 1)]}]
            feats["relation"] = True
        if rng.random() < 0.3:
            md["weights"] = [{"datasets": ["d0"], "global_interval": (1, 3), "value": 0.5}]
            feats["weight"] = True
        model = M(**md)
        nonneg = rng.random() < 0.5
        # a free parameter the model does not use (a left-over group of the parameter file), declared BEFORE the used ones: the Jacobian is
        # rank deficient and the cut singular direction is not "the last parameter"
        spare = {"aa": [["unused", 1.0]]} if rng.random() < 0.4 else {}
        feats["unused_free_parameter_first"] = bool(spare)
        params = Parameters.from_dict({**spare, "k": [["1", rates[0] * (1 + 0.1 * rng.random()), {"non-negative": nonneg}], ["2", rates[1] * (1 + 0.1 * rng.random()), {"non-negative": nonneg}]],
                                       "sc": [[str(d), 2.0, {"vary": False}] for d in range(nds)],
                                       "pen": [["1", 1.0, {"vary": False}]], "rel": [["1", 0.5, {"vary": False}]]})
        true = Parameters.from_dict({"k": [["1", rates[0]], ["2", rates[1]]], "sc": [[str(d), 2.0] for d in range(nds)], "pen": [["1", 1.0]], "rel": [["1", 0.5]]})
        data = {}
        time = np.linspace(0, 20, 40)
        for d in range(nds):
            spectral = np.arange(0, 5 + d, 1.0)
            clp = xr.DataArray([[1 + 0.3 * j, 2 - 0.2 * j] for j in range(spectral.size)], coords=[("spectral", spectral), ("clp_label", ["s1", "s2"])])
            sim_model = M(megacomplex=md["megacomplex"], dataset={f"d{d}": {"megacomplex": ["m1"]}})
            ds = simulate(sim_model, f"d{d}", true, {"time": time, "spectral": spectral}, clp, noise=True, noise_std_dev=0.02, noise_seed=rng.randint(0, 10 ** 6))
            data[f"d{d}"] = ds
        method = rng.choice(["TrustRegionReflection", "Dogbox", "Levenberg-Marquardt"])
        feats["method"] = method
        feats["nonneg"] = nonneg
        out.append((Scheme(model=model, parameters=params, data=data, optimization_method=method, maximum_number_function_evaluations=12), feats))
    return out


def check_real_fits(chk, rng, n):
    import numpy as np
    from glotaran.optimization.optimize import optimize
    for scheme, feats in real_fit_schemes(rng, n):
        chk.evaluations += 1
        with warnings.catch_warnings():
            warnings.simplefilter("ignore")
            try:
                res = optimize(scheme, verbose=False, raise_exception=True)
            except RuntimeError as ex:
                # scipy's nnls gives up with "Maximum number of iterations reached" on some well-posed matrices (upstream limit 3*n
                # iterations); with raise_exception=True that propagates and there is no result whose statistics could be judged
                if "Maximum number of iterations reached" in str(ex) and "_nnls" in str(ex.__traceback__ and __import__("traceback").extract_tb(ex.__traceback__)[-1].filename):
                    chk.skip("real fit: scipy nnls did not converge (RuntimeError propagated, no result to judge)")
                    continue
                raise
        key_f = sorted(f"{k}={v}" for k, v in feats.items())
        rep = {"engine": "c13-fit", "features": feats}
        if not res.success:
            chk.skip("real fit not successful")
            continue
        chk.traces += 1
        for kind, msg in monitor(res):
            chk.violation(f"Stats[fit {kind}]: link={feats['link']} penalty={feats.get('penalty', False)}", f"{msg}; fit {key_f}", rep)
        pen, addp = reevaluate(res)
        cost2 = 0.5 * float(np.dot(pen, pen))
        if not (abs(cost2 - res.cost) <= 1e-9 * max(1e-300, abs(cost2))):      # NaN-safe
            chk.violation(f"Stats[fit cost != objective at optimum]: link={feats['link']} penalty={feats.get('penalty', False)}",
                          f"cost {res.cost!r} != objective re-evaluated at the optimised parameters {cost2!r}; fit {key_f}", rep)
        got = [[float(v) for v in g] for g in res.additional_penalty]
        want = [[float(v) for v in g] for g in addp]
        if [len(g) for g in got] != [len(g) for g in want] or any(abs(a - b) > 1e-9 * max(1e-300, abs(b)) for ga, gb in zip(got, want) for a, b in zip(ga, gb)):
            chk.violation(f"Stats[fit additional_penalty]: link={feats['link']} penalty={feats.get('penalty', False)}",
                          f"additional_penalty {got} != penalty tail of the objective at the optimised parameters {want}; fit {key_f}", rep)
        chk.nontriv("fit:" + ",".join(key_f))


def run(tier: str, replay=None) -> int:
    chk = Check("C13", tier)
    rng = random.Random(seed() + 1313)
    chk.rule = ("lattice schemes of C02/C03 optimised with one evaluation: counters exact, chi-square / cost / rmse exact to 1e-9; plus seeded noisy multi-iteration kinetic fits "
                "(all three methods, weights, penalties, constraints, relations, linked and unlinked) judged by the spec-derived monitor; non-trivial = >= 3 features and chi-square != 0")
    chk.assumptions = ["D11: results with degrees_of_freedom <= 0 are outside 'every successful result'",
                       "the Moore-Penrose identities and standard-error mapping are floating-point relations evaluated by the monitor (not by TLC)",
                       "the monitor is bound to the spec by agreeing with TLC's exact values on every lattice case"]
    if replay:
        r = replay["replay"]
        if r["engine"] == "c13":
            exp, tot = tlc_expected([r["case"]], shards=1)
            chk.add_tlc(tot)
            check_case(chk, r["case"], exp[0], r.get("method", "TrustRegionReflection"))
        else:
            check_real_fits(chk, random.Random(seed() + 1313), 40 if tier == "quick" else 400)
        return chk.finish()
    n = 800 if tier == "quick" else 6000
    cases = [gen_case(rng) for _ in range(n)]
    exp, tot = tlc_expected(cases, shards=8 if tier == "quick" else 14)
    chk.add_tlc(tot, "ObjectiveCases")
    chk.exhaustive = False
    nin = 0
    for case, e in zip(cases, exp):
        if not in_premise(e):
            for r in why_not(e):
                chk.skip(f"outside premise: {r}")
            continue
        if not dof_ok(e):
            chk.skip("degrees of freedom < 1 (D11)")
            continue
        nin += 1
        check_case(chk, case, e, "Dogbox" if nin % 4 == 0 else "TrustRegionReflection")
        if nin % 131 == 1:
            chk.sample({"features": features(case), "npoints": sum(x["npoints"] for x in e), "nclps": sum(x["nclps"] for x in e), "npenalties": sum(x["npenalties"] for x in e)})
    if nin < n // 5:
        raise MachineryError(f"only {nin} of {n} cases usable")
    check_real_fits(chk, rng, 16 if tier == "quick" else 150)
    return chk.finish()
