"""C16 — parameter files round-trip in every supported format; specifications equal programmatic construction.

spec/ParamTable.tla: a table is a sequence of rows of cell classes; TLC enumerates (fan-out AddRow) every table of 1..3
rows in which at most two columns deviate from the all-default column, checks RoundTrip / OrderPreserved / Idempotent on the
abstract Save ; Load ; SaveAgain ; Load history and emits the tables.  Every emitted table is concretised deterministically
from VERIF_SEED and the same history is executed on save_parameters / load_parameters for every registered tabular format;
after every step the real state (loaded parameters, file content) is compared with the specified one (identity) by the
harness's own field-by-field comparison.

spec/ParamFromSpec.tla: TLC enumerates parameter specifications (container x default block x item forms) together with the
parameters programmatic construction has to give; each is rendered as yml text, yml file and python dict / list and loaded.
"""
from __future__ import annotations

import copy
import json
import math
import multiprocessing as mp
import os
import random
import shutil
import struct
import tempfile
import warnings
import zipfile
from pathlib import Path

from .core import Check, MachineryError, seed
from .tlc import printed_json, require_actions, run_tlc

TABLE_FORMATS = ["csv", "tsv", "xlsx", "ods"]
COLUMNS = ["label", "value", "standard_error", "minimum", "maximum", "vary", "non_negative", "expression"]
DEFAULT = {"label": "plain", "value": "frac", "standard_error": "nan", "minimum": "inf", "maximum": "inf",
           "vary": "True", "non_negative": "False", "expression": "none"}

LABELS_ALL = ["plain", "nested", "numlike", "numeric", "kwbool", "kwna"]
VALUES_ALL = ["zero", "one", "int", "frac", "frac17", "huge", "neghuge", "tiny", "negtiny", "inf", "neginf"]
STDERR_ALL = ["nan", "short", "frac17", "inf", "vanishing"]

INVARIANTS = ["TypeOK", "RoundTrip", "OrderPreserved", "ExprNotVaried"]
PROPERTIES = ["Idempotent"]


def _s(xs):
    return "{" + ", ".join(f'"{x}"' for x in xs) + "}"


def table_cfg(labels, values, stderrs, formats, max_rows, max_pair, max_lv, emit=False):
    lines = ["SPECIFICATION Spec", "CONSTANTS", f"  LabelClasses = {_s(labels)}", f"  ValueClasses = {_s(values)}",
             f"  StdErrClasses = {_s(stderrs)}", f"  Formats = {_s(formats)}", f"  MaxRows = {max_rows}",
             f"  MaxRowsPair = {max_pair}", f"  MaxRowsLabelValue = {max_lv}", f"  BuildOnly = {'TRUE' if emit else 'FALSE'}",
             "CHECK_DEADLOCK FALSE"]
    if emit:
        lines.append("INVARIANT Emit")
    else:
        lines += [f"INVARIANT {i}" for i in INVARIANTS] + [f"PROPERTY {p}" for p in PROPERTIES]
    return "\n".join(lines) + "\n"


FROMSPEC_INVARIANTS = ["NumbersArePositions", "ExprNotVaried", "OwnOptionsWin", "DefaultsApply", "RefIsPlain"]


def fromspec_cfg(containers, forms, vals, opts, defaults, max_items, emit=False):
    lines = ["SPECIFICATION Spec", "CONSTANTS", f"  Containers = {_s(containers)}", f"  Forms = {_s(forms)}",
             f"  ValForms = {_s(vals)}", f"  OptForms = {_s(opts)}", f"  Defaults = {_s(defaults)}", f"  MaxItems = {max_items}",
             "CHECK_DEADLOCK FALSE"]
    if emit:
        lines.append("INVARIANT Emit")
    else:
        lines += [f"INVARIANT {i}" for i in FROMSPEC_INVARIANTS]
    return "\n".join(lines) + "\n"


# =========================================================================== concretisation
LABEL_POOL = {
    "plain": ["a", "k1", "amp", "tau", "width", "b2"],
    "nested": ["rates.k1", "irf.center", "shapes.s1.amplitude", "kinetic.1", "b.1.10", "osc.freq.2"],
    "numlike": ["1.10", "2.50", "10.0", "3.20", "04.5", "1.0"],
    "numeric": ["12", "7", "007", "40", "100", "0"],
    "kwbool": ["true", "false", "TRUE", "FALSE"],
    "kwna": ["none", "NA", "null", "NaN", "NULL"],
}
FRAC17 = [0.1 + 0.2, 1.1 * 1.1, 141421.35623730952, 0.7 * 3, 2.2 * 3, 1.005 * 1000, 4.35 * 100]
VALUE_POOL = {
    "zero": [0.0],
    "one": [1.0],
    "int": [2.0, -3.0, 100.0, 123456789.0, 1e16, -(2.0 ** 53), 7.0],
    "frac": [0.5, -1.25, 0.001, 3.14, 2.5e-5, 0.1, 1234.5678, -0.75],
    "frac17": FRAC17 + [-x for x in FRAC17],
    "huge": [1e308, 1.5e300, 1.7976931348623157e308, 8.5e307],
    "neghuge": [-1e308, -1.5e300, -1.7976931348623157e308, -8.5e307],
    "tiny": [5e-324, 1e-300, 2.5e-310, 3e-320],
    "negtiny": [-5e-324, -1e-300, -2.5e-310, -3e-320],
    "inf": [float("inf")],           # an infinite value or standard error is a float like any other (only infinite BOUNDS are written as empty cells)
    "neginf": [float("-inf")],
}
STDERR_POOL = {"nan": [float("nan")], "short": [0.5, 0.01, 2.5e-3, 12.0], "frac17": FRAC17, "inf": [float("inf")], "vanishing": [0.0, 5e-19, 1e-300]}     # a standard error of zero or far below one is a number, not "not available"
MIN_POOL = [0, 0.0, -1.5, -1000.0, 0.001, -1e308]     # the first one is an int on purpose (DESIGN §7 harness lesson)
MAX_POOL = [10, 1.0, 1e6, 1000.5, 1e308]
EXPR_FORMS = ["${x}", "2 * ${x}", "${x} + 1", "${x} / 3", "2.5", "2"]      # the last two: constant expressions that look like numbers (they are text all the same)


def _sig17(x: float) -> bool:
    digits = repr(abs(x)).split("e")[0].replace(".", "").lstrip("0")
    return len(digits) == 17


assert all(_sig17(x) for x in FRAC17), [x for x in FRAC17 if not _sig17(x)]


def eval_expr(form: str, x: float) -> float:
    """The harness's own evaluation of the four expression forms (IEEE double arithmetic, as asteval does)."""
    if form == "${x}":
        return x
    if form == "2 * ${x}":
        return 2 * x
    if form == "${x} + 1":
        return x + 1
    if form == "${x} / 3":
        return x / 3
    if form in ("2.5", "2"):
        return float(form)
    raise MachineryError(f"unknown expression form {form}")


def concretise(table: list[dict], sd: int) -> list[dict]:
    """Abstract table -> list of concrete rows, deterministic in (seed, table)."""
    rng = random.Random(f"{sd}|{json.dumps(table, sort_keys=True)}")
    n = len(table)
    used: dict[str, list] = {}
    rows = []
    for r in table:
        pool = [x for x in LABEL_POOL[r["label"]] if x not in used.setdefault(r["label"], [])]
        lab = rng.choice(pool)
        used[r["label"]].append(lab)
        row = {"label": lab, "value": rng.choice(VALUE_POOL[r["value"]]),
               "standard_error": rng.choice(STDERR_POOL[r["standard_error"]]),
               "minimum": -math.inf if r["minimum"] == "inf" else rng.choice(MIN_POOL),
               "maximum": math.inf if r["maximum"] == "inf" else rng.choice(MAX_POOL),
               "vary": r["vary"] == "True", "non_negative": r["non_negative"] == "True",
               "expression": None, "_expr_form": None, "_ref": None}
        if r["expression"] == "ref":
            row["_expr_form"] = rng.choice(EXPR_FORMS)
        rows.append(row)
    plain = [i for i in range(n) if table[i]["expression"] == "none"]
    for i, row in enumerate(rows):
        if row["_expr_form"]:
            j = plain[0]
            row["_ref"] = j
            row["expression"] = row["_expr_form"].replace("${x}", "$" + rows[j]["label"])
            row["value"] = eval_expr(row["_expr_form"], rows[j]["value"])
    return rows


def project(table, rows, keep_col, only_row=None):
    """Reset every column but keep_col to the default class / concrete default (optionally keep one row only)."""
    idx = range(len(table)) if only_row is None else [only_row]
    t2, r2 = [], []
    for k, i in enumerate(idx):
        a = dict(DEFAULT)
        a[keep_col] = table[i][keep_col]
        c = {"label": ["p", "q", "r"][k], "value": [0.5, 0.25, 0.75][k], "standard_error": float("nan"), "minimum": -math.inf,
             "maximum": math.inf, "vary": True, "non_negative": False, "expression": None, "_expr_form": None, "_ref": None}
        c[keep_col] = rows[i][keep_col]
        if keep_col == "expression" and rows[i]["_expr_form"]:
            c["_expr_form"] = rows[i]["_expr_form"]
            c["_ref"] = rows[i]["_ref"]
            a["vary"] = "False"
            c["vary"] = False
        t2.append(a)
        r2.append(c)
    for c in r2:   # re-point expressions at the projected labels
        if c["_expr_form"]:
            c["expression"] = c["_expr_form"].replace("${x}", "$" + r2[c["_ref"]]["label"])
            c["value"] = eval_expr(c["_expr_form"], r2[c["_ref"]]["value"])
    return t2, r2


def _cell_variant(t2, r2, col, reset_rows):
    """Copy of a projected table in which the cells of `col` in `reset_rows` are replaced by the default class / value."""
    t3 = [dict(a) for a in t2]
    r3 = [dict(c) for c in r2]
    dflt = {"label": None, "value": 0.5, "standard_error": float("nan"), "minimum": -math.inf, "maximum": math.inf,
            "vary": True, "non_negative": False, "expression": None}
    for i in reset_rows:
        t3[i][col] = DEFAULT[col]
        if col == "label":
            r3[i]["label"] = ["p", "q", "r"][i]
        else:
            r3[i][col] = dflt[col]
        if col == "expression":
            r3[i]["_expr_form"] = None
            r3[i]["_ref"] = None
            r3[i]["value"] = 0.5
            r3[i]["vary"] = True
            t3[i]["vary"] = "True"
    if col == "expression" and not any(a["expression"] == "none" for a in t3):
        return t2, r2
    for c in r3:
        if c["_expr_form"]:
            c["expression"] = c["_expr_form"].replace("${x}", "$" + r3[c["_ref"]]["label"])
            c["value"] = eval_expr(c["_expr_form"], r3[c["_ref"]]["value"])
    return t3, r3


# =========================================================================== the harness's own comparison
def _bits(x: float) -> bytes:
    return struct.pack("<d", x)


def num_equal(a, b) -> bool:
    """Numeric equality, NaN-aware, not by Python type; two floats must be bit-equal (sign of zero aside: never generated)."""
    if isinstance(a, bool) or isinstance(b, bool):
        return False
    try:
        fa, fb = float(a), float(b)
    except (TypeError, ValueError):
        return False
    if math.isnan(fa) or math.isnan(fb):
        return math.isnan(fa) and math.isnan(fb)
    if isinstance(a, int) or isinstance(b, int):
        return a == b
    return _bits(fa) == _bits(fb)


def bool_equal(a, b) -> bool:
    import numpy as np
    return isinstance(b, (bool, np.bool_)) and bool(a) == bool(b)


def compare(rows, loaded) -> list[tuple[str, int, str]]:
    """(column, row index, detail) for every specified field the loaded parameters differ in."""
    got = [p.as_dict() for p in loaded.all()]
    diffs = []
    want_labels = [r["label"] for r in rows]
    got_labels = [g["label"] for g in got]
    if want_labels != got_labels:
        if sorted(want_labels) == sorted(got_labels):
            diffs.append(("label", 0, f"label ORDER changed: saved {want_labels}, loaded {got_labels}"))
            return diffs
        for i, w in enumerate(want_labels):
            g = got_labels[i] if i < len(got_labels) else None
            if w != g:
                diffs.append(("label", i, f"label {w!r} came back as {g!r}"))
        if len(got_labels) != len(want_labels):
            return diffs
    by_label = {g["label"]: g for g in got}
    for i, r in enumerate(rows):
        g = got[i]
        if g["label"] != r["label"]:
            continue      # fields of a row whose label was lost are not attributed twice
        want_value = r["value"]
        if r["_expr_form"]:
            ref = rows[r["_ref"]]["label"]
            if ref not in by_label:
                continue
            want_value = eval_expr(r["_expr_form"], by_label[ref]["value"])      # re-evaluated after loading
            if not num_equal(want_value, g["value"]):
                diffs.append(("expression", i, f"value of expression parameter {r['label']!r} is {g['value']!r}, its expression "
                                               f"{r['expression']!r} evaluates to {want_value!r} on the loaded parameters"))
        elif not num_equal(want_value, g["value"]):
            diffs.append(("value", i, f"value {want_value!r} came back as {g['value']!r}"))
        for col in ("standard_error", "minimum", "maximum"):
            if not num_equal(r[col], g[col]):
                diffs.append((col, i, f"{col} {r[col]!r} came back as {g[col]!r}"))
        for col in ("vary", "non_negative"):
            if not bool_equal(r[col], g[col]):
                diffs.append((col, i, f"{col} {r[col]!r} came back as {g[col]!r}"))
        if r["expression"] != g["expression"] and not (r["expression"] is None and g["expression"] is None):
            diffs.append(("expression", i, f"expression {r['expression']!r} came back as {g['expression']!r}"))
    return diffs


def file_content(path: Path, fmt: str) -> bytes:
    """What 'the same file' means: the bytes for text formats; for the zipped spreadsheets the typed cell contents of the
    sheet (the zip container carries creation times and the xml serialisation of odfpy is not canonical)."""
    if fmt in ("csv", "tsv"):
        return path.read_bytes()
    import xml.etree.ElementTree as ET
    cells = []
    with zipfile.ZipFile(path) as z:
        if fmt == "ods":
            ns = {"t": "urn:oasis:names:tc:opendocument:xmlns:table:1.0", "o": "urn:oasis:names:tc:opendocument:xmlns:office:1.0",
                  "x": "urn:oasis:names:tc:opendocument:xmlns:text:1.0"}
            root = ET.fromstring(z.read("content.xml"))
            for ri, row in enumerate(root.iter("{%s}table-row" % ns["t"])):
                for ci, cell in enumerate(row.findall("t:table-cell", ns)):
                    attrs = sorted((k.split("}")[1], v) for k, v in cell.attrib.items() if k.startswith("{%s}" % ns["o"]) or k.endswith("number-columns-repeated"))
                    text = "".join("".join(p.itertext()) for p in cell.findall("x:p", ns))
                    cells.append((ri, ci, attrs, text))
        else:
            ns = {"m": "http://schemas.openxmlformats.org/spreadsheetml/2006/main"}
            shared = []
            if "xl/sharedStrings.xml" in z.namelist():
                sroot = ET.fromstring(z.read("xl/sharedStrings.xml"))
                shared = ["".join(si.itertext()) for si in sroot.findall("m:si", ns)]
            sheet = sorted(n for n in z.namelist() if n.startswith("xl/worksheets/") and n.endswith(".xml"))[0]
            root = ET.fromstring(z.read(sheet))
            for c in root.iter("{%s}c" % ns["m"]):
                t = c.attrib.get("t", "n")
                v = c.find("m:v", ns)
                text = v.text if v is not None else "".join(c.itertext())
                if t == "s":
                    t, text = "inlineStr", shared[int(text)]
                cells.append((c.attrib.get("r"), t, text))
    return repr(cells).encode()


def build(rows):
    from glotaran.parameter import Parameter, Parameters
    return Parameters({r["label"]: Parameter(label=r["label"], value=r["value"], standard_error=r["standard_error"],
                                              minimum=r["minimum"], maximum=r["maximum"], vary=r["vary"],
                                              non_negative=r["non_negative"], expression=r["expression"]) for r in rows})


class Outcome:
    def __init__(self):
        self.exc = None          # (phase, exception type name, message)
        self.diffs = []          # first Load
        self.diffs2 = []         # second Load
        self.again_refused = None
        self.bytes_changed = None
        self.steps = 0

    @property
    def identity(self):
        return self.exc is None and not self.diffs


def run_cycle(rows, fmt, wd: Path) -> Outcome:
    """Save(fmt) ; Load ; SaveAgain ; Load on the real code, compared with the specified state after every step."""
    from glotaran.io import load_parameters, save_parameters
    out = Outcome()
    f = wd / f"p.{fmt}"
    f2 = wd / f"p2.{fmt}"
    for x in (f, f2):
        if x.exists():
            x.unlink()
    with warnings.catch_warnings():
        warnings.simplefilter("ignore")
        try:
            phase = "build"
            params = build(rows)
            phase = "Save"
            save_parameters(params, f)
            out.steps += 1
            phase = "Load"
            loaded = load_parameters(f)
            out.steps += 1
            out.diffs = compare(rows, loaded)
            if out.diffs:
                return out
            content1 = file_content(f, fmt)
            phase = "SaveAgain"
            target = f
            try:
                save_parameters(loaded, f, allow_overwrite=True)
            except FileExistsError as e:
                out.again_refused = f"{type(e).__name__}: {str(e).splitlines()[0]}"
                target = f2
                save_parameters(loaded, f2)
            out.steps += 1
            # an int bound may legitimately come back as a float and vice versa (numeric equality); the text of such a cell
            # then changes without the parameters changing, so the file comparison is limited to type-stable tables
            got = [p.as_dict() for p in loaded.all()]
            all_float = all(isinstance(r[c], float) and isinstance(g[c], float) for r, g in zip(rows, got)
                            for c in ("value", "standard_error", "minimum", "maximum"))
            content2 = file_content(target, fmt)
            if all_float and content2 != content1:
                out.bytes_changed = _first_difference(content1, content2)
            if not (all_float and content2 == content1):
                # (an identical file loads identically: the second Load is only informative when the file changed or was not compared)
                phase = "LoadAgain"
                loaded2 = load_parameters(target)
                out.steps += 1
                out.diffs2 = compare(rows, loaded2)
        except MachineryError:
            raise
        except Exception as e:  # noqa: BLE001  (any exception of the code under test is an observation)
            # also in the build phase: the tables of the specification are valid parameter sets by construction, so a library that refuses to
            # build one is observed and reported like any other failing step
            out.exc = (phase, type(e).__name__, str(e).splitlines()[0][:200] if str(e) else "")
    return out


def _first_difference(a: bytes, b: bytes) -> str:
    i = next((k for k in range(min(len(a), len(b))) if a[k] != b[k]), min(len(a), len(b)))
    return f"first cycle ...{a[max(0, i - 30):i + 30]!r}..., second cycle ...{b[max(0, i - 30):i + 30]!r}..."


def _cls(table, i, col):
    return table[i][col]


# naming only: tables with the same exception and the same classes in their deviating columns get the same culprit classes
_ATTRIBUTION_MEMO: dict = {}


def judge(table, rows, fmt, wd: Path, depth=0):
    """-> (list of (key, what), evaluations).  One key per (format, column, cell class): the distinct defect, not the table."""
    out = run_cycle(rows, fmt, wd)
    n_eval = 1
    viols = []
    shown = [{k: v for k, v in r.items() if not k.startswith("_")} for r in rows]
    pre = f"ParamTable[{fmt}]"
    for diffs, cyc in ((out.diffs, "first"), (out.diffs2, "second")):
        for col, i, detail in diffs:
            klass = _cls(table, i, col)
            viols.append((f"{pre}: {col}-class={klass}", f"{fmt}: after the {cyc} Save;Load of {shown}: {detail}"))
    if out.again_refused:
        viols.append((f"{pre}: SaveAgain onto the existing file with allow_overwrite=True is refused",
                      f"{fmt}: save_parameters(loaded, same file, allow_overwrite=True) raises {out.again_refused}"))
    if out.bytes_changed:
        viols.append((f"{pre}: second cycle is not a stutter (file content changes although the parameters are equal)",
                      f"{fmt}: {shown}: {out.bytes_changed}"))
    if out.exc:
        phase, tname, msg = out.exc
        dev = [c for c in COLUMNS if any(t[c] != DEFAULT[c] and not (c == "vary" and t["expression"] == "ref") for t in table)]
        found = []
        sig = (fmt, phase, tname, tuple((c, tuple(sorted({t[c] for t in table}))) for c in dev))
        if sig in _ATTRIBUTION_MEMO:
            found = list(_ATTRIBUTION_MEMO[sig])
        elif depth == 0:
            for c in dev:
                t2, r2 = project(table, rows, c)
                o2 = run_cycle(r2, fmt, wd)
                n_eval += 1
                if o2.identity and not o2.diffs2:
                    continue
                single = []
                if len(table) > 1:
                    # a cell is a culprit if defaulting it alone cures the column, or if it alone (others defaulted, rows kept)
                    # still breaks it: the column composition the reader sees stays a column of the same length
                    for i in range(len(table)):
                        if table[i][c] == DEFAULT[c] or (c == "vary" and table[i]["expression"] == "ref"):
                            continue
                        cured = _cell_variant(t2, r2, c, [i])
                        alone = _cell_variant(t2, r2, c, [k for k in range(len(table)) if k != i])
                        o_cured = run_cycle(cured[1], fmt, wd)
                        o_alone = run_cycle(alone[1], fmt, wd)
                        n_eval += 2
                        if (o_cured.identity and not o_cured.diffs2) or not (o_alone.identity and not o_alone.diffs2):
                            single.append(table[i][c])
                classes = sorted(set(single)) if single else ["+".join(sorted({t[c] for t in table}))]
                found += [(c, k) for k in classes]
        if not found:
            found = [("+".join(dev) or "none", "+".join(sorted({t[c] for t in table for c in dev})) or "default")]
        _ATTRIBUTION_MEMO[sig] = list(found)
        for c, k in found:
            viols.append((f"{pre}: {c}-class={k}", f"{fmt}: {phase} of {shown} raises {tname}: {msg}"))
    return viols, n_eval, out.steps


# =========================================================================== expressions re-evaluated after loading
def stale_expression_case(fmt, wd: Path):
    """A hand-written table whose expression row carries a stale value: after loading, the value is the expression's."""
    import pandas as pd
    from glotaran.io import load_parameters
    # rows h1, h2, h3: an expression chain of depth three declared BACKWARDS (each refers to a later row)
    df = pd.DataFrame({"label": ["h1", "h2", "h3", "a.x", "b.y", "c"], "value": [11.0, 12.0, 13.0, 2.5, 99.0, 77.0],
                       "expression": ["$h2 + 1", "$h3 + 1", "$a.x * 2", None, "$a.x * 2", "$b.y + $a.x"],
                       "vary": [False, False, False, True, False, False]})
    f = wd / f"stale.{fmt}"
    if fmt == "csv":
        df.to_csv(f, index=False, na_rep="None")
    elif fmt == "tsv":
        df.to_csv(f, index=False, na_rep="None", sep="\t")
    else:
        df.to_excel(f, index=False, na_rep="None")
    with warnings.catch_warnings():
        warnings.simplefilter("ignore")
        p = load_parameters(f)
    got = {x.label: x.value for x in p.all()}
    want = {"h1": 7.0, "h2": 6.0, "h3": 5.0, "a.x": 2.5, "b.y": 5.0, "c": 7.5}
    return got, want


# =========================================================================== FromSpec
GROUPS = {"list": [], "dict1": ["rates"], "dict2": ["shapes", "s1"], "dict3": ["kinetic", "dataset1", "rates"]}
SCI = [("1e3", 1000.0), ("2.5E-3", 0.0025), ("-1e-2", -0.01), ("1E7", 1e7), ("3.0e+2", 300.0)]
FLOATS = [0.5, 1.25, 30.0, 0.1 + 0.2, 620.5]
INTS = [3, 40, 7]
REF_GROUP, REF_LABEL, REF_VALUE = "base", "r", 1.5


def fromspec_concretise(case: dict, sd: int):
    """-> (python spec, yml text, expected rows in declaration order)."""
    rng = random.Random(f"{sd}|{json.dumps(case, sort_keys=True)}")
    c = case["container"]
    items = case["items"]
    exp = case["expected"]
    prefix = ".".join(GROUPS[c])
    conc = []
    for i, (it, ex) in enumerate(zip(items, exp)):
        if it["val"] == "sci":
            text, val = rng.choice(SCI)
            pyval = text
        elif it["val"] == "int":
            pyval = rng.choice(INTS)
            text, val = str(pyval), float(pyval)
        else:
            pyval = rng.choice(FLOATS)
            text, val = repr(pyval), pyval
        short = f"L{i + 1}x" if ex["explicit"] else str(ex["index"])
        conc.append({"short": short, "pyval": pyval, "text": text, "val": val})
    py_items, yml_items, rows = [], [], []
    for i, (it, ex, cc) in enumerate(zip(items, exp, conc)):
        opts_py, opts_yml = None, None
        expr = None
        if it["opts"] == "vary_false":
            opts_py, opts_yml = {"vary": False}, "{vary: false}"
        elif it["opts"] == "vary_true":
            opts_py, opts_yml = {"vary": True}, "{vary: true}"
        elif it["opts"] == "nonneg":
            opts_py, opts_yml = {"non-negative": True}, "{non-negative: true}"
        elif it["opts"] == "bounds":
            opts_py, opts_yml = {"min": -2.5, "max": 1e9}, "{min: -2.5, max: 1.0e+9}"
        elif it["opts"] == "expr":
            if c == "list":
                ref = conc[ex["ref"] - 1]["short"]
                refval = conc[ex["ref"] - 1]["val"]
            else:
                ref, refval = f"{REF_GROUP}.{REF_LABEL}", REF_VALUE
            expr = f"${ref} * 2"
            opts_py, opts_yml = {"expr": expr}, "{expr: \"" + expr + "\"}"
            cc["val"] = 2 * refval
        if it["form"] == "bare":
            py, y = cc["pyval"], _yml_scalar(cc, i)
        else:
            parts_py = {"v": [cc["pyval"]], "lv": [cc["short"], cc["pyval"]], "vl": [cc["pyval"], cc["short"]]}[it["form"]]
            parts_y = {"v": [_yml_scalar(cc, i)], "lv": [f'"{cc["short"]}"', _yml_scalar(cc, i)], "vl": [_yml_scalar(cc, i), f'"{cc["short"]}"']}[it["form"]]
            if opts_py is not None:
                parts_py = parts_py + [opts_py]
                parts_y = parts_y + [opts_yml]
            py, y = parts_py, "[" + ", ".join(parts_y) + "]"
        py_items.append(py)
        yml_items.append(y)
        rows.append({"label": (prefix + "." if prefix else "") + cc["short"], "value": cc["val"], "vary": ex["vary"],
                     "non_negative": ex["non_negative"], "minimum": -2.5 if ex["bounds"] else (-7.0 if ex.get("dbounds") else -math.inf),
                     "maximum": 1e9 if ex["bounds"] else (50.0 if ex.get("dbounds") else math.inf), "expression": expr, "standard_error": float("nan")})
    d = case["dflt"]
    if d != "none":
        blk_py = {"vary": False} if d == "vary_false" else ({"non-negative": True} if d == "nonneg" else {"min": -7.0, "max": 50.0})
        blk_y = "{vary: false}" if d == "vary_false" else ("{non-negative: true}" if d == "nonneg" else "{min: -7.0, max: 50.0}")
        if case["dfltpos"] == "first":
            py_items, yml_items = [blk_py] + py_items, [blk_y] + yml_items
        else:
            py_items, yml_items = py_items + [blk_py], yml_items + [blk_y]
    if c == "list":
        spec = py_items
        text = "".join(f"- {y}\n" for y in yml_items)
    else:
        node = py_items
        for g in reversed(GROUPS[c]):
            node = {g: node}
        spec = {REF_GROUP: [[REF_LABEL, REF_VALUE]], **node}
        text = f"{REF_GROUP}:\n  - [{REF_LABEL}, {REF_VALUE}]\n"
        ind = ""
        for g in GROUPS[c]:
            text += f"{ind}{g}:\n"
            ind += "  "
        text += "".join(f"{ind}- {y}\n" for y in yml_items)
        rows = [{"label": f"{REF_GROUP}.{REF_LABEL}", "value": REF_VALUE, "vary": True, "non_negative": False, "minimum": -math.inf,
                 "maximum": math.inf, "expression": None, "standard_error": float("nan")}] + rows
    return spec, text, rows


def _yml_scalar(cc, i):
    # scientific notation is written unquoted and quoted alternately (both occur in hand-written files)
    if isinstance(cc["pyval"], str):
        return cc["text"] if i % 2 == 0 else f'"{cc["text"]}"'
    return cc["text"]


def fromspec_compare(rows, loaded):
    """(column, row index, detail); row index is an index into `rows` (declaration order)."""
    got = [p.as_dict() for p in loaded.all()]
    diffs = []
    want_labels = [r["label"] for r in rows]
    got_labels = [g["label"] for g in got]
    if want_labels != got_labels:
        for i, w in enumerate(want_labels):
            if w not in got_labels or (len(got_labels) == len(want_labels) and got_labels[i] != w):
                diffs.append(("label", i, f"labels {got_labels}, programmatic construction gives {want_labels}"))
        return diffs or [("label", 0, f"labels {got_labels}, programmatic construction gives {want_labels}")]
    for i, (r, g) in enumerate(zip(rows, got)):
        for col in ("value", "standard_error", "minimum", "maximum"):
            if not num_equal(r[col], g[col]):
                diffs.append((col, i, f"{col} of {r['label']!r} is {g[col]!r}, programmatic construction gives {r[col]!r}"))
        for col in ("vary", "non_negative"):
            if not bool_equal(r[col], g[col]):
                diffs.append((col, i, f"{col} of {r['label']!r} is {g[col]!r}, programmatic construction gives {r[col]!r}"))
        if r["expression"] != g["expression"]:
            diffs.append(("expression", i, f"expression of {r['label']!r} is {g['expression']!r}, not {r['expression']!r}"))
    return diffs


CASE_INDEX: dict = {}      # (container, dflt, dfltpos, items) -> emitted case; filled before the workers fork


def _case_key(c):
    return json.dumps([c["container"], c["dflt"], c["dfltpos"], c["items"]], sort_keys=True)


def fromspec_run(case, sd, wd: Path, only=None):
    """-> {loader: list of diffs | ("exc", type, message)}"""
    from glotaran.io import load_parameters
    from glotaran.parameter import Parameters
    spec, text, rows = fromspec_concretise(case, sd)
    # the comparison is against programmatic construction: build it (this also evaluates the expressions)
    prog = build([dict(r, _expr_form=None, _ref=None) for r in rows])
    for r, p in zip(rows, prog.all()):
        if r["expression"]:
            r["value"] = p.value
    loaders = {
        "yml_str": lambda: load_parameters(text, format_name="yml_str"),
        "yml_file": lambda: _load_file(wd, text),
        "python": lambda: (Parameters.from_list(copy.deepcopy(spec)) if isinstance(spec, list) else Parameters.from_dict(copy.deepcopy(spec))),
    }
    res = {}
    for name, fn in loaders.items():
        if only and name != only:
            continue
        try:
            with warnings.catch_warnings():
                warnings.simplefilter("ignore")
                import contextlib
                import io
                with contextlib.redirect_stderr(io.StringIO()):      # asteval prints evaluation errors
                    loaded = fn()
            res[name] = fromspec_compare(rows, loaded)
        except Exception as e:  # noqa: BLE001
            res[name] = ("exc", type(e).__name__, str(e).splitlines()[0][:160] if str(e) else "")
    return res, text


def _item_key(it, col):
    return f"FromSpec: {col} val={it['val']} form={it['form']} opts={it['opts']}"


def fromspec_judge(case, sd, wd: Path):
    """One key per (column, item form): `FromSpec: <column> val=.. form=.. opts=.. [loader]`."""
    res, text = fromspec_run(case, sd, wd)
    offset = 0 if case["container"] == "list" else 1
    viols = []
    n = len(res)
    for name, r in res.items():
        if isinstance(r, tuple):
            # attribute the exception: neutralise one feature at a time (the neutralised specification is another member of the
            # enumeration, with its own TLC-computed expectation) and see which one cures it
            culprits = []
            for i, it in enumerate(case["items"]):
                for field, neutral in (("val", "float"), ("opts", "none")):
                    if it[field] == neutral:
                        continue
                    items2 = [dict(x) for x in case["items"]]
                    items2[i][field] = neutral
                    c2 = CASE_INDEX.get(_case_key({**case, "items": items2}))
                    if c2 is None:
                        continue
                    r2, _ = fromspec_run(c2, sd, wd, only=name)
                    n += 1
                    # ... or everything else neutralised and it alone still breaks the load
                    items3 = [dict(x, val="float", opts="none") for x in case["items"]]
                    items3[i][field] = it[field]
                    c3 = CASE_INDEX.get(_case_key({**case, "items": items3, "dflt": "none", "dfltpos": "first"}))
                    alone_fails = False
                    if c3 is not None and items3 != case["items"]:
                        r3, _ = fromspec_run(c3, sd, wd, only=name)
                        n += 1
                        alone_fails = r3[name] != []
                    if r2[name] == [] or alone_fails:
                        if alone_fails and isinstance(r3[name], list) and any(d[0] == "label" for d in r3[name]):
                            # the exception is a consequence (e.g. an expression refers to the number the item should have got)
                            culprits.append(f"FromSpec: label val={it['val']} form={it['form']}")
                        else:
                            culprits.append(f"FromSpec: load {field}={it[field]} form={it['form']}")
            if case["dflt"] != "none" and not culprits:
                c2 = CASE_INDEX.get(_case_key({**case, "dflt": "none", "dfltpos": "first"}))
                if c2 is not None:
                    r2, _ = fromspec_run(c2, sd, wd, only=name)
                    n += 1
                    if r2[name] == []:
                        culprits.append(f"FromSpec: load default={case['dflt']}@{case['dfltpos']}")
            if not culprits:
                culprits = ["FromSpec: load items=" + ",".join(f"{x['form']}/{x['val']}/{x['opts']}" for x in case["items"])
                            + f" container={case['container']} default={case['dflt']}@{case['dfltpos']}"]
            for k in sorted(set(culprits)):
                viols.append((f"{k} [{name}]", f"{name}: loading the specification {text!r} raises {r[1]}: {r[2]}"))
        else:
            for col, i, detail in r:
                j = i - offset
                if j < 0:
                    key = f"FromSpec: {col} of the fixed reference group"
                else:
                    it = case["items"][j]
                    key = f"FromSpec: {col} val={it['val']} form={it['form']}" + (f" opts={it['opts']}" if col != "label" else "")
                    if col in ("vary", "non_negative"):
                        key += f" default={case['dflt']}@{case['dfltpos']}"
                viols.append((f"{key} [{name}]", f"{name}: specification {text!r}: {detail}"))
    return viols, n


def _load_file(wd: Path, text: str):
    from glotaran.io import load_parameters
    f = wd / "spec.yml"
    f.write_text(text)
    return load_parameters(f)


# =========================================================================== workers
def _table_worker(args):
    chunk, fmts_of, sd = args
    wd = Path(tempfile.mkdtemp(prefix="verif_c16_"))
    res = []
    try:
        for idx, table in chunk:
            rows = concretise(table, sd)
            for fmt in fmts_of(idx) if callable(fmts_of) else fmts_of[idx]:
                viols, n_eval, steps = judge(table, rows, fmt, wd)
                res.append((idx, fmt, viols, n_eval, steps))
    finally:
        shutil.rmtree(wd, ignore_errors=True)
    return res


def _fromspec_worker(args):
    chunk, sd = args
    wd = Path(tempfile.mkdtemp(prefix="verif_c16_"))
    res = []
    try:
        for idx, case in chunk:
            viols, n = fromspec_judge(case, sd, wd)
            res.append((idx, viols, n))
    finally:
        shutil.rmtree(wd, ignore_errors=True)
    return res


def _pool_map(fn, jobs, procs):
    if procs <= 1 or len(jobs) <= 1:
        return [fn(j) for j in jobs]
    ctx = mp.get_context("fork")
    with ctx.Pool(procs) as pool:
        return pool.map(fn, jobs, chunksize=1)


def _chunks(seq, n):
    k = max(1, math.ceil(len(seq) / n))
    return [seq[i:i + k] for i in range(0, len(seq), k)]


def mixed(table) -> bool:
    return any(len({t[c] for t in table}) > 1 for c in COLUMNS)


class Collector:
    """core.Check keeps replay dicts for its first 50 violations only: collect, then hand over one representative per key
    (with its replay dict) before all the others."""

    def __init__(self):
        self.first: dict = {}
        self.rest: list = []

    def add(self, key, what, replay_fn):
        if key not in self.first:
            self.first[key] = (what, replay_fn() if callable(replay_fn) else replay_fn)
        else:
            self.rest.append((key, what))

    def flush(self, chk: Check):
        for key, (what, rp) in self.first.items():
            chk.violation(key, what, rp)
        for key, what in self.rest:
            chk.violation(key, what, None)


# =========================================================================== run
def run(tier: str, replay=None) -> int:
    chk = Check("C16", tier)
    sd = seed()
    rng = random.Random(sd)
    chk.rule = ("tables: every table of 1..3 rows over the cell classes in which at most two columns deviate from the all-default "
                "column (TLC fan-out enumeration of spec/ParamTable.tla), concretised from the seed, pushed through "
                "Save;Load;SaveAgain;Load of every tabular format; evaluation = one (table, format) history (+ the projections "
                "used to attribute an exception to a column); non-trivial = a table with a mixed-class column; distinct = "
                "distinct abstract table.  specifications: every (container, default block, item forms) of spec/ParamFromSpec.tla "
                "loaded as yml text, yml file and python object; non-trivial = default block present, or an expression, or "
                "automatic numbering next to an explicit label")
    chk.assumptions = [
        "equality is the harness's projection: same labels in the same order; value, standard error and bounds numerically equal "
        "(NaN = NaN, int 0 = float 0.0), two floats bit-equal; vary / non-negative equal booleans; expression equal strings",
        "the value of an expression parameter is compared with the harness's own evaluation of the expression on the LOADED "
        "referenced value (four arithmetic forms, IEEE doubles); expression chains are C12's business and are not generated",
        "-0.0 is not generated (the sign of zero is not taken to be part of a parameter value); bounds are not related to the value "
        "(Parameter does not validate them)",
        "second cycle 'same file': bytes for csv/tsv; for xlsx/ods the sheet payload (worksheet xml / content.xml), because the zip "
        "container carries timestamps; compared only when every numeric field of the table is a float (an int bound is legitimately "
        "rewritten as a float)",
        "standard error has a third class frac17 beyond DESIGN §5 (NaN / value) because real standard errors need 17 digits",
        "automatic numbering is by 1-based position among the parameter items of the list (default block not counted)",
        "an exception is attributed to (column, class) by re-running the table with one column / one cell defaulted; the attribution "
        "is reused for tables with the same exception and the same classes in their deviating columns (it only names the key)",
        "at most two columns deviate from the default column per table (label x value jointly only up to 2 rows): reader type "
        "inference is per column, so interactions of three or more columns are not explored",
        "trusted: TLC, CommunityModules Json, CPython float repr / json round trip, zipfile",
    ]
    if replay:
        return _replay_one(chk, replay)

    from glotaran.io.interface import ProjectIoInterface
    from glotaran.plugin_system.project_io_registration import get_project_io, known_project_formats
    registered = []
    for f in TABLE_FORMATS:
        if f in known_project_formats():
            io = type(get_project_io(f))
            if io.save_parameters is not ProjectIoInterface.save_parameters and io.load_parameters is not ProjectIoInterface.load_parameters:
                registered.append(f)
                continue
        chk.violation(f"ParamTable[{f}]: format not registered for save_parameters/load_parameters",
                      f"the property names {f} as a supported parameter format; the registry has no plugin saving and loading parameters for it", None)
    procs = max(1, min(12, (os.cpu_count() or 2) - 2))

    if tier == "quick":
        consts = (LABELS_ALL, ["zero", "one", "frac", "frac17", "huge", "negtiny", "neginf"], STDERR_ALL, TABLE_FORMATS, 3, 2, 2)
        fs_consts = (["list", "dict1", "dict2", "dict3"], ["bare", "v", "lv", "vl"], ["float", "sci"], ["none", "vary_false", "vary_true", "expr", "bounds"],
                     ["none", "vary_false", "nonneg", "bounds"], 2)
        sheet_sample = 260
    else:
        consts = (LABELS_ALL, VALUES_ALL, STDERR_ALL, TABLE_FORMATS, 3, 3, 2)
        fs_consts = (["list", "dict1", "dict2", "dict3"], ["bare", "v", "lv", "vl"], ["float", "int", "sci"],
                     ["none", "vary_false", "vary_true", "nonneg", "bounds", "expr"], ["none", "vary_false", "nonneg", "bounds"], 2)
        sheet_sample = None

    # ---- TLC: model-level check, then emission of the tables
    res = run_tlc("ParamTable", table_cfg(*consts), workers=procs, timeout=1500)
    require_actions(res, ["AddRow", "Save", "Load", "SaveAgain"])
    chk.add_tlc(res, f"ParamTable[{tier}]")
    em = run_tlc("ParamTableEmit", table_cfg(*consts, emit=True), workers=1, timeout=1500, coverage=False)
    tables = printed_json(em["stdout"], "CASE")
    n_complete = res["actions"]["Save"][0] // len(TABLE_FORMATS)
    if not tables or len({json.dumps(t, sort_keys=True) for t in tables}) != len(tables) or len(tables) != n_complete:
        raise MachineryError(f"table emission inconsistent: {len(tables)} emitted, {n_complete} complete tables saved in the checking run")
    chk.extra["tables_enumerated"] = len(tables)
    import time
    t_phase = time.time()

    # ---- which formats each table goes through
    spreadsheet = [f for f in registered if f in ("xlsx", "ods")]
    text_fmts = [f for f in registered if f in ("csv", "tsv")]
    fmts_of = {i: list(text_fmts) for i in range(len(tables))}
    if sheet_sample is None:
        for i in fmts_of:
            fmts_of[i] += spreadsheet
    else:
        # every table with a single deviating column and <= 2 rows is always included, the rest is sampled
        core = [i for i, t in enumerate(tables) if len(t) <= 2 and sum(any(r[c] != DEFAULT[c] for r in t) for c in COLUMNS if c != "vary") <= 1]
        rest = [i for i in range(len(tables)) if i not in set(core)]
        rng.shuffle(rest)
        for i in core + rest[:sheet_sample]:
            fmts_of[i] += spreadsheet
        chk.exhaustive = False
        chk.extra["spreadsheet_tables"] = len(core) + min(sheet_sample, len(rest))
    order = list(range(len(tables)))
    rng.shuffle(order)      # balance the load: spreadsheet tables are ten times dearer
    jobs = [([(i, tables[i]) for i in ch], {i: fmts_of[i] for i in ch}, sd) for ch in _chunks(order, procs * 4)]
    per_fmt = {f: 0 for f in registered}
    col = Collector()
    for part in _pool_map(_table_worker, jobs, procs):
        for idx, fmt, viols, n_eval, steps in part:
            chk.evaluations += n_eval
            chk.traces += 1
            per_fmt[fmt] += 1
            if mixed(tables[idx]):
                chk.nontriv(json.dumps(tables[idx], sort_keys=True))
            for key, what in viols:
                col.add(key, what, lambda idx=idx, fmt=fmt: {"engine": "c16-table", "fmt": fmt, "table": tables[idx], "rows": concretise(tables[idx], sd)})
    chk.extra["histories_per_format"] = per_fmt
    chk.extra["table_replay_wall_s"] = round(time.time() - t_phase, 1)
    for i in (0, len(tables) // 3, 2 * len(tables) // 3, len(tables) - 1):
        chk.sample({"abstract_table": tables[i], "concrete": [{k: (repr(v) if isinstance(v, float) else v) for k, v in r.items() if not k.startswith("_")}
                                                                for r in concretise(tables[i], sd)],
                    "history": ["Save(fmt)", "Load", "SaveAgain", "Load"], "formats": fmts_of[i]})

    # ---- stale expressions in hand-written tables
    wd = Path(tempfile.mkdtemp(prefix="verif_c16_"))
    try:
        for fmt in registered:
            chk.evaluations += 1
            try:
                got, want = stale_expression_case(fmt, wd)
                if list(got) != list(want) or any(not num_equal(want[k], got[k]) for k in want):
                    col.add(f"ParamTable[{fmt}]: expression not re-evaluated after loading",
                            f"{fmt}: table with stale values next to expressions loads as {got}, the expressions evaluate to {want}",
                            {"engine": "c16-stale", "fmt": fmt})
            except Exception as e:  # noqa: BLE001
                col.add(f"ParamTable[{fmt}]: expression not re-evaluated after loading",
                        f"{fmt}: loading a table with expressions raises {type(e).__name__}: {e}", {"engine": "c16-stale", "fmt": fmt})
    finally:
        shutil.rmtree(wd, ignore_errors=True)

    # ---- FromSpec
    res2 = run_tlc("ParamFromSpec", fromspec_cfg(*fs_consts), workers=procs, timeout=900)
    require_actions(res2, ["AddItem", "Finish"])
    chk.add_tlc(res2, f"ParamFromSpec[{tier}]")
    em2 = run_tlc("ParamFromSpecEmit", fromspec_cfg(*fs_consts, emit=True), workers=1, timeout=900, coverage=False)
    cases = printed_json(em2["stdout"], "CASE")
    if len(cases) != res2["actions"]["Finish"][0]:
        raise MachineryError(f"specification emission inconsistent: {len(cases)} emitted, {res2['actions']['Finish'][0]} finished in the checking run")
    chk.extra["specifications_enumerated"] = len(cases)
    order = list(range(len(cases)))
    CASE_INDEX.clear()
    CASE_INDEX.update({_case_key(c): c for c in cases})
    jobs = [([(i, cases[i]) for i in ch], sd) for ch in _chunks(order, procs * 2)]
    for part in _pool_map(_fromspec_worker, jobs, procs):
        for idx, viols, n in part:
            chk.evaluations += n
            chk.traces += n
            c = cases[idx]
            if c["dflt"] != "none" or any(e["expr"] for e in c["expected"]) or len({e["explicit"] for e in c["expected"]}) > 1:
                chk.nontriv("spec:" + json.dumps({k: c[k] for k in ("container", "dflt", "dfltpos", "items")}, sort_keys=True))
            for key, what in viols:
                col.add(key, what, {"engine": "c16-fromspec", "case": c})
    mid = cases[len(cases) // 2]
    spec, text, rows = fromspec_concretise(mid, sd)
    col.flush(chk)
    chk.sample({"specification_yml": text, "python": spec, "expected_labels": [r["label"] for r in rows], "abstract": {k: mid[k] for k in ("container", "dflt", "dfltpos", "items")}})
    return chk.finish()


def _replay_one(chk: Check, rp: dict) -> int:
    r = rp["replay"]
    wd = Path(tempfile.mkdtemp(prefix="verif_c16_"))
    try:
        if r["engine"] == "c16-table":
            viols, n_eval, steps = judge(r["table"], r["rows"], r["fmt"], wd)
            chk.evaluations += n_eval
            chk.traces += 1
            for key, what in viols:
                chk.violation(key, what, r)
        elif r["engine"] == "c16-stale":
            got, want = stale_expression_case(r["fmt"], wd)
            chk.evaluations += 1
            if list(got) != list(want) or any(not num_equal(want[k], got[k]) for k in want):
                chk.violation(f"ParamTable[{r['fmt']}]: expression not re-evaluated after loading", f"loads as {got}, expressions evaluate to {want}", r)
        elif r["engine"] == "c16-fromspec":
            viols, n = fromspec_judge(r["case"], seed(), wd)
            chk.evaluations += n
            for key, what in viols:
                chk.violation(key, what, r)
        else:
            raise MachineryError(f"unknown replay engine {r.get('engine')}")
    finally:
        shutil.rmtree(wd, ignore_errors=True)
    chk.sample(r)
    return chk.finish()
