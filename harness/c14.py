"""C14 — simulation and fitting agree: simulated data are reproduced and recovered.

(1) lattice: spec/ObjectiveSim.tla simulates integer data from integer clps exactly, checks ZeroAtTruth on the
    objective pipeline and emits data + expected clps; the real simulate() must produce exactly these data and
    the real objective / result must be zero / clp divided by scale.
(2) spec/SimSeed.tla: the global RNG as a state machine; every transition replayed on numpy + simulate(noise_seed).
(3) spec/ModelCombos.tla enumerates the combination space of builtin megacomplexes; the harness instantiates
    each with physically meaningful parameters: objective at the truth ~ 0, estimated clps, optimiser does not move,
    recovery from perturbed starts (exercised; convergence is not modelled).
"""
from __future__ import annotations

import json
import random
import warnings
from fractions import Fraction

from .c02 import case_id, features
from .c03 import expected_views
from .core import Check, MachineryError, seed
from .objective import gen_case, in_premise, tlc_expected, why_not
from .tlc import printed_json, require_actions, run_tlc


def gen_sim_case(rng):
    c = gen_case(rng, penalties=False, two_groups=True)
    c["relations"], c["constraints"], c["penalties"] = [], [], []
    clpval = {}
    for g in c["groups"]:
        ds = [d for d in c["datasets"] if d["group"] == g["label"]]
        linked = g["link"] is True or (g["link"] is None and not any(d["gmcs"] for d in ds))
        if linked:
            sc = ds[0].get("scale", 1)
            for d in ds:
                d["scale"] = sc          # a common clp exists only if linked datasets share the scale
    for d in c["datasets"]:
        labs = []
        for mc in d["mcs"]:
            labs += [l for l in mc["labels"] if l not in labs]
        if d["gmcs"]:
            # full model simulation pairs global and model columns by label
            # the global labels are the model labels in ANOTHER order, sometimes with one more global label that pairs with nothing: the clp
            # matrix (global label x model label) of the truth is then neither symmetric nor square
            gl = list(labs)[::-1]
            if rng.random() < 0.5:
                gl.append("z")
            # ... and the model matrix of a full model is index dependent in most cases (the Kronecker product is then built index by index)
            for mc in d["mcs"]:
                if not mc["idx"] and rng.random() < 0.7:
                    mc["idx"] = True
                    mc["cols"] = [[[(v + (1 if (gi + ci + ri) % 3 == 0 else 0)) % 2 if gi else v for ri, v in enumerate(col)] for ci, col in enumerate(mc["cols"])]
                                  for gi in range(len(d["axis"]))]
            d["gmcs"] = [{"scale": 1, "labels": gl, "cols": [[rng.choice([0, 1, 1, 2]) for _ in d["axis"]] for _ in gl]}]
            d["simclp"] = []
        else:
            sc = d.get("scale", 1)
            # the generating clp is a function of the ALIGNED point: with an alignment tolerance neighbouring coordinates of different
            # datasets are one point, so the truth then does not vary along the axis (found by seeds 7 and 123: InvZeroAtTruth failed in TLC)
            d["simclp"] = [[clpval.setdefault((d["group"], None if c.get("tol") else x, l), sc * rng.randint(0, 3)) for l in labs] for x in d["axis"]]
        d["data"] = [[0 for _ in d["axis"]] for _ in d["data"]]
    return c


def full_idx_case(rng):
    """A full model (global megacomplex) whose model matrix is index dependent, with enough points to be well posed: 3 x 3 data,
    model labels [a, b], global labels [b, a] or [b, a, z] (another order, sometimes one label more): the truth's clp matrix is neither
    symmetric nor square.  0/1 entries; rank checked numerically here, exactly by Objective.tla afterwards."""
    import numpy as np
    for _ in range(200):
        ng, nm = 3, 3
        cols = [[[rng.choice([0, 1, 1]) for _ in range(nm)] for _ in ("a", "b")] for _ in range(ng)]
        gl = ["b", "a"] + (["z"] if rng.random() < 0.6 else [])
        gcols = [[rng.choice([0, 1, 1, 2]) for _ in range(ng)] for _ in gl]
        G = np.array(gcols, dtype=float).T                               # n_global x Lg
        F = np.concatenate([np.kron(G[i, :], np.array(cols[i], dtype=float).T) for i in range(ng)])
        if np.linalg.matrix_rank(F) == F.shape[1] and len({json.dumps(c_) for c_ in cols}) > 1:
            break
    d = {"label": "dataset1", "group": "default", "axis": [0, 1, 2], "maxis": [], "scale": 1, "data": [[0] * ng for _ in range(nm)], "weight": [],
         "mcs": [{"scale": 1, "labels": ["a", "b"], "idx": True, "cols": cols}], "gmcs": [{"scale": 1, "labels": gl, "cols": gcols}], "transposed": rng.random() < 0.3,
         "simclp": []}
    return {"groups": [{"label": "default", "link": rng.choice([False, None]), "residual_function": "variable_projection", "datasets": ["dataset1"], "has_global": True}],
            "datasets": [d], "relations": [], "constraints": [], "penalties": [], "weights": []}


def lattice_part(chk: Check, rng, n, shards):
    import numpy as np
    import xarray as xr
    from glotaran.simulation import simulate
    from .c03 import run_optimize
    from .lattice import build
    from .objective import real_objective
    cases = [gen_sim_case(rng) for _ in range(n)] + [full_idx_case(rng) for _ in range(max(10, n // 12))]
    exp, tot = tlc_expected(cases, shards=shards, module="ObjectiveSim", invs=["InvZeroAtTruth", "InvEachPointOnce"])
    chk.add_tlc(tot, "ObjectiveSim")
    nin = 0
    for case, e in zip(cases, exp):
        # the simulation itself is compared for every case (it does not need the linear problem to be well posed)
        feats = features(case)
        cid = case_id(case)
        rep = {"engine": "c14-lattice", "case": case}
        scheme = build(case)
        k = {}
        ok = True
        for gi, g in enumerate(case["groups"]):
            ds = [d for d in case["datasets"] if d["group"] == g["label"]]
            for pos, d in enumerate(ds):
                nm = len(d["data"])
                coords = {"time": np.arange(nm, dtype=float), "spectral": np.array(d["axis"], dtype=float)}
                clp = None
                if not d["gmcs"]:
                    labs = []
                    for mc in d["mcs"]:
                        labs += [l for l in mc["labels"] if l not in labs]
                    perm = list(range(len(labs)))
                    rng.shuffle(perm)       # the clp may be given in any label order: selection is by label
                    clp = xr.DataArray([[float(row[j]) for j in perm] for row in d["simclp"]],
                                       coords=[("spectral", coords["spectral"]), ("clp_label", [labs[j] for j in perm])])
                chk.evaluations += 1
                try:
                    sim = simulate(scheme.model, d["label"], scheme.parameters, coords, clp)
                except Exception as ex:  # noqa: BLE001
                    chk.violation(f"Simulate[raises {type(ex).__name__}]: {feats}", f"simulate raised {type(ex).__name__}: {ex} (case {cid})", rep)
                    ok = False
                    continue
                want = np.array(e[gi]["data"][pos], dtype=float)
                got = sim.data.transpose("time", "spectral").values
                if got.shape != want.shape or not np.array_equal(got, want):
                    chk.violation(f"Simulate[data]: {feats}", f"simulate({d['label']}) = {got.tolist()}, specification (matrix_i . clp_i by label) {want.tolist()} (case {cid})", rep)
                    ok = False
                k[d["label"]] = want
        if not ok:
            continue
        chk.traces += 1
        if not in_premise(e):
            for r in why_not(e):
                chk.skip(f"fit side outside premise: {r}")
            continue
        nin += 1
        fit_case = json.loads(json.dumps(case))
        for d in fit_case["datasets"]:
            d["data"] = [[int(v) for v in row] for row in k[d["label"]].tolist()]
        try:
            pen, o, w = real_objective(fit_case)
        except Exception as ex:  # noqa: BLE001
            chk.violation(f"Simulate[objective raises {type(ex).__name__}]: {feats}", f"objective at the truth raised {type(ex).__name__}: {ex} (case {cid})", rep)
            continue
        norm = max(1.0, float(np.sqrt(sum(float((v ** 2).sum()) for v in k.values()))))
        if float(np.abs(pen).max(initial=0.0)) > 1e-9 * norm:
            chk.violation(f"Simulate[objective not zero at truth]: {feats}", f"objective at the generating clps is {np.abs(pen).max()} (data norm {norm}) (case {cid})", rep)
            continue
        npts = sum(x["npoints"] for x in e)
        nclp = sum(x["nclps"] for x in e)
        if npts - 1 - nclp >= 1:
            try:
                res, _ = run_optimize(fit_case)
            except Exception as ex:  # noqa: BLE001
                chk.violation(f"Simulate[optimize raises {type(ex).__name__}]: {feats}", f"optimize at the truth raised {type(ex).__name__}: {ex} (case {cid})", rep)
                continue
            views = expected_views(fit_case, e)
            for label, v in views.items():
                rd = res.data[label]
                if v["gclp"] is None:
                    own = set(rd.clp.coords["clp_label"].values.tolist())
                    for (g_i, lab), val in v["clp"].items():
                        if lab not in own:
                            continue
                        c = float(rd.clp.sel(spectral=float(v["d"]["axis"][g_i]), clp_label=lab))
                        if not (abs(c - float(val)) <= 1e-9 * max(1, abs(float(val)))):      # NaN-safe
                            chk.violation(f"Simulate[estimated clp]: {feats}", f"{label} clp[{lab}] at {v['d']['axis'][g_i]} = {c}, generating clp / dataset scale = {float(val)} (case {cid})", rep)
                            break
                else:
                    for (gl, ml), val in v["gclp"].items():
                        c = float(rd.clp.sel(global_clp_label=gl, clp_label=ml))
                        if not (abs(c - float(val)) <= 1e-9):      # NaN-safe
                            chk.violation(f"Simulate[estimated full-model clp]: {feats}", f"{label} clp[{gl},{ml}] = {c}, specification {float(val)} (case {cid})", rep)
                            break
        if len(feats) >= 3:
            chk.nontriv(cid)
        if nin % 97 == 1:
            chk.sample({"features": feats, "case": case})
    if nin < n // 6:
        raise MachineryError(f"only {nin} of {n} simulated cases have a well posed fit side")


def seed_part(chk: Check, maxops):
    import hashlib
    import numpy as np
    import xarray as xr
    from glotaran.simulation import simulate
    from .lattice import build
    cfg = f'SPECIFICATION Spec\nCONSTANTS\n  Seeds = {{0, 1}}\n  MaxOps = {maxops}\n  NoiseLen = 3\nINVARIANT Reproducible\nCHECK_DEADLOCK FALSE\n'
    res = run_tlc("SimSeed", cfg, workers=4, timeout=600)
    require_actions(res, ["Draw", "Simulate", "SimulateUnseeded"])
    chk.add_tlc(res, "SimSeed")
    em = run_tlc("SimSeedEmit", cfg.replace("INVARIANT Reproducible\n", "ACTION_CONSTRAINT Emit\n"), workers=1, timeout=600, coverage=False)
    edges = printed_json(em["stdout"], "EDGE")
    case = {"groups": [{"label": "default", "link": None}], "datasets": [{"label": "d", "group": "default", "axis": [0, 1, 2], "data": [[0, 0, 0]], "scale": 1,
            "weight": [], "mcs": [{"scale": 1, "labels": ["a"], "idx": False, "cols": [[1]]}]}], "relations": [], "constraints": [], "penalties": [], "weights": []}
    scheme = build(case)
    clp = xr.DataArray([[1.0], [2.0], [3.0]], coords=[("spectral", [0.0, 1.0, 2.0]), ("clp_label", ["a"])])
    coords = {"time": np.array([0.0]), "spectral": np.array([0.0, 1.0, 2.0])}
    # walk paths: every edge from its source state reached by replaying the path from Init (the RNG is process-global state)
    by_src = {}
    for e in edges:
        by_src.setdefault(json.dumps(e["src"]), []).append(e)
    init = json.dumps(edges[0]["src"])
    paths = [(init, [])]
    seen_edges = 0
    memo_first = {}
    while paths:
        state, path = paths.pop()
        for e in by_src.get(state, []):
            ops = path + [(e["op"], e["seed"])]
            # replay from a fresh generator state
            np.random.seed(12345)
            memo = {}
            okpath = True
            for op, s in ops:
                if op == "draw":
                    np.random.random()
                elif op == "unseeded":
                    simulate(scheme.model, "d", scheme.parameters, coords, clp, noise=True, noise_std_dev=1.0)
                else:
                    d = simulate(scheme.model, "d", scheme.parameters, coords, clp, noise=True, noise_std_dev=1.0, noise_seed=s)
                    h = hashlib.sha1(d.data.values.tobytes()).hexdigest()
                    if s in memo and memo[s] != h:
                        okpath = False
                    memo.setdefault(s, h)
                    if memo_first.setdefault(s, h) != h:
                        okpath = False
            seen_edges += 1
            chk.evaluations += 1
            if not okpath:
                chk.violation("SimSeed: simulate(noise_seed) not reproducible", f"history {ops}: simulate with a fixed noise seed gave different data", {"engine": "c14-seed", "ops": ops})
            if len(ops) < maxops:
                paths.append((json.dumps(e["dst"]), ops))
    chk.traces += seen_edges
    chk.extra["simseed_paths"] = seen_edges


def run(tier: str, replay=None) -> int:
    chk = Check("C14", tier)
    rng = random.Random(seed() + 1414)
    chk.rule = ("(1) seeded lattice schemes simulated from integer clps exactly by spec/ObjectiveSim.tla and compared with simulate(), objective and estimated clps; "
                "(2) all histories of Draw / Simulate(seed) / SimulateUnseeded up to a bound from spec/SimSeed.tla replayed on numpy's global generator; "
                "(3) the combination space of builtin megacomplexes enumerated by spec/ModelCombos.tla and instantiated with float parameters; "
                "non-trivial = >= 3 interacting features (lattice) or >= 2 megacomplexes (builtin)")
    chk.assumptions = ["linked datasets share one dataset scale in simulated cases (otherwise no common clp exists)",
                       "constraints / relations / penalties are not part of simulated lattice cases (the generating clps would have to satisfy them)",
                       "full-model simulation pairs global and model columns by identical label (what simulate_full_model does)",
                       "convergence from perturbed starts is exercised on a fixed list of well-conditioned combinations, not modelled (DESIGN §6)"]
    chk.exhaustive = False
    if replay:
        r = replay["replay"]
        if r["engine"] == "c14-lattice":
            lattice_replay(chk, r["case"])
        elif r["engine"] == "c14-combo":
            from . import c14_combos
            c14_combos.replay(chk, r)
        else:
            seed_part(chk, 4)
        return chk.finish()
    lattice_part(chk, rng, 700 if tier == "quick" else 6000, 8 if tier == "quick" else 14)
    seed_part(chk, 4 if tier == "quick" else 6)
    from . import c14_combos
    c14_combos.run(chk, tier, rng)
    return chk.finish()


def lattice_replay(chk, case):
    class R:
        def __init__(self, c):
            self.c = c
        def __getattr__(self, n):
            return getattr(random.Random(0), n)
    import harness.c14 as me
    orig = me.gen_sim_case
    me.gen_sim_case = lambda rng: case
    try:
        lattice_part(chk, random.Random(0), 1, 1)
    except MachineryError:
        pass
    finally:
        me.gen_sim_case = orig
