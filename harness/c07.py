"""C07 — oscillation, artifact and spectral basis functions obey their definitions (decidable part, DESIGN §5/§6).

spec/Basis.tla (EXTENDS IrfIndex): symbolic terms with exact arguments, the algebraic facts of the property
(quadrature pairing, before/after-pulse regions decided with outward rounding, one EffectivePosition(i) shared with the
decay model, Gaussian derivative identities, Shape(x0) = A, Shape(x0 +- D/2) = A/2, theta <= 0 => 0), checked by TLC on
the enumerated case space; spec/BasisEmit.tla prints every case.

Binding (every emitted case replayed on the real megacomplexes; per case the FIRST failing clause is reported):
 osc      no IRF: column under <o>_cos == exp(-g t) cos(w t), under <o>_sin == Im exp(-g t - i w t) = -exp(-g t) sin(w t)
          (sign: the kernel's docstring says "real and imaginary part of the oscillation", the property says "quadratures of
          exp(-gamma t - i omega t)"); w = 2 pi 0.03 nu as documented in the megacomplex
 oscirf   (1) matrix at index i == the implementation's own matrix with the plain IRF Effective(i)   [EffectivePosition]
          (2) before the pulse: 0   (3) after the pulse: cos + i sin == K * SUM_g weight_g exp(k^2 w_g^2/2 - k (t - c_g)),
          ONE real K for all t, all oscillations, all indices of the matrix
 pfid     (1) same differential check  (2) after the pulse: 0  (3) before the pulse: K * anti-causal tail, one K
 art      (1) same differential check  (2) columns == Gauss, (c-t)/w^2 Gauss, ((t-c)^2-w^2)/w^4 Gauss (closed forms)
 shape    amplitude at the location, half maximum at +-FWHM/2 (b = 0), theta <= 0 => exactly 0, formula elsewhere,
          |Shape_b - Shape_0| <= 8 |b| |A| on the whole axis; plain / scaled / inverted spectral axis
NOT decided (DESIGN §6): proportionality to the convolution inside the pulse (complex error function).
"""
from __future__ import annotations

import json
import math
import random
import threading

from .c05 import _tla, collect, pool_map
from .c05 import expected_counts as irf_expected_counts
from .core import Check, MachineryError, seed
from .tlc import require_actions, run_tlc

INVARIANTS = ["BTypeOK", "OscFacts", "RegionFacts", "SharedPosition", "ArtifactFacts", "ShapeFacts"]
KINDS = ["osc", "oscirf", "pfid", "art", "shape"]


def constants(tier: str) -> dict:
    if tier == "quick":
        return dict(GaussCounts=[1, 2], ValVars=[1, 3], ScaleOpts=[True], ShiftVars=[0, 1], COrders=[0, 1, 2], WOrders=[0, 1], WOrderCap=1,
                    NormOpts=[True], BacksweepOpts=[False], AxisVars=[1], WithErrors=False, WithAsym=False,
                    Kinds=KINDS, OscCounts=[1, 2, 3], RatePats=[2, 3], FreqVars=[1], ArtOrders=[1, 3],      # rate row 2 starts with a damping rate of exactly 0
                    BClasses=list(range(0, 11)), AxisModes=["plain", "scaled", "inverted"])
    return dict(GaussCounts=[1, 2, 3], ValVars=[1, 2, 3], ScaleOpts=[True], ShiftVars=[0, 1], COrders=[0, 1, 2, 3], WOrders=[0, 1], WOrderCap=1,
                NormOpts=[True], BacksweepOpts=[False], AxisVars=[1], WithErrors=False, WithAsym=False,
                Kinds=KINDS, OscCounts=[1, 2, 3], RatePats=[1, 2, 3, 4], FreqVars=[1, 2], ArtOrders=[1, 2, 3],
                BClasses=list(range(0, 13)), AxisModes=["plain", "scaled", "inverted"])


def cfg_text(consts: dict, emit: bool) -> str:
    lines = ["SPECIFICATION BSpec", "CONSTANTS"] + [f"  {k} = {_tla(v)}" for k, v in consts.items()] + ["CHECK_DEADLOCK FALSE"]
    lines += ["CONSTRAINT Emit"] if emit else [f"INVARIANT {i}" for i in INVARIANTS]
    return "\n".join(lines) + "\n"


def expected_counts(c: dict) -> dict:
    irf, _ = irf_expected_counts(c)
    n = {k: 0 for k in KINDS}
    if "osc" in c["Kinds"]:
        n["osc"] = len(c["OscCounts"]) * len(c["RatePats"]) * 4 * 2
    if "oscirf" in c["Kinds"]:
        n["oscirf"] = len(c["OscCounts"]) * len(c["RatePats"]) * len(c["FreqVars"]) * irf
    if "pfid" in c["Kinds"]:
        n["pfid"] = len(set(c["OscCounts"]) & {1, 2}) * len(set(c["RatePats"]) & {1, 2}) * len(c["FreqVars"]) * len(c["AxisModes"]) * irf
    if "art" in c["Kinds"]:
        n["art"] = len(c["ArtOrders"]) * 3 * irf
    if "shape" in c["Kinds"]:
        types = (1 if 0 in c["BClasses"] else 0) + len(c["BClasses"])
        n["shape"] = types * 4 * 3 * sum(2 if md == "inverted" else 3 for md in c["AxisModes"])
    return n


# --------------------------------------------------------------------------------------- replay (worker side)
def _osc_parts(case, prefix="damped-oscillation"):
    labels = case["labels"]
    n = len(labels)
    mega = {"type": prefix, "labels": labels, "frequencies": [f"of.{j + 1}" for j in range(n)], "rates": [f"og.{j + 1}" for j in range(n)]}
    return mega


def _first(res, key, what):
    """first failing clause of the case"""
    if not res["viol"]:
        res["viol"].append((key, what))
    else:
        res["skip"]["further failing clause of an already rejected case"] = res["skip"].get("further failing clause of an already rejected case", 0) + 1


def replay_osc(case):
    import numpy as np

    from . import drivers_irf as D
    res = {"evals": 0, "nontriv": [], "viol": [], "skip": {}, "cid": "osc"}
    n = len(case["labels"])
    rates, freqs, times = D.frs(case["rates"]), [float(f) for f in case["freqs"]], D.frs(case["times"])
    dm, mc, _, _ = D.build(_osc_parts(case), None, {"of": freqs, "og": rates})
    labels, mat = mc.calculate_matrix(dm, np.asarray([0.0, 1.0]), np.asarray(times))
    labels = list(labels)
    mat = np.asarray(mat)
    key = (f"DampedOscillation[no irf].quadrature: {'1 oscillation' if n == 1 else '>=2 oscillations'}, "
           f"{'time axis undersamples a frequency' if case['under'] else 'time axis resolves all frequencies'}")
    if sorted(labels) != sorted(case["clp"]) or mat.shape != (len(times), 2 * n):
        _first(res, "DampedOscillation[no irf].clp_labels", f"labels {labels} shape {mat.shape}; specification: {case['clp']}, ({len(times)}, {2 * n})")
        return res
    for l, lab in enumerate(case["labels"]):
        for part, fn in (("cos", D.osc_cos), ("sin", D.osc_sin)):
            res["evals"] += 1
            col = mat[:, labels.index(f"{lab}_{part}")]
            exp = np.array([fn(rates[l], freqs[l], t) for t in times])
            scale = max(1.0, float(np.max(np.abs(exp))))
            bad = np.abs(col - exp) > 1e-9 * scale
            if bad.any():
                a = int(np.argmax(np.abs(col - exp)))
                _first(res, key, f"column '{lab}_{part}' (rate {case['rates'][l]}, {case['freqs'][l]} cm^-1) at t={times[a]}: {float(col[a])!r}, "
                                 f"{'Re' if part == 'cos' else 'Im'} exp(-gamma t - i omega t) = {float(exp[a])!r}")
    if n >= 2 or case["under"]:
        res["nontriv"].append("osc:" + json.dumps(case["bc"], sort_keys=True))
    return res


def _irf_setup(case):
    from . import drivers_irf as D
    irf = case["irf"]
    cfg = irf["cfg"]
    item, pars = D.irf_items(cfg, irf["shifts"])
    ng = max(cfg["nc"], cfg["nw"])
    if cfg["hasScale"] and irf["eff"][0]["scales"] != D.SCALE_TAB[:ng]:
        raise MachineryError("harness scale table differs from IrfIndex!ScaleTab")
    return irf, cfg, item, pars, ng


def _plain_for(eff, cfg):
    from . import drivers_irf as D
    return D.plain_irf_items(D.frs(eff["centres"]), D.frs(eff["widths"]), D.frs(eff["scales"]) if cfg["hasScale"] else None, cfg["normalize"], cfg["scalar"])


def _nontriv_indices(res, cid, irf, cfg):
    for i, eff in enumerate(irf["eff"]):
        if any(eff["centres"][g] != cfg["centres"][0 if cfg["nc"] == 1 else g] for g in range(len(eff["centres"]))):
            res["nontriv"].append(f"{cid}#{i}")


def replay_oscirf(case):
    """damped oscillation / PFID with Gaussian IRF"""
    import numpy as np

    from . import drivers_irf as D
    pfid = case["kind"] == "pfid"
    irf, cfg, item, pars, ng = _irf_setup(case)
    cid = json.dumps([case["bc"], cfg["nc"], cfg["nw"], cfg["scalar"], cfg["valVar"], cfg["shiftVar"], cfg["spectral"], cfg["wn"], len(cfg["cdisp"]), len(cfg["wdisp"])], sort_keys=True)
    res = {"evals": 0, "nontriv": [], "viol": [], "skip": {}, "cid": cid}
    if not irf["widthsPositive"]:
        res["skip"]["effective width <= 0 at some index"] = 1
        return res
    name = "pfid" if pfid else "damped-oscillation"
    disp = "PFID" if pfid else "DampedOscillation[gaussian irf]"
    n = len(case["labels"])
    rates, times = D.frs(case["rates"]), D.frs(case["times"])
    mpars = {"of": D.frs(case["params"]), "og": rates}
    axis = [float(x) for x in cfg["axis"]]
    dsx = {}
    if pfid and case["mode"] == "inverted":
        dsx = {"spectral_axis_inverted": True, "spectral_axis_scale": D.fr(case["scale"])}
    elif pfid and case["mode"] == "scaled":
        dsx = {"spectral_axis_scale": D.fr(case["scale"])}
    mega = _osc_parts(case, name)
    dm, mc, _, _ = D.build(mega, item, {**mpars, **pars}, None, dsx)
    labels, full = mc.calculate_matrix(dm, np.asarray(axis), np.asarray(times))
    labels = list(labels)
    if sorted(labels) != sorted(case["clp"]):
        _first(res, f"{disp}.clp_labels", f"labels {labels}; specification {case['clp']}")
        return res
    full = D.by_label(labels, full, case["clp"])
    # (0) every entry is a number (the convolution is finite everywhere)
    if not np.all(np.isfinite(full)):
        res["evals"] += 1
        bad = np.argwhere(~np.isfinite(full))[0]
        i, a, j = (int(bad[0]), int(bad[1]), int(bad[2])) if full.ndim == 3 else (0, int(bad[0]), int(bad[1]))
        eff = irf["eff"][i]
        _first(res, f"{disp}.finite: non-finite matrix entry",
               f"index {i} (axis {axis[i]}), column '{case['clp'][j]}', t={times[a]}: {float(full[tuple(bad)])!r} "
               f"(centres {eff['centres']}, widths {eff['widths']}, rates {case['rates']}, frequencies {case['freqs']} cm^-1)")
        return res
    # (1) EffectivePosition: own kernel with the plain IRF Effective(i)
    for i, eff in enumerate(irf["eff"]):
        res["evals"] += 1
        pitem, ppars = _plain_for(eff, cfg)
        dmp, mcp, _, _ = D.build(mega, pitem, {**mpars, **ppars}, None, dsx)
        pl_labels, pl = mcp.calculate_matrix(dmp, np.asarray(axis), np.asarray(times))
        pl = D.by_label(pl_labels, pl, case["clp"])
        pl = pl[i] if pl.ndim == 3 else pl
        mi = full[i] if full.ndim == 3 else full
        d = np.abs(mi - pl)
        tol = 1e-9 * max(1.0, float(np.max(np.abs(pl))))
        if not np.all(d <= tol):
            a = np.unravel_index(int(np.argmax(d)), d.shape)
            _first(res, f"EffectivePosition[{name}]: {D.feature_class(cfg)}",
                   f"index {i} (axis {axis[i]}), column '{case['clp'][a[1]]}', t={times[a[0]]}: {float(mi[a])!r}; the same megacomplex with the plain IRF "
                   f"Effective({i}) = centres {eff['centres']} (centre - shift {irf['shifts'][i]} + dispersion), widths {eff['widths']} gives {float(pl[a])!r}")
            return res
    _nontriv_indices(res, cid, irf, cfg)
    # (2) zero region, (3) tail region with one constant K
    zero_region, tail_region = ("after", "before") if pfid else ("before", "after")
    regions = case["regions"]
    zmax = 0.0
    entries = []  # (i, l, a, z, e)
    for i, eff in enumerate(irf["eff"]):
        mi = full[i] if full.ndim == 3 else full
        cs, ws, wts = D.frs(eff["centres"]), D.frs(eff["widths"]), D.frs(eff["weights"])
        for l in range(n):
            if pfid:
                omega = D.OMEGA_PER_WAVENUMBER * (axis[i] - float(case["freqs"][l]))
            else:
                omega = D.OMEGA_PER_WAVENUMBER * float(case["freqs"][l])
            for a, t in enumerate(times):
                r = regions[i][l][a]
                if r == "na":
                    res["skip"]["rate sign for which the property makes no before/after claim"] = res["skip"].get("rate sign for which the property makes no before/after claim", 0) + 1
                    continue
                if r == "inside":
                    res["skip"]["inside the pulse: undecided (complex error function)"] = res["skip"].get("inside the pulse: undecided (complex error function)", 0) + 1
                    continue
                res["evals"] += 1
                z = complex(mi[a, l], mi[a, n + l])
                if r == zero_region:
                    if not (abs(z) <= 1e-12):      # NaN-safe
                        _first(res, f"{disp}.{'AfterPulse' if pfid else 'BeforePulse'}: non-zero {'after' if pfid else 'before'} the pulse",
                               f"index {i}, oscillation '{case['labels'][l]}', t={t} ({'after' if pfid else 'before'} the pulse: centres {eff['centres']}, "
                               f"widths {eff['widths']}): cos/sin columns = {z.real!r}, {z.imag!r}; specification: 0")
                        return res
                else:
                    re = im = 0.0
                    for g in range(ng):
                        tr, ti = D.tail(rates[l], omega, t - cs[g], ws[g])
                        re += wts[g] * tr
                        im += wts[g] * ti
                    entries.append((i, l, a, z, complex(re, im)))
                    zmax = max(zmax, abs(complex(re, im)))
    if entries:
        big = max(entries, key=lambda x: abs(x[4]))
        clause = f"{disp}.{'BeforePulse' if pfid else 'AfterPulse'}: not one constant times the {'anti-causal' if pfid else 'causal'} tail"
        if abs(big[4]) < 1e-250:
            K = None
        else:
            K = big[3] / big[4]
            if abs(K) < 1e-6 or abs(K.imag) > 1e-9 * abs(K):
                _first(res, clause, f"index {big[0]}, oscillation '{case['labels'][big[1]]}', t={times[big[2]]}: columns {big[3]!r}, tail {big[4]!r}: ratio {K!r} is not a non-zero real constant")
                return res
            res["nontriv"].append("K:" + cid)
        for (i, l, a, z, e) in entries:
            want = (K * e) if K is not None else 0j
            scale = max(abs(K) * zmax if K is not None else 0.0, 1e-3)
            if not (abs(z - want) <= 1e-9 * scale):      # NaN-safe
                _first(res, clause, f"index {i}, oscillation '{case['labels'][l]}', t={times[a]}: columns {z!r}; K * tail = {want!r} with K = {K!r} fixed at "
                                    f"index {big[0]}, '{case['labels'][big[1]]}', t={times[big[2]]}")
                return res
    return res


def replay_art(case):
    import numpy as np

    from . import drivers_irf as D
    irf, cfg, item, pars, ng = _irf_setup(case)
    cid = json.dumps([case["bc"], cfg["nc"], cfg["nw"], cfg["scalar"], cfg["valVar"], cfg["shiftVar"], cfg["spectral"], cfg["wn"], len(cfg["cdisp"]), len(cfg["wdisp"])], sort_keys=True)
    res = {"evals": 0, "nontriv": [], "viol": [], "skip": {}, "cid": cid}
    if not irf["widthsPositive"]:
        res["skip"]["effective width <= 0 at some index"] = 1
        return res
    order = case["order"]
    times = D.frs(case["times"])
    axis = [float(x) for x in cfg["axis"]]
    mega = {"type": "coherent-artifact", "order": order}
    mpars = {}
    if case["ownWidth"] != 0:
        mega["width"] = "aw.1"
        mpars["aw"] = [D.fr(case["width"])]
    want_labels = [f"coherent_artifact_{k}_m" for k in range(1, order + 1)]
    dm, mc, _, _ = D.build(mega, item, {**mpars, **pars})
    labels, full = mc.calculate_matrix(dm, np.asarray(axis), np.asarray(times))
    if sorted(labels) != sorted(want_labels):
        _first(res, "CoherentArtifact.clp_labels", f"labels {list(labels)}; expected {want_labels}")
        return res
    full = D.by_label(labels, full, want_labels)
    for i, eff in enumerate(irf["eff"]):
        res["evals"] += 1
        pitem, ppars = _plain_for(eff, cfg)
        dmp, mcp, _, _ = D.build(mega, pitem, {**mpars, **ppars})
        pl_labels, pl = mcp.calculate_matrix(dmp, np.asarray(axis), np.asarray(times))
        pl = D.by_label(pl_labels, pl, want_labels)
        pl = pl[i] if pl.ndim == 3 else pl
        mi = full[i] if full.ndim == 3 else full
        d = np.abs(mi - pl)
        tol = 1e-9 * np.maximum(1.0, np.max(np.abs(pl), axis=0))
        if not np.all(d <= tol):
            a = np.unravel_index(int(np.argmax(d / tol)), d.shape)
            _first(res, f"EffectivePosition[coherent-artifact]: {D.feature_class(cfg)}",
                   f"index {i} (axis {axis[i]}), order {a[1] + 1}, t={times[a[0]]}: {float(mi[a])!r}; with the plain IRF Effective({i}) = centres {eff['centres']}, "
                   f"widths {eff['widths']}: {float(pl[a])!r}")
            return res
    _nontriv_indices(res, cid, irf, cfg)
    for i in range(len(axis)):
        mi = full[i] if full.ndim == 3 else full
        c, w = D.fr(case["centres"][i]), D.fr(case["widths"][i])
        exp = np.zeros((len(times), order))
        for a, t in enumerate(times):
            ex = case["exact"][i][a]
            if ex["clean"]:
                g, p1, p2 = D.gauss_of_arg(D.fr(ex["garg"])), D.fr(ex["p1"]), D.fr(ex["p2"])
            else:
                g, p1, p2 = D.gauss_of_arg((t - c) ** 2 / (2 * w * w)), (c - t) / (w * w), ((t - c) ** 2 - w * w) / w ** 4
            exp[a, 0] = g
            if order > 1:
                exp[a, 1] = p1 * g
            if order > 2:
                exp[a, 2] = p2 * g
        for k in range(order):
            res["evals"] += 1
            scale = max(1.0, float(np.max(np.abs(exp[:, k]))))
            d = np.abs(mi[:, k] - exp[:, k])
            if not np.all(d <= 1e-9 * scale):
                a = int(np.argmax(d))
                _first(res, f"CoherentArtifact.order{k + 1}: {'own width' if case['ownWidth'] else 'irf width'}",
                       f"index {i}, t={times[a]}, centre {case['centres'][i]}, width {case['widths'][i]}: column {float(mi[a, k])!r}; "
                       f"{['Gauss', '(c-t)/w^2 Gauss', '((t-c)^2-w^2)/w^4 Gauss'][k]} = {float(exp[a, k])!r}")
                return res
    return res


def replay_shape(case):
    import numpy as np

    from . import drivers_irf as D
    res = {"evals": 0, "nontriv": [], "viol": [], "skip": {}, "cid": "shape"}
    typ = "skewed-gaussian" if case["skewed"] else "gaussian"
    b = case["b"]["sgn"] * 2.0 ** (-case["b"]["e"]) if case["b"]["sgn"] else 0.0
    amp, loc, fwhm = D.fr(case["amp"]), D.fr(case["loc"]), D.fr(case["fwhm"])
    shape = {"type": typ, "location": "sl.1", "width": "sw.1"}
    pars = {"sl": [loc], "sw": [fwhm]}
    if case["ampGiven"]:
        shape["amplitude"] = "sa.1"
        pars["sa"] = [amp]
    if case["skewed"]:
        shape["skewness"] = "sk.1"
        pars["sk"] = [b]
    dsx = {}
    if case["mode"] == "inverted":
        dsx = {"spectral_axis_inverted": True, "spectral_axis_scale": D.fr(case["scale"])}
    elif case["mode"] == "scaled":
        dsx = {"spectral_axis_scale": D.fr(case["scale"])}
    dm, mc, _, _ = D.build({"type": "spectral", "shape": {"s1": "sh1"}}, None, pars, {"shape": {"sh1": shape}}, dsx)
    xs = [D.fr(p["x"]) for p in case["points"]]
    axis_arg = np.asarray(xs, dtype=float)
    axis_keep = axis_arg.copy()
    labels, mat = mc.calculate_matrix(dm, np.asarray([0.0]), axis_arg)
    col = np.asarray(mat)[:, list(labels).index("s1")]
    aabs = abs(amp)
    # the axis belongs to the caller (the optimiser passes the same array at every evaluation): it is left as it is and a second
    # evaluation on it gives the same column
    if not np.array_equal(axis_arg, axis_keep):
        _first(res, f"SpectralShape[{typ}].axis untouched: {case['mode']} spectral axis", f"calculate_matrix changed the model axis it was given: {axis_keep.tolist()} -> {axis_arg.tolist()}")
    else:
        labels2, mat2 = mc.calculate_matrix(dm, np.asarray([0.0]), axis_arg)
        col2 = np.asarray(mat2)[:, list(labels2).index("s1")]
        if not np.array_equal(col, col2, equal_nan=True):
            _first(res, f"SpectralShape[{typ}].repeatable: {case['mode']} spectral axis", "a second evaluation on the same axis gives another column")

    def key(clause):
        return f"SpectralShape[{typ}].{clause}: {case['mode']} spectral axis"

    for k, p in enumerate(case["points"]):
        res["evals"] += 1
        v = float(col[k])
        fact = p["fact"]
        usq = D.fr(p["usq"])
        g0 = D.shape_gauss(amp, usq)
        if not math.isfinite(v):
            _first(res, key("finite"), f"x'={p['xp']}: {v!r}")
        elif fact == "zero":
            # theta < 0: exactly 0.  theta = 0 exactly: the transformed float axis may leave theta a few ulp above 0, where the
            # formula's value is A exp(-ln2 (ln theta / b)^2) <= |A| 1e-60 for the enumerated |b| <= 2 (the right limit is 0)
            th = D.fr(p["theta"])
            if (v != 0.0) if th < 0 else (abs(v) > 1e-60 * aabs):
                _first(res, key("theta<=0 => 0"), f"x'={p['xp']} (theta = {p['theta']}): {v!r}, specification: 0")
        elif fact == "amp":
            if not D.close(v, amp, aabs):
                _first(res, key("amplitude at the location"), f"x'={p['xp']} = location: {v!r}, amplitude {amp!r}")
        elif fact == "half":
            if not D.close(v, amp / 2, aabs):
                _first(res, key("half maximum at +-FWHM/2"), f"x'={p['xp']} (location {case['loc']}, FWHM {case['fwhm']}): {v!r}, A/2 = {amp / 2!r}")
        elif fact == "gauss":
            if not D.close(v, g0, aabs):
                _first(res, key("Gaussian formula"), f"x'={p['xp']}: {v!r}, A 2^(-u^2) = {g0!r} (u^2 = {p['usq']})")
        elif fact == "skew":
            e = D.shape_skew(amp, D.fr(p["theta"]), b)
            if not D.close(v, e, aabs):
                _first(res, key("skewed-Gaussian formula"), f"x'={p['xp']}: {v!r}, A exp(-ln2 (ln theta / b)^2) = {e!r} (theta = {p['theta']}, b = {b})")
        if case["skewed"] and b != 0.0:       # continuity in the skewness, on the whole axis
            if not abs(v - g0) <= 8 * abs(b) * aabs * (1 + 1e-12) + 4e-16 * aabs:
                _first(res, key("continuity in skewness"), f"x'={p['xp']}, b = {b!r}: |Shape_b - Shape_0| = {abs(v - g0)!r} > 8 |b| |A| = {8 * abs(b) * aabs!r}")
    if case["skewed"] and b != 0.0:
        res["nontriv"].append("shape:" + json.dumps(case["bc"], sort_keys=True))
    elif case["mode"] != "plain":
        res["nontriv"].append("shape:" + json.dumps(case["bc"], sort_keys=True))
    return res


def replay_any(case):
    k = case["kind"]
    if k == "osc":
        return replay_osc(case)
    if k in ("oscirf", "pfid"):
        return replay_oscirf(case)
    if k == "art":
        return replay_art(case)
    if k == "shape":
        return replay_shape(case)
    raise MachineryError(f"unknown case kind {k}")


def _work(job):
    import warnings
    kind, case = job
    warnings.simplefilter("ignore", RuntimeWarning)     # overflow inside the kernels is reported through the 'finite' clause
    try:
        return kind, case, replay_any(case)
    except MachineryError as e:
        return kind, case, {"machinery": str(e)}
    except Exception as e:  # noqa: BLE001
        import traceback
        from .core import raised_by_implementation
        site = raised_by_implementation(e)
        if site is not None:
            # the library raised on a configuration the specification counts as legal: a verdict, not a breakdown of the harness
            return kind, case, {"evals": 1, "nontriv": [], "skip": {}, "cid": "", "viol": [(f"Basis[{kind}]: the model raises {type(e).__name__} in {site}",
                                f"evaluating a legal configuration raised {type(e).__name__}: {str(e)[:200]} (in {site})")]}
        return kind, case, {"machinery": f"{type(e).__name__}: {e}\n{traceback.format_exc()[-1800:]}"}


def pool(jobs, procs):
    import multiprocessing as mp
    if len(jobs) <= 4:
        return [_work(j) for j in jobs]
    with mp.get_context("fork").Pool(processes=procs) as p:
        return p.map(_work, jobs, chunksize=25)


def run_sharded(consts: dict, tier: str):
    """One checking run (all kinds) and one emission run per kind, side by side."""
    box: dict = {}

    def go(name, *a, **kw):
        try:
            box[name] = run_tlc(*a, **kw)
        except BaseException as e:  # noqa: BLE001
            box[name] = e

    threads = [threading.Thread(target=go, args=("check", "Basis", cfg_text(consts, False)),
                                kwargs=dict(workers=8 if tier == "quick" else 10, timeout=2400, heap="4g"))]
    for k in consts["Kinds"]:
        c = dict(consts, Kinds=[k])
        threads.append(threading.Thread(target=go, args=("emit:" + k, "BasisEmit", cfg_text(c, True)),
                                        kwargs=dict(workers=1, timeout=2400, coverage=False, heap="3g")))
    for t in threads:
        t.start()
    for t in threads:
        t.join()
    for k, v in box.items():
        if isinstance(v, BaseException):
            raise v
    return box


def run(tier: str, replay=None) -> int:
    chk = Check("C07", tier)
    chk.rule = ("every case TLC enumerates for spec/Basis.tla (1-3 oscillations x rate-sign pattern x frequency set x time axis; with IRF: x the "
                "IrfIndex fan-out of Gaussians, broadcast shape, narrow/wide pulse, shift, centre/width dispersion order, dispersion variable; "
                "PFID x plain/scaled/inverted axis; artifact order 1-3 x own/IRF width; shapes: amplitude x location x FWHM x skewness class x axis "
                "mode) is replayed on the real megacomplex; evaluations = (index, column/clause) comparisons; non-trivial = an index whose effective "
                "centre differs from the nominal one, a matrix whose constant K was determined, >= 2 oscillations or an undersampled axis, a skewed "
                "or axis-transformed shape")
    chk.assumptions = [
        "decided: quadrature pairing, before/after-pulse behaviour, shared effective position, artifact derivatives, shape facts, continuity in "
        "skewness. NOT decided: proportionality to the convolution inside the pulse (complex error function; DESIGN §6)",
        "sin column sign: Im exp(-gamma t - i omega t) = -exp(-gamma t) sin(omega t) (docstring of the kernel: 'real and imaginary part of the "
        "oscillation'; property: 'quadratures of exp(-gamma t - i omega t)')",
        "omega = 2 pi 0.03 nu (cm^-1 -> rad/ps) as documented in the megacomplex code; PFID: omega = 2 pi 0.03 (probe wavenumber - nu), nu after the "
        "documented axis transformation (scale/nu when inverted, nu*scale when scaled)",
        "regions: oscillation before t-c <= -10w, after t-c >= 7w + (gamma+omega)w^2; PFID after t-c >= 10w, before t-c <= -7w - (|gamma|+|domega|)w^2, "
        "for every Gaussian of the IRF, decided by the specification with outward-rounded centres/widths and pi < 22/7",
        "one K per matrix (all t, oscillations, indices); its value (2 resp. -2 in the unchanged code) is not prescribed",
        "damped oscillation with IRF and negative rate, PFID with non-negative rate: no before/after claim (only the differential position check)",
        "coherent artifact with a multi-Gaussian IRF: the property does not say which Gaussian; only the differential check and the closed forms "
        "at the FIRST Gaussian's effective centre/width (what the differential check reduces to) are compared",
        "per case the first failing clause is reported (differential position -> zero region -> tail region / closed forms)",
        "NUMBA_NUM_THREADS defaults to 2 in the replay workers; trusted: TLC, CommunityModules Json, CPython/numpy exp, cos, sin, log",
    ]
    if replay:
        r = replay["replay"]
        collect(chk, "c07", [_work((r["kind"], r["case"]))], sample_every=1)
        return chk.finish()
    consts = constants(tier)
    box = run_sharded(consts, tier)
    check = box["check"]
    require_actions(check, ["ChooseOsc", "ChooseOscIrf", "ChoosePfid", "ChooseArt", "ChooseSpectral", "IrfStep"])
    chk.add_tlc(check, f"Basis[{tier}]")
    from .drivers_irf import parse_emitted
    want = expected_counts(consts)
    cases = []
    chk.extra["emit_runs"] = {}
    for k in consts["Kinds"]:
        em = box["emit:" + k]
        got = parse_emitted(em["stdout"]).get("CASE", [])
        chk.extra["emit_runs"][k] = {"cases": len(got), "wall_s": em.get("wall_s")}
        if len(got) != want[k] or any(c["kind"] != k for c in got):
            raise MachineryError(f"emission incomplete for kind {k}: {len(got)} cases parsed, expected {want[k]}")
        cases += got
    rng = random.Random(seed())
    rng.shuffle(cases)     # balance the shards
    results = pool([(c["kind"], c) for c in cases], procs=8 if tier == "quick" else 12)
    collect(chk, "c07", results, sample_every=max(1, len(cases) // 5))
    chk.extra["cases_replayed"] = {k: want[k] for k in consts["Kinds"]}
    return chk.finish()
