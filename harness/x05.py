"""X05 (growth beyond the listed properties) — labels of a scheme's datasets (load_datasets / DatasetMapping.loader).

spec/DatasetNames.tla: sequences and mappings of files / datasets with and without source_path; LabelsAreDistinct,
EveryLabelIsDue, LaterWins, MappingKeepsAll, LostOnlyByCollision hold; NoDatasetLost is refuted by TLC (named deviation
CollisionLoses: two sequence items with the same stem, or a generated dataset_<i> label meeting a real one).  Every complete
input of the state graph is replayed on the real load_datasets and on Scheme(data=...): labels, which item each label maps to.
"""
from __future__ import annotations

import shutil
import tempfile
import warnings
from pathlib import Path

from .core import Check, MachineryError
from .tlc import printed_json, require_actions, run_tlc


def run(tier: str, replay=None) -> int:
    import numpy as np
    import xarray as xr
    from glotaran.io import save_dataset
    from glotaran.utils.io import load_datasets
    chk = Check("X05", tier)
    chk.rule = "every sequence / mapping of <= 3 (4 in thorough) items over 2 stems; non-trivial = two items share a label"
    maxlen = 3 if tier == "quick" else 4
    cfg = f'SPECIFICATION Spec\nCONSTANTS\n  Stems = {{"x", "dataset_2"}}\n  MaxLen = {maxlen}\nCHECK_DEADLOCK FALSE\n'
    invs = "INVARIANT LabelsAreDistinct\nINVARIANT EveryLabelIsDue\nINVARIANT LaterWins\nINVARIANT MappingKeepsAll\nINVARIANT LostOnlyByCollision\n"
    res = run_tlc("DatasetNames", cfg + invs, workers=4, timeout=1800)
    require_actions(res, ["AddItem", "StartSequence", "StartMapping", "Process"])
    chk.add_tlc(res, "DatasetNames")
    dev = run_tlc("DatasetNames", cfg + "INVARIANT NoDatasetLost\n", workers=1, timeout=1800, coverage=False, allow_violation=True)
    if dev.get("violated") != "NoDatasetLost":
        raise MachineryError("DatasetNames: the named deviation CollisionLoses was expected to refute NoDatasetLost, TLC did not")
    chk.extra["named_deviation"] = "CollisionLoses: NoDatasetLost refuted by TLC (two sequence items with the same label: the later replaces the earlier silently)"
    em = run_tlc("DatasetNamesEmit", cfg + "CONSTRAINT Emit\n", workers=1, timeout=1800, coverage=False)
    cases = printed_json(em["stdout"], "CASE")
    if not cases:
        raise MachineryError("DatasetNamesEmit: no cases")
    td = Path(tempfile.mkdtemp(prefix="verif_x05_"))
    try:
        files = {}

        def item(it, i):
            """A real input item whose data carry the marker i."""
            ds = xr.DataArray(np.full((2, 2), float(i)), coords=[("time", [0.0, 1.0]), ("spectral", [1.0, 2.0])]).to_dataset(name="data")
            if it["kind"] == "file":
                f = td / f"dir{i}" / f"{it['stem']}.nc"
                if f not in files:
                    f.parent.mkdir(parents=True, exist_ok=True)
                    save_dataset(ds, f, allow_overwrite=True)
                    files[f] = True
                return str(f) if i % 2 else f
            if it["kind"] == "ds_src":
                ds.attrs["source_path"] = f"somewhere{i}/{it['stem']}.nc"
                return ds
            return ds if i % 2 else ds.data       # a Dataset or a bare DataArray without source_path

        for c in cases:
            chk.evaluations += 1
            real = [item(it, i + 1) for i, it in enumerate(c["input"])]
            arg = real if c["mode"] == "sequence" else dict(zip(c["keys"], real))
            key = f"DatasetNames[{c['mode']}]: " + ",".join(f"{it['kind']}:{it['stem']}" for it in c["input"]) + (f" keys={c['keys']}" if c["mode"] == "mapping" else "")
            rep = {"engine": "x05", "case": c}
            try:
                with warnings.catch_warnings():
                    warnings.simplefilter("ignore")
                    got = load_datasets(arg)
            except Exception as ex:  # noqa: BLE001
                chk.violation(key + " raises", f"load_datasets raised {type(ex).__name__}: {str(ex)[:200]}", rep)
                continue
            got_map = [[k, int(float(v.data.values[0, 0]))] for k, v in got.items()]
            want = [[l, i] for l, i in c["result"]]
            if got_map != want:
                chk.violation(key, f"load_datasets gives (label, item) {got_map}, specification {want}", rep)
            chk.traces += 1
            if len(want) < len(c["input"]):
                chk.nontriv(key)
        chk.sample(cases[len(cases) // 2])
    finally:
        shutil.rmtree(td, ignore_errors=True)
    return chk.finish()
