"""Driver for the C09 trace acceptor: random linked schemes well outside the exhaustively explored bounds (3-5 datasets,
axes of up to 9 points on a wide half-step grid, tolerances up to 3 spacings), evaluated once with hooks on so that every
DataProviderLinked emits an "aligned" event.  Usage: python -m harness.drivers_align <seed> <n>"""
from __future__ import annotations

import random
import sys
import warnings


def main():
    seed, n = int(sys.argv[1]), int(sys.argv[2])
    rng = random.Random(seed)
    from glotaran.optimization.data_provider import AlignDatasetError
    from .c09 import e2e_case
    from .lattice import build, objective
    done = refused = 0
    for _ in range(n):
        nds = rng.randint(2, 5)
        axes = [sorted(rng.sample(range(0, 40), rng.randint(1, 9))) for _ in range(nds)]
        tol = rng.choice([0, 1, 2, 3, 4, 6])
        method = rng.choice(["nearest", "forward", "backward"])
        case = e2e_case(axes, tol, method, rng, {i for i in range(nds) if rng.random() < 0.3})
        names = rng.sample(["zeta", "alpha", "mu", "beta", "omega", "b", "ab", "a"], nds)     # declaration order is not alphabetical order
        for d_, name in zip(case["datasets"], names):
            d_["label"] = name
        try:
            with warnings.catch_warnings():
                warnings.simplefilter("ignore")
                objective(build(case))
            done += 1
        except AlignDatasetError:
            refused += 1
        except Exception as ex:  # noqa: BLE001  - reported to the acceptor, which judges it
            from glotaran.utils import verif_trace
            verif_trace.emit("driver_error", error=f"{type(ex).__name__}: {str(ex)[:200]}", axes=axes, tol=tol, method=method, labels=names)
    print(f"aligned={done} refused={refused}")


if __name__ == "__main__":
    main()
