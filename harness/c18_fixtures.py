"""Small real pyglotaran objects shared by the C18 replay engines (one tiny decay model, 4x2 data)."""
from __future__ import annotations

import hashlib
import os
from functools import lru_cache
from pathlib import Path

MODEL_YML = """\
default_megacomplex: decay
initial_concentration:
  j1: {compartments: [s1], parameters: [j.1]}
megacomplex:
  mc1: {k_matrix: [k1]}
k_matrix:
  k1:
    matrix:
      (s1, s1): kinetic.1
dataset:
  d1:
    initial_concentration: j1
    megacomplex: [mc1]
"""
PARAMETERS_YML = """\
j:
  - ["1", 1, {vary: false, non-negative: false}]
kinetic:
  - ["1", 0.5]
"""


@lru_cache(maxsize=32)
def dataset(value: float = 1.0):
    """Noise-free 4x2 data of the model; `value` scales the amplitudes (distinct content per version)."""
    import numpy as np
    import xarray as xr
    from glotaran.io import load_model, load_parameters
    from glotaran.simulation import simulate

    time_axis = np.arange(0, 4, 1.0)
    spectral = np.array([0.0, 1.0])
    clp = xr.DataArray([[1.0 * value], [2.0 * value]], coords=[("spectral", spectral), ("clp_label", ["s1"])])
    return simulate(load_model(MODEL_YML, format_name="yml_str"), "d1", load_parameters(PARAMETERS_YML, format_name="yml_str"),
                    {"time": time_axis, "spectral": spectral}, clp=clp)


@lru_cache(maxsize=4)
def objects(purpose: str = "project") -> dict:
    """dataset, model, parameters, scheme and a real one-evaluation Result; one independent set per purpose
    (saving updates source_path attributes of the saved objects, and a Result serialises the source_path its scheme
    was last saved to - the save-protocol replay must not leak such references into the project replay)."""
    import warnings

    from glotaran.io import load_model, load_parameters
    from glotaran.optimization.optimize import optimize
    from glotaran.project import Scheme

    with warnings.catch_warnings():
        warnings.simplefilter("ignore")
        model = load_model(MODEL_YML, format_name="yml_str")
        pars = load_parameters(PARAMETERS_YML, format_name="yml_str")
        ds = dataset()
        scheme = Scheme(model, pars, {"d1": ds}, maximum_number_function_evaluations=1)
        result = optimize(scheme, verbose=False)
    return {"dataset": ds, "model": model, "parameters": pars, "scheme": scheme, "result": result}


# ----------------------------------------------------------------------------- file system observation
def snapshot(root: Path) -> dict:
    """relative posix path -> ("dir", "", 0) | ("file", sha1 of bytes, mtime_ns) for everything below root."""
    snap = {}
    for dirpath, dirnames, filenames in os.walk(root):
        for d in dirnames:
            p = Path(dirpath) / d
            snap[p.relative_to(root).as_posix()] = ("dir", "", 0)
        for f in filenames:
            p = Path(dirpath) / f
            snap[p.relative_to(root).as_posix()] = ("file", hashlib.sha1(p.read_bytes()).hexdigest(), p.stat().st_mtime_ns)
    return snap


def folder_digest(folder: Path) -> str:
    """Digest of names, bytes and mtimes of everything below folder."""
    h = hashlib.sha1()
    for rel, (kind, sha, mtime) in sorted(snapshot(folder).items()):
        h.update(f"{rel}|{kind}|{sha}|{mtime}\n".encode())
    return h.hexdigest()


def file_digest(path: Path):
    if not path.exists():
        return None
    return (hashlib.sha1(path.read_bytes()).hexdigest(), path.stat().st_mtime_ns)
