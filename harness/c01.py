"""C01 — the linear sub-problem is solved optimally (variable projection and NNLS).

spec/LeastSquares.tla enumerates integer instances (A, y) by fan-out, computes the exact VP and NNLS
solutions over the integers and checks orthogonality / KKT / minimality on them; every emitted instance
is passed to the real residual_variable_projection / residual_nnls (C and F order, 2^k-scaled data) and
the clps and residual compared with the exact rationals.
"""
from __future__ import annotations

import json
import random
from concurrent.futures import ThreadPoolExecutor
from fractions import Fraction

from .core import Check, MachineryError, seed
from .tlc import printed_json, require_actions, run_tlc

TOL = 1e-9


def cfg(M, N, avals, yvals, catalogue, invariants, emit=False, shard=None):
    lines = ["SPECIFICATION Spec", "CONSTANTS", f"  M = {M}", f"  N = {N}", f"  AVals {avals}", f"  YVals {yvals}",
             f"  Catalogue <- {catalogue}", "CHECK_DEADLOCK FALSE"]
    if emit:
        lines.append("CONSTRAINT Emit")
    lines += [f"INVARIANT {i}" for i in invariants]
    return "\n".join(lines) + "\n"


_PROVIDERS: dict = {}


def _provider(name: str):
    if name not in _PROVIDERS:
        from glotaran.optimization import estimation_provider as ep

        class G:
            residual_function = name
        _PROVIDERS[name] = ep.EstimationProvider(G())
    return _PROVIDERS[name]


def compare(chk: Check, case, where: str):
    import numpy as np
    from glotaran.optimization.nnls import residual_nnls
    from glotaran.optimization.variable_projection import residual_variable_projection

    A = np.array(case["A"], dtype=float)
    y = np.array(case["y"], dtype=float)
    n = A.shape[1]
    desc = f"A={case['A']} y={case['y']}"
    variants = [("variable_projection", residual_variable_projection, case["vp"], case["vpres"]),
                ("non_negative_least_squares", residual_nnls, case["nnls"], case["nnlsres"])]
    if "scales" not in case and not case.get("colscale"):
        # the entry point the fit uses: EstimationProvider.calculate_residual of a group with that residual function
        variants += [("variable_projection via EstimationProvider", _provider("variable_projection").calculate_residual, case["vp"], case["vpres"]),
                     ("non_negative_least_squares via EstimationProvider", _provider("non_negative_least_squares").calculate_residual, case["nnls"], case["nnlsres"])]
    for fname, fn, sol, res in variants:
        den = sol["den"]
        exp_clp = [Fraction(v, den) for v in sol["num"]]
        exp_res = [Fraction(v, den) for v in res]
        # the instances are integer valued: they are also passed as integer-typed arrays (detector counts are stored that way)
        dtypes = [("float64", "float64")]
        if "scales" not in case and not case.get("colscale"):
            dtypes += [("float64", "int64"), ("int32", "int32")]
        for order, (mdt, ydt) in [(o, d) for o in ("C", "F") for d in dtypes]:
            for k in case.get("scales", [0]):
                sc = 2.0 ** k
                # column scale lemma: A*diag(2^e) has the minimiser clp_j / 2^e_j and the same residual (exact in binary floating point; a
                # positive diagonal keeps the sign constraints), and a condition number up to 2^(max e - min e) times that of A
                ce = case.get("colscale")
                D = np.array([2.0 ** e for e in ce]) if ce else np.ones(n)
                As = A * D
                Ain = np.array(As, order=order, copy=True).astype(mdt)
                As = As.astype(mdt)
                yin = (y * sc).astype(ydt)
                ycall = yin.copy()
                clp, r = fn(Ain, ycall)
                chk.evaluations += 1
                if ce:
                    clp = np.asarray(clp)[:n] * D
                # the caller's matrix and data are inputs: an index-independent matrix is reused for every global index
                if not np.array_equal(Ain, As) or not np.array_equal(ycall, yin):
                    chk.violation(f"LeastSquares[{fname}]: input modified order={order} n={n}",
                                  f"{where} {fname} order={order}: the call modified its {'matrix' if not np.array_equal(Ain, A) else 'data'} argument ({desc}); a second index using the same matrix is solved with garbage",
                                  {"engine": "c01", "case": case})
                    continue
                clp = np.asarray(clp)[:n] / sc
                r = np.asarray(r) / sc
                scale = max(1.0, max(abs(float(v)) for v in exp_clp), max(abs(v) for v in case["y"]))
                bad = None
                if clp.shape != (n,) or r.shape != (len(case["y"]),):
                    bad = f"shapes clp{clp.shape} residual{r.shape}"
                elif not np.all(np.isfinite(clp)) or not np.all(np.isfinite(r)):
                    bad = "non-finite output"
                else:
                    dc = max(abs(float(c) - float(e)) for c, e in zip(clp, exp_clp))
                    dr = max(abs(float(c) - float(e)) for c, e in zip(r, exp_res))
                    if dc > TOL * scale:
                        bad = f"clp {clp.tolist()} != exact {[str(e) for e in exp_clp]} (diff {dc:.3g})"
                    elif dr > TOL * scale:
                        bad = f"residual {r.tolist()} != data - matrix*clp = {[str(e) for e in exp_res]} (diff {dr:.3g})"
                if bad:
                    key = f"LeastSquares[{fname}]: scale=2^{k}" if k != 0 else f"LeastSquares[{fname}]: {desc} order={order}"
                    if (mdt, ydt) != ("float64", "float64"):
                        key = f"LeastSquares[{fname}]: matrix dtype {mdt}, data dtype {ydt}: {desc} order={order}"
                    if ce:
                        key = f"LeastSquares[{fname}]: column scales 2^{ce} {desc} order={order}"
                    chk.violation(key, f"{where} {fname} order={order} data*2^{k} columns*2^{ce}: {bad}; {desc}",
                                  {"engine": "c01", "case": case})
    if case["active"] != list(range(1, n + 1)) or any(v % case["vp"]["den"] for v in case["vp"]["num"]):
        chk.nontriv(json.dumps([case["A"], case["y"]]))


def fit_paths(chk: Check, cases, rng, nsample):
    """The same exact instances through every path a fit takes to the linear solve: per-index estimation of an unlinked dataset, the stacked
    solve of a linked group, and the full-model solve (matrix kron(G, A) with G the 2x2 identity, data columns y and 2y), each with both residual
    functions.  The residual reported for the dataset must be the exact residual of the SELECTED minimiser."""
    import warnings
    import numpy as np
    from glotaran.optimization.optimize import optimize
    from . import lattice
    pick = [c for c in cases if any(v < 0 for v in c["vp"]["num"])]         # the two minimisers differ
    rest = [c for c in cases if c not in pick]
    sel = rng.sample(pick, min(nsample, len(pick))) + rng.sample(rest, min(max(2, nsample // 4), len(rest)))
    for c in sel:
        n = len(c["A"][0])
        labels = [f"c{j}" for j in range(n)]
        cols = [[row[j] for row in c["A"]] for j in range(n)]
        y = c["y"]
        for rf, sol, res in (("variable_projection", c["vp"], c["vpres"]), ("non_negative_least_squares", c["nnls"], c["nnlsres"])):
            want = np.array([float(Fraction(v, sol["den"])) for v in res])
            for path in ("unlinked", "linked", "full"):
                d = {"label": "d0", "group": "g", "axis": [0, 1], "data": [[v, 2 * v] for v in y], "mcs": [{"labels": labels, "cols": cols}]}
                if path == "full":
                    d["gmcs"] = [{"labels": ["ga", "gb"], "cols": [[1, 0], [0, 1]]}]
                case = {"groups": [{"label": "g", "link": path == "linked", "residual_function": rf, "datasets": ["d0"]}], "datasets": [d]}
                rep = {"engine": "c01-fit", "case": c, "path": path, "rf": rf}
                chk.evaluations += 1
                try:
                    with warnings.catch_warnings():
                        warnings.simplefilter("ignore")
                        result = optimize(lattice.build(case, max_nfev=1), verbose=False, raise_exception=True)
                    r = result.data["d0"].residual.transpose(lattice.MODEL_DIM, lattice.GLOBAL_DIM).values
                except Exception as ex:  # noqa: BLE001
                    chk.violation(f"LeastSquares[fit path {path}, {rf}] raises", f"{type(ex).__name__}: {str(ex)[:200]}; A={c['A']} y={y}", rep)
                    continue
                scale = max(1.0, max(abs(v) for v in y))
                if r.shape != (len(y), 2) or not (np.max(np.abs(r[:, 0] - want)) <= TOL * scale) or not (np.max(np.abs(r[:, 1] - 2 * want)) <= 2 * TOL * scale):
                    chk.violation(f"LeastSquares[fit path {path}, {rf}]: residual of the selected minimiser",
                                  f"{path} dataset, residual_function={rf}: reported residual {r.T.tolist()} is not data - matrix*clp of the selected minimiser "
                                  f"({want.tolist()} and twice that); A={c['A']} y={y}", rep)


def dispatch_checks(chk: Check):
    """EstimationProvider.calculate_residual dispatches on residual_function; unknown names are rejected."""
    import numpy as np
    from glotaran.optimization import estimation_provider as ep
    from glotaran.optimization.nnls import residual_nnls
    from glotaran.optimization.variable_projection import residual_variable_projection

    table = ep.SUPPORTED_RESIUDAL_FUNCTIONS
    if table.get("variable_projection") is not residual_variable_projection or table.get("non_negative_least_squares") is not residual_nnls:
        chk.violation("LeastSquares: dispatch table", f"residual function table maps to {table}", {"engine": "c01-dispatch"})

    class G:
        residual_function = "nope"
    try:
        ep.EstimationProvider(G())
        chk.violation("LeastSquares: unknown residual function accepted", "EstimationProvider accepted an unknown residual function", {"engine": "c01-dispatch"})
    except ep.UnsupportedResidualFunctionError:
        pass
    for name, fn in (("variable_projection", residual_variable_projection), ("non_negative_least_squares", residual_nnls)):
        class H:
            residual_function = name
        e = ep.EstimationProvider(H())
        A = np.array([[1.0, 0.0], [1.0, 1.0], [0.0, 2.0]])
        y = np.array([1.0, 2.0, 1.0])
        c1, r1 = e.calculate_residual(A.copy(), y.copy())
        c2, r2 = fn(A.copy(), y.copy())
        if not (np.array_equal(c1[:2], c2[:2]) and np.array_equal(r1, r2)):
            chk.violation(f"LeastSquares: dispatch {name}", "calculate_residual does not call the selected residual function", {"engine": "c01-dispatch"})
        chk.evaluations += 1


def run(tier: str, replay=None) -> int:
    chk = Check("C01", tier)
    rng = random.Random(seed())
    chk.rule = ("integer instances (A, y) enumerated row by row by TLC (plus a kinetic catalogue of nearly collinear integer columns); "
                "full-column-rank instances only (D8); non-trivial = NNLS active set is a proper subset or the LS solution is not an integer vector; "
                "distinct = distinct (A, y)")
    chk.assumptions = [
        "float vs exact: |f - p/q| <= 1e-9 * max(1, |clp|, |y|) on instances with condition number <= ~1e4",
        "2^k scaling of the data is exact in binary floating point, so huge/tiny data scales are compared after exact rescaling",
        "condition numbers up to ~1e10 are reached by exact column scaling A*diag(2^e) of the integer instances (spread of e up to 33); "
        "not decided: ill-conditioning that is not a column scaling beyond ~1e4 (backward error analysis of LAPACK QR / scipy nnls)",
        "trusted: TLC, fractions.Fraction for the final division num/den",
    ]
    if replay:
        if replay["replay"].get("engine") == "c01-fit":
            fit_paths(chk, [replay["replay"]["case"]], rng, 1)
        else:
            compare(chk, replay["replay"]["case"], "replay")
        return chk.finish()
    inv_small = ["Orthogonal", "NNLSCertificate", "NNLSMinimal", "VPMinimal", "ResidualIdentity"]
    inv_big = ["Orthogonal", "NNLSCertificate", "ResidualIdentity"]
    if tier == "quick":
        plans = [(3, 1, "= {0,1,2}", "<- NegVals", "NoCatalogue", inv_small),      # one column, data of either sign: NNLS must clip AND report the clipped residual
                 (3, 2, "= {0,1,2}", "= {0,1,2}", "NoCatalogue", inv_small),
                 (4, 2, "= {0}", "<- NegVals", "KineticCatalogue", inv_big),
                 (4, 3, "= {0}", "= {0,1,2}", "KineticCatalogue", inv_big)]
        scale_sample = 400
    else:
        plans = [(3, 1, "<- NegVals", "<- NegVals", "NoCatalogue", inv_small),
                 (3, 2, "<- NegVals", "<- NegVals", "NoCatalogue", inv_big),
                 (4, 2, "= {0,1,2}", "= {0,1}", "NoCatalogue", inv_big),
                 (3, 3, "= {0,1,2}", "= {0,1}", "NoCatalogue", inv_big),
                 (4, 2, "= {0}", "<- NegVals", "KineticCatalogue", inv_big),
                 (4, 3, "= {0}", "<- NegVals", "KineticCatalogue", inv_big)]
        scale_sample = 5000

    def one(plan):
        M, N, av, yv, cat, invs = plan
        res = run_tlc("LeastSquares", cfg(M, N, av, yv, cat, invs), workers=8, timeout=3000)
        em = run_tlc("LeastSquaresEmit", cfg(M, N, av, yv, cat, [], emit=True), workers=1, timeout=3000, coverage=False)
        return plan, res, em

    with ThreadPoolExecutor(max_workers=3) as ex:
        results = list(ex.map(one, plans))
    allcases = []
    for plan, res, em in results:
        M, N, av, yv, cat, invs = plan
        require_actions(res, ["AddRow"] if cat == "NoCatalogue" else ["PickColumns", "AddData"])
        chk.add_tlc(res, f"LeastSquares[M={M},N={N},A{av},y{yv},{cat}]")
        cases = printed_json(em["stdout"], "CASE")
        if not cases:
            raise MachineryError("LeastSquaresEmit produced no cases")
        full = [c for c in cases if c["fullrank"]]
        chk.skip("rank-deficient instance (outside the property's premise, D8)", len(cases) - len(full))
        for c in full:
            compare(chk, c, f"M={M},N={N},{cat}")
        chk.traces += len(full)
        allcases += full
        chk.sample({k: full[len(full) // 2][k] for k in ("A", "y", "vp", "nnls", "active")})
    # algorithm layer: Lawson-Hanson as a state machine on the same instances (spec/NNLSAlgo.tla)
    acfg = ("SPECIFICATION {spec}\nCONSTANTS\n  M = {M}\n  N = {N}\n  AVals = {{0,1,2}}\n  YVals = {{0,1,2}}\n  Catalogue <- NoCatalogue\nCHECK_DEADLOCK FALSE\n")
    alg = run_tlc("NNLSAlgo", acfg.format(spec="ASpec", M=3, N=2 if tier == "quick" else 3) + "INVARIANT Agrees\nINVARIANT Bounded\nINVARIANT Feasibility\nINVARIANT NoStall\n",
                  workers=8, timeout=3000)
    require_actions(alg, ["Build", "Start", "Outer", "Inner"])
    chk.add_tlc(alg, "NNLSAlgo[Lawson-Hanson, safety]")
    live = run_tlc("NNLSAlgo", acfg.format(spec="AFairSpec", M=2, N=2) + "PROPERTY Terminates\n", workers=4, timeout=3000, coverage=False)
    chk.add_tlc(live, "NNLSAlgo[Lawson-Hanson, liveness under weak fairness]")
    # huge / tiny data scale on a sample (exact by the scale lemma)
    for c in rng.sample(allcases, min(scale_sample, len(allcases))):
        c2 = dict(c)
        c2["scales"] = [-300, -60, -20, 20, 300]
        compare(chk, c2, "scaled")
    # ill-conditioned instances by exact column scaling: condition numbers up to 2^33 ~ 1e10 times that of the integer instance
    multi = [c for c in allcases if len(c["A"][0]) >= 2]
    for c in rng.sample(multi, min(scale_sample, len(multi))):
        n = len(c["A"][0])
        spread = rng.choice([10, 20, 27, 30, 33])
        e = [rng.randint(0, spread) for _ in range(n)]
        e[rng.randrange(n)] = 0
        e[rng.choice([j for j in range(n) if e[j] != 0] or [0])] = spread
        off = rng.choice([0, 0, -spread, -spread // 2, -40, 40])
        c2 = dict(c)
        c2["colscale"] = [v + off for v in e]
        compare(chk, c2, "column-scaled")
    fit_paths(chk, allcases, rng, 12 if tier == "quick" else 150)
    dispatch_checks(chk)
    return chk.finish()
