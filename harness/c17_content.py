"""C17 — content sweeps: generated models (save_model/load_model: specification and objective), results of small real
optimisations pushed through TLC-emitted behaviours of spec/Persist.tla, netCDF and ASCII datasets."""
from __future__ import annotations

import copy
import itertools
import json
import math
import multiprocessing as mp
import os
import shutil
import tempfile
import warnings
from pathlib import Path

import numpy as np

from .core import Check, MachineryError, seed

TIME = np.array([-0.5, 0.0, 0.25, 0.5, 1.0, 2.5, 6.0])
SPECTRAL = np.array([600.0, 615.5, 631.0, 646.5, 662.0])


# ================================================================================================ ASCII comparison
def ascii_diff(want, got) -> list[str]:
    """want: DataArray with dims {time, spectral} in any order; got: what load_dataset returned for the ascii file."""
    import xarray as xr
    g = got.data if isinstance(got, xr.Dataset) else got
    out = []
    if set(g.dims) != {"time", "spectral"}:
        return [f"dims {g.dims}"]
    for dim in ("time", "spectral"):
        if g[dim].dtype.kind not in "fiu":
            out.append(f"coordinate {dim} is not numeric (dtype {g[dim].dtype}, first value {g[dim].values[0]!r})")
        elif g.sizes[dim] != want.sizes[dim]:
            out.append(f"axis orientation: {dim} has {g.sizes[dim]} points instead of {want.sizes[dim]}")
        elif not np.allclose(np.asarray(g[dim].values, dtype=float), np.asarray(want[dim].values, dtype=float), rtol=1e-9, atol=0):
            out.append(f"coordinate {dim} differs beyond the written precision")
    if any("orientation" in x for x in out):
        return out
    w = np.asarray(want.transpose("time", "spectral").values, dtype=float)
    v = np.asarray(g.transpose("time", "spectral").values, dtype=float)
    tol = 1e-10 * max(1.0, float(np.max(np.abs(w))))
    if w.shape != v.shape or not np.allclose(v, w, rtol=1e-9, atol=tol):
        if w.shape == v.shape and w.shape[0] == w.shape[1] and np.allclose(v.T, w, rtol=1e-9, atol=tol) and not np.allclose(w, w.T):
            out.append("values transposed (value at (t_i, l_j) is the one of (t_j, l_i))")
        else:
            out.append("values differ beyond the written precision")
    return out


# ================================================================================================ models
NEUTRAL = {"constraint_interval": "none", "relation_interval": "none", "weight": "none", "penalty": "no", "groups": "one",
           "scale": "unset", "irf": "plain", "extra": "none", "compartments": "words"}
CHOICES = {"constraint_interval": ["none", "list", "single"], "relation_interval": ["none", "list", "single"],
           "weight": ["none", "plain", "intervals"], "penalty": ["no", "yes"], "groups": ["one", "two"], "scale": ["unset", "set"],
           "irf": ["plain", "shift-scale", "dispersion", "multi"], "extra": ["none", "artifact-baseline", "oscillation", "sequential", "spectral-global", "pfid", "clp-guide"],
           "compartments": ["words", "numeric", "mixed"]}      # compartment labels are text, also when they look like numbers ('1', '2')
RENAME = {"words": {}, "numeric": {"s1": "1", "s2": "2", "s3": "3"}, "mixed": {"s1": "1", "s3": "x3"}}


def _rename(x, m):
    if isinstance(x, dict):
        return {_rename(k, m): _rename(v, m) for k, v in x.items()}
    if isinstance(x, list):
        return [_rename(v, m) for v in x]
    if isinstance(x, tuple):
        return tuple(_rename(v, m) for v in x)
    if isinstance(x, str):
        return m.get(x, x)
    return x


def model_spec(feat: dict):
    """-> (spec dict with tuple keys, parameters (list spec), dataset labels)."""
    two = feat["groups"] == "two"
    labels = ["d1", "d2"] if two else ["d1"]
    spec: dict = {
        "megacomplex": {"m1": {"type": "decay", "k_matrix": ["k1"]}},
        # declared in an order that is not the sorted order of the (to, from) keys
        "k_matrix": {"k1": {"matrix": {("s3", "s3"): "rates.k.4", ("s2", "s1"): "rates.k.1", ("s3", "s2"): "rates.k.3", ("s2", "s2"): "rates.k.2"}}},
        "initial_concentration": {"j1": {"compartments": ["s1", "s2", "s3"], "parameters": ["inputs.1", "inputs.0", "inputs.0"]}},
        "irf": {},
        "dataset": {},
    }
    pars = {"rates": {"k": [[0.9, {"min": 0.01, "max": 5.0}], [0.45, {"min": 0.01, "max": 5.0}], [0.2, {"min": 0.01, "max": 5.0}],
                             [0.05, {"min": 0.001, "max": 5.0}]]}, "inputs": [["1", 1, {"vary": False}], ["0", 0, {"vary": False}]],
            "irf": [["center", 0.1], ["width", 0.15]]}
    irf = {"type": "gaussian", "center": "irf.center", "width": "irf.width"}
    if feat["irf"] == "shift-scale":
        irf = {"type": "multi-gaussian", "center": ["irf.center"], "width": ["irf.width"], "scale": ["irf.scale"],
               "shift": ["irf.s1", "irf.s2", "irf.s3", "irf.s4", "irf.s5"], "normalize": False}
        pars["irf"] += [["scale", 1.5], ["s1", 0.0], ["s2", 0.01], ["s3", 0.02], ["s4", 0.03], ["s5", 0.04]]
    elif feat["irf"] == "dispersion":
        irf = {"type": "spectral-gaussian", "center": "irf.center", "width": "irf.width", "dispersion_center": "irf.dispc",
               "center_dispersion_coefficients": ["irf.disp1", "irf.disp2"]}
        pars["irf"] += [["dispc", 630.0, {"vary": False}], ["disp1", 0.01], ["disp2", 0.001]]
    elif feat["irf"] == "multi":
        irf = {"type": "multi-gaussian", "center": ["irf.center", "irf.center2"], "width": ["irf.width"], "scale": ["irf.one", "irf.scale"],
               "backsweep": True, "backsweep_period": "irf.period"}
        pars["irf"] += [["center2", 0.3], ["one", 1, {"vary": False}], ["scale", 0.2], ["period", 13.0, {"vary": False}]]
    spec["irf"]["irf1"] = irf
    mcs = ["m1"]
    if feat["extra"] == "artifact-baseline":
        spec["megacomplex"]["ca"] = {"type": "coherent-artifact", "order": 2}
        spec["megacomplex"]["bl"] = {"type": "baseline", "dimension": "time"}
        mcs += ["ca", "bl"]
    elif feat["extra"] == "oscillation":
        spec["megacomplex"]["osc"] = {"type": "damped-oscillation", "labels": ["o1", "o2"], "frequencies": ["osc.freq.1", "osc.freq.2"],
                                      "rates": ["osc.rate.1", "osc.rate.2"]}
        pars["osc"] = {"freq": [[25.0, {"min": 1.0, "max": 100.0}], [60.0, {"min": 1.0, "max": 100.0}]],
                       "rate": [[0.5, {"min": 0.01, "max": 5.0}], [0.9, {"min": 0.01, "max": 5.0}]]}
        mcs += ["osc"]
    elif feat["extra"] == "sequential":
        spec["megacomplex"]["seq"] = {"type": "decay-sequential", "compartments": ["q1", "q2"], "rates": ["rates.k.1", "rates.k.3"]}
        spec["megacomplex"]["par"] = {"type": "decay-parallel", "compartments": ["p1"], "rates": ["rates.k.2"]}
        mcs += ["seq", "par"]
    elif feat["extra"] == "pfid":
        spec["megacomplex"]["pf"] = {"type": "pfid", "labels": ["pf1"], "frequencies": ["pfid.freq"], "rates": ["pfid.rate"]}
        pars["pfid"] = [["freq", 630.0, {"min": 600.0, "max": 670.0}], ["rate", 0.5, {"min": 0.01, "max": 5.0}]]
        mcs += ["pf"]
    for i, lab in enumerate(labels):
        d = {"megacomplex": list(mcs), "initial_concentration": "j1", "irf": "irf1"}
        if feat["scale"] == "set":
            d["scale"] = f"scale.{lab}"
            pars.setdefault("scale", []).append([lab, 1.0 + 0.5 * i, {"vary": False}])
        if two and i == 1:
            d["group"] = "g2"
        spec["dataset"][lab] = d
    if feat["extra"] == "spectral-global":
        spec["megacomplex"]["sp"] = {"type": "spectral", "shape": {"s1": "sh1", "s2": "sh2", "s3": "sh3"}}
        spec["shape"] = {"sh1": {"type": "gaussian", "amplitude": "shapes.amp", "location": "shapes.loc.1", "width": "shapes.width"},
                         "sh2": {"type": "skewed-gaussian", "location": "shapes.loc.2", "width": "shapes.width", "skewness": "shapes.skew"},
                         "sh3": {"type": "one"}}
        pars["shapes"] = {"loc": [620.0, 645.0], "other": [["amp", 2.0], ["width", 25.0], ["skew", 0.3]]}
        spec["shape"]["sh1"]["amplitude"] = "shapes.other.amp"
        spec["shape"]["sh1"]["width"] = spec["shape"]["sh2"]["width"] = "shapes.other.width"
        spec["shape"]["sh2"]["skewness"] = "shapes.other.skew"
        spec["dataset"]["d1"]["global_megacomplex"] = ["sp"]
    if two:
        spec["dataset_groups"] = {"default": {"link_clp": False}, "g2": {"residual_function": "non_negative_least_squares", "link_clp": True}}
    if feat["extra"] == "clp-guide":
        spec["megacomplex"]["cg"] = {"type": "clp-guide", "dimension": "time", "target": "s2"}
        spec["dataset"]["guide"] = {"megacomplex": ["cg"]}
        spec.setdefault("dataset_groups", {})["default"] = {"link_clp": True}
        labels = labels + ["guide"]
    glob = feat["extra"] != "spectral-global"      # clp-level items need free clps
    iv = {"none": None, "list": [(600, 620), (640.5, 700)], "single": (600, 620)}
    if glob and feat["constraint_interval"] != "skip":
        c1 = {"type": "zero", "target": "s1"}
        c2 = {"type": "only", "target": "s3"}
        if iv[feat["constraint_interval"]] is not None:
            c1["interval"] = iv[feat["constraint_interval"]]
            c2["interval"] = iv[feat["constraint_interval"]]
            spec["clp_constraints"] = [c1, c2]
        else:
            spec["clp_constraints"] = [{"type": "zero", "target": "s3", "interval": [(655, 700)]}, {"type": "zero", "target": "s1", "interval": None}][:1]
    if glob:
        r = {"source": "s2", "target": "s3", "parameter": "rel.r1"}
        if iv[feat["relation_interval"]] is not None:
            r["interval"] = iv[feat["relation_interval"]]
        spec["clp_relations"] = [r]
        pars["rel"] = [["r1", 0.4]]
    if feat["weight"] == "plain":
        spec["weights"] = [{"datasets": [labels[-1]], "value": 0.5}]
    elif feat["weight"] == "intervals":
        spec["weights"] = [{"datasets": list(labels), "global_interval": (600, 631), "model_interval": (0.0, 1.0), "value": 0.25},
                           {"datasets": ["d1"], "global_interval": (640, np.inf), "value": 2.0}]
    if feat["penalty"] == "yes" and glob:
        spec["clp_penalties"] = [{"type": "equal_area", "source": "s1", "source_intervals": [(600, 631)], "target": "s2",
                                  "target_intervals": [(615.5, 662), (600, 605)], "parameter": "pen.ratio", "weight": 0.1}]
        pars["pen"] = [["ratio", 1.2]]
    ren = RENAME[feat.get("compartments", "words")]
    if ren:
        spec = _rename(spec, ren)      # parameter labels (pars) are not compartments and stay
    return spec, pars, labels


def build_model(spec):
    from glotaran.model import Model
    from glotaran.plugin_system.megacomplex_registration import get_megacomplex
    types = {get_megacomplex(m["type"]) for m in spec["megacomplex"].values()}
    return Model.create_class_from_megacomplexes(types)(**copy.deepcopy(spec))


def model_data(labels, sd):
    import xarray as xr
    rng = np.random.default_rng(sd)
    out = {}
    for i, lab in enumerate(labels):
        if lab == "guide":
            out[lab] = xr.DataArray(rng.normal(size=(1, len(SPECTRAL))) + 1.0, coords=[("time", [0.0]), ("spectral", SPECTRAL)]).to_dataset(name="data")
            continue
        t = TIME if i == 0 else TIME[:-1] + 0.05
        vals = rng.normal(size=(len(t), len(SPECTRAL))) + 2.0
        out[lab] = xr.DataArray(vals, coords=[("time", t), ("spectral", SPECTRAL)]).to_dataset(name="data")
    return out


def objective(model, parameters, data):
    from glotaran.optimization.optimizer import Optimizer
    from glotaran.project import Scheme
    scheme = Scheme(model, parameters, data)
    o = Optimizer(scheme, verbose=False, raise_exception=True)
    labels, x0, _, _ = parameters.get_label_value_and_bounds_arrays(exclude_non_vary=True)
    o._free_parameter_labels = labels
    return np.array(o.objective_function(x0), dtype=float)


def model_case(feat: dict, wd: Path, sd: int):
    """-> (stage, detail) of the first failure or None.  stages: 'as_dict differs', 'load raises X', 'objective raises X',
    'objective differs'."""
    from glotaran.io import load_model, save_model
    from glotaran.parameter import Parameters
    from . import c17_world as W
    spec, pars, labels = model_spec(feat)
    with warnings.catch_warnings():
        warnings.simplefilter("ignore")
        try:
            model = build_model(spec)
            parameters = Parameters.from_dict(copy.deepcopy(pars))
            if not model.valid(parameters):
                raise MachineryError(f"generated model is not valid: {model.validate(parameters)}")
            data = model_data(labels, sd)
            want = objective(model, parameters, data)
        except MachineryError:
            raise
        except Exception as e:  # noqa: BLE001
            return ("precondition", f"the generated model cannot be evaluated before saving: {type(e).__name__}: {e}")
        f = wd / "model.yml"
        if f.exists():
            f.unlink()
        try:
            save_model(model, f)
        except Exception as e:  # noqa: BLE001
            return (f"save_model raises {type(e).__name__}", str(e).splitlines()[0][:200])
        try:
            loaded = load_model(f)
        except Exception as e:  # noqa: BLE001
            return (f"load_model raises {type(e).__name__}", str(e).splitlines()[0][:200])
        diffs = W.model_diff(model, loaded)
        if diffs:
            return ("as_dict differs", "; ".join(diffs[:5]))
        try:
            got = objective(loaded, parameters, data)
        except Exception as e:  # noqa: BLE001
            return (f"objective of the reloaded model raises {type(e).__name__}", str(e).splitlines()[0][:200])
        if want.shape != got.shape or not W.float_bits_equal(want, got):
            return ("objective differs", f"penalty vectors differ: shapes {want.shape}/{got.shape}, max abs difference "
                                         f"{float(np.max(np.abs(want - got))) if want.shape == got.shape else 'n/a'}")
    return None


def model_judge(feat, wd, sd):
    """One key per (stage, culprit feature): the features that cure the failure when neutralised one at a time."""
    r = model_case(feat, wd, sd)
    n = 1
    if r is None:
        return [], n
    if r[0] == "precondition":
        raise MachineryError(f"model generator: {r[1]} (features {feat})")
    culprits = []
    for k, v in feat.items():
        if v == NEUTRAL[k]:
            continue
        r2 = model_case({**feat, k: NEUTRAL[k]}, wd, sd)
        n += 1
        cured = r2 is None or r2[0] != r[0]
        alone = False
        if not cured and {**NEUTRAL, k: v} != feat:
            r3 = model_case({**NEUTRAL, k: v}, wd, sd)       # ... or it alone, on the neutral background, fails the same way
            n += 1
            alone = r3 is not None and r3[0] == r[0]
        if cured or alone:
            culprits.append(f"{k}={v}")
    if not culprits:
        return [(f"Model: {r[0]} [features {json.dumps(feat, sort_keys=True)}]", f"model features {feat}: {r[0]}: {r[1]}")], n
    return [(f"Model: {r[0]} [{c}]", f"model features {feat}: {r[0]}: {r[1]}") for c in culprits], n


def model_features(tier, rng):
    keys = list(CHOICES)
    feats = []
    # every value of every feature against the neutral background, and all pairs of (interval form x interval form x extra)
    for k in keys:
        for v in CHOICES[k]:
            feats.append({**NEUTRAL, k: v})
    for a, b in itertools.product(CHOICES["constraint_interval"], CHOICES["relation_interval"]):
        for g in CHOICES["groups"]:
            feats.append({**NEUTRAL, "constraint_interval": a, "relation_interval": b, "groups": g, "weight": "intervals", "penalty": "yes", "scale": "set"})
    n_random = 40 if tier == "quick" else 600
    for _ in range(n_random):
        feats.append({k: rng.choice(CHOICES[k]) for k in keys})
    seen, out = set(), []
    for f in feats:
        j = json.dumps(f, sort_keys=True)
        if j not in seen:
            seen.add(j)
            out.append(f)
    return out


# ================================================================================================ datasets
def nc_cases(rng):
    import xarray as xr
    r = np.random.default_rng(seed())
    cases = []
    for shape in [(1, 1), (1, 5), (7, 3), (3, 7), (4, 4)]:
        t = np.cumsum(r.random(shape[0])) - 0.3
        s = 600 + np.cumsum(r.random(shape[1]) * 10)
        vals = r.normal(size=shape) * 10.0 ** r.integers(-12, 12)
        for order in ("ts", "st"):
            da = xr.DataArray(vals, coords=[("time", t), ("spectral", s)])
            if order == "st":
                da = da.transpose("spectral", "time")
            ds = da.to_dataset(name="data")
            cases.append((f"shape={shape} order={order} float64", ds))
    t = np.array([0.1 + 0.2, 1 / 3, 2.0, 5e-324, 1e308])
    s = np.array([1, 2, 3])
    ds = xr.Dataset({"data": (("time", "spectral"), r.normal(size=(5, 3))), "weight": (("time", "spectral"), r.random((5, 3)).astype(np.float32)),
                     "counts": (("spectral",), np.array([1, -2, 2 ** 40])), "flag": (("time",), np.array([True, False, True, True, False]))},
                    coords={"time": t, "spectral": s, "species": ["s1", "s2"]},
                    attrs={"model_dimension": "time", "global_dimension": "spectral", "root_mean_square_error": 0.1 + 0.2, "n": 3})
    ds["data"].values[0, 0] = np.nan
    ds["data"].values[1, 1] = np.inf
    ds["conc"] = (("time", "species"), r.random((5, 2)))
    cases.append(("mixed dtypes, NaN/inf, integer and string coordinates, attributes", ds))
    # files with exactly ONE data variable: measurement data carrying metadata attributes, and a result saved with a data filter
    t = np.linspace(0, 1, 4)
    s = np.array([600.0, 610.0, 625.0])
    one = xr.DataArray(r.normal(size=(4, 3)), coords=[("time", t), ("spectral", s)]).to_dataset(name="data")
    one.attrs.update({"instrument": "streak camera", "exposure": 0.25, "model_dimension": "time"})
    one["data"].attrs["units"] = "counts"
    cases.append(("one variable 'data' with dataset and variable attributes", one))
    res = xr.DataArray(r.normal(size=(4, 3)), coords=[("time", t), ("spectral", s)]).to_dataset(name="residual")
    res.attrs.update({"model_dimension": "time", "global_dimension": "spectral", "root_mean_square_error": 0.125, "dataset_scale": 2.0})
    cases.append(("one variable 'residual' (a data-filtered result dataset) with attributes", res))
    return cases


def nc_judge(name, ds, wd: Path):
    from glotaran.io import load_dataset, save_dataset
    from . import c17_world as W
    f = wd / "x.nc"
    if f.exists():
        f.unlink()
    keep = ds.copy(deep=True)
    with warnings.catch_warnings():
        warnings.simplefilter("ignore")
        try:
            save_dataset(ds, f)
            got = load_dataset(f)
        except Exception as e:  # noqa: BLE001
            return [(f"NetCDF: {type(e).__name__} for {name.split(' order')[0] if 'shape' in name else name}", f"{name}: {e}")]
    diffs = W.dataset_diff(keep, got)
    return [(f"NetCDF: not bit-equal ({d.split(':')[0]})", f"{name}: {d}") for d in diffs[:3]]


def ascii_cases():
    import xarray as xr
    r = np.random.default_rng(seed() + 1)
    out = []
    for nt, ns in [(4, 3), (3, 5), (3, 3), (1, 4), (5, 1)]:
        t = np.array([-0.5, 0.0, 0.1 + 0.2, 1.25, 3.0, 10.0])[:nt]
        s = np.array([400.0, 401.5, 403.25, 410.0, 500.0])[:ns]
        vals = np.round(r.normal(size=(nt, ns)) * 10, 6) + np.arange(nt)[:, None] * 100 + np.arange(ns)[None, :]
        for order in ("time,spectral", "spectral,time"):
            da = xr.DataArray(vals, coords=[("time", t), ("spectral", s)])
            if order == "spectral,time":
                da = da.transpose("spectral", "time")
            out.append((nt, ns, order, da))
    return out


def ascii_judge(nt, ns, order, da, fmt_name, wd: Path):
    from glotaran.builtin.io.ascii.wavelength_time_explicit_file import DataFileType
    from glotaran.io import load_dataset, save_dataset
    fmt = DataFileType.time_explicit if fmt_name == "time_explicit" else DataFileType.wavelength_explicit
    f = wd / "x.ascii"
    if f.exists():
        f.unlink()
    shape = "square" if nt == ns else "non-square"
    pre = f"Ascii[{fmt_name}]: dims=({order}) {shape}"
    with warnings.catch_warnings():
        warnings.simplefilter("ignore")
        try:
            save_dataset(da.copy(deep=True), f, file_format=fmt)
        except Exception as e:  # noqa: BLE001
            return [(f"{pre}: save_dataset raises {type(e).__name__}", f"{nt}x{ns} data stored ({order}): {str(e).splitlines()[0][:160]}")]
        try:
            got = load_dataset(f)
        except Exception as e:  # noqa: BLE001
            return [(f"{pre}: load_dataset raises {type(e).__name__}", f"{nt}x{ns} data stored ({order}): {str(e).splitlines()[0][:160]}")]
    out = []
    for d in ascii_diff(da, got):
        cls = d.split(" (")[0].split(":")[0]
        if cls.startswith("coordinate") and "not numeric" in d:
            pre2 = f"Ascii[{fmt_name}]"         # independent of the orientation of the data
            out.append((f"{pre2}: {cls}", f"{nt}x{ns} data stored ({order}): {d}"))
        else:
            out.append((f"{pre}: {cls}", f"{nt}x{ns} data stored ({order}): {d}"))
    return out


# ================================================================================================ results of real optimisations
def result_fixtures():
    """name -> callable returning a fresh Result of a small real optimisation (dataset label d1, seeded)."""
    from glotaran.optimization.optimize import optimize
    from glotaran.parameter import Parameters
    from glotaran.project import Scheme
    from glotaran.simulation import simulate
    import xarray as xr
    from . import c17_world as W

    def from_features(feat, nfev, method="TrustRegionReflection"):
        def make():
            spec, pars, labels = model_spec(feat)
            model = build_model(spec)
            parameters = Parameters.from_dict(copy.deepcopy(pars))
            data = model_data(labels, 11)
            scheme = Scheme(model, parameters, data, maximum_number_function_evaluations=nfev, optimization_method=method,
                            clp_link_tolerance=0.25, clp_link_method="forward", ftol=1e-7, gtol=1e-9, xtol=1e-6)
            with warnings.catch_warnings():
                warnings.simplefilter("ignore")
                return optimize(scheme, verbose=False, raise_exception=True)
        return make
    return {
        "decay+irf (simulated, 4 evaluations)": lambda: W.make_result(4),
        "decay+irf (simulated, 1 evaluation)": lambda: W.make_result(1),
        "scheme loaded from a scheme file before optimising": lambda: W.make_result_from_loaded_scheme(2),
        "weights+relations+penalty+constraints (interval lists)": from_features(
            {**NEUTRAL, "constraint_interval": "list", "relation_interval": "list", "weight": "intervals", "penalty": "yes", "scale": "set"}, 3),
        "spectral global megacomplex (full model), dispersion irf": from_features({**NEUTRAL, "extra": "spectral-global", "irf": "dispersion"}, 3),
        "oscillation, Dogbox": from_features({**NEUTRAL, "extra": "oscillation"}, 2, "Dogbox"),
    }


def resave_in_place(chk: Check, col):
    """Persist.tla history SaveResult(A) ; LoadResult(A) ; SaveResult(A) ; LoadResult(A) with DIFFERENT results: what is loaded is what was
    saved last, not what the folder held before (in one process: nothing may remember the files of the first save)."""
    import shutil
    import tempfile
    from glotaran.io import load_result, save_result
    from . import c17_world as W
    r1, r2 = W.make_result(nfev=2), W.make_result(nfev=5)          # different numbers of evaluations: other parameters, residuals, histories
    td = Path(tempfile.mkdtemp(prefix="verif_c17_resave_"))
    try:
        target = td / "A" / "result.yml"
        with warnings.catch_warnings():
            warnings.simplefilter("ignore")
            for name, r in (("first save", r1), ("second save into the same folder", r2)):
                save_result(r, target, allow_overwrite=True)
                loaded = load_result(target)
                chk.evaluations += 1
                for field, diffs in W.result_diff(r, loaded, "data_nc").items():
                    col.add(f"Persist[LoadResult after {name}]: {field} not equal to what was saved",
                            f"history SaveResult(A) ; LoadResult(A) ; SaveResult(A, another result) ; LoadResult(A): after the {name}: {field}: " + "; ".join(diffs[:4]),
                            {"engine": "c17-resave"})
    finally:
        shutil.rmtree(td, ignore_errors=True)


def multi_dataset_results(chk: Check, col):
    """Results with several datasets whose labels share a prefix / contain dots: every dataset must get its own file and come back
    bit-equal under its own label after the folder was moved (the single-dataset histories of Persist.tla cannot see a collision)."""
    import shutil
    import xarray as xr
    from glotaran.io import load_model, load_result, save_result
    from glotaran.optimization.optimize import optimize
    from glotaran.project import Scheme
    from . import c17_world as W
    for labels in (["run.1", "run.2"], ["a", "a.b"], ["d1", "d10", "d1_copy"]):
        model0, parameters, ds = W.make_fixture()
        yml = W.MODEL_YML.replace("  d1:\n    megacomplex: [m1]\n    initial_concentration: j1\n    irf: irf1\n",
                                  "".join(f'  "{l}":\n    megacomplex: [m1]\n    initial_concentration: j1\n    irf: irf1\n' for l in labels))
        model = load_model(yml, format_name="yml_str")
        data = {l: xr.Dataset({"data": ds.data * (1.0 + 0.5 * i)}) for i, l in enumerate(labels)}
        with warnings.catch_warnings():
            warnings.simplefilter("ignore")
            res = optimize(Scheme(model, parameters, data, maximum_number_function_evaluations=2), verbose=False, raise_exception=True)
        wd = _wd()
        key = f"Persist[SaveResult several datasets]: labels={labels}"
        rep = {"engine": "c17-multi", "labels": labels}
        chk.evaluations += 1
        try:
            with warnings.catch_warnings():
                warnings.simplefilter("ignore")
                save_result(res, wd / "A" / "result.yml")
                shutil.move(wd / "A", wd / "B")
                back = load_result(wd / "B" / "result.yml")
            if sorted(back.data) != sorted(labels):
                col.add(key + " [labels]", f"loaded result has datasets {sorted(back.data)}", rep)
            for l in labels:
                for var in ("data", "residual", "fitted_data", "clp"):
                    if not W.float_bits_equal(res.data[l][var].values, back.data[l][var].values):
                        col.add(key + " [dataset content]", f"dataset {l!r}: variable {var} of the loaded result is not the one that was saved (another dataset's file?)", rep)
                        break
                if not W.float_bits_equal(res.scheme.data[l].data.values, back.scheme.data[l].data.values):
                    col.add(key + " [scheme data]", f"scheme dataset {l!r} differs after save/move/load", rep)
            files = sorted(f.name for f in (wd / "B").glob("*.nc"))
            if len(files) != len(labels):
                col.add(key + " [files]", f"{len(labels)} datasets but data files {files}", rep)
            # the same result saved with a data filter: EVERY dataset file holds exactly the selected variables
            from glotaran.io.interface import SavingOptions
            with warnings.catch_warnings():
                warnings.simplefilter("ignore")
                save_result(res, wd / "F" / "result.yml", saving_options=SavingOptions(data_filter=["data", "residual"], report=False))
                filt = load_result(wd / "F" / "result.yml")
            for l in labels:
                got_vars = sorted(filt.data[l].data_vars) if l in filt.data else None
                if got_vars != ["data", "residual"]:
                    col.add(key + " [data_filter]", f"dataset {l!r} saved with data_filter=[data, residual] holds the variables {got_vars}", rep)
                    break
                if not W.float_bits_equal(res.data[l]["residual"].values, filt.data[l]["residual"].values):
                    col.add(key + " [data_filter content]", f"dataset {l!r}: residual of the filtered save is not the one of the result", rep)
                    break
        except Exception as ex:  # noqa: BLE001
            col.add(key + f" [raises {type(ex).__name__}]", str(ex)[:300], rep)
        finally:
            shutil.rmtree(wd, ignore_errors=True)
        chk.traces += 1
        chk.nontriv("multi:" + ",".join(labels))


# ================================================================================================ run
def _wd():
    return Path(tempfile.mkdtemp(prefix="verif_c17c_"))


def _models_worker(args):
    feats, sd = args
    wd = _wd()
    try:
        return [(i, *model_judge(f, wd, sd)) for i, f in feats]
    finally:
        shutil.rmtree(wd, ignore_errors=True)


def run(chk: Check, tier: str, rng, procs: int, col):
    sd = seed()
    # ---- models
    feats = model_features(tier, rng)
    idx = list(enumerate(feats))
    k = max(1, math.ceil(len(idx) / (procs * 2)))
    jobs = [(idx[i:i + k], sd) for i in range(0, len(idx), k)]
    ctx = mp.get_context("fork")
    with ctx.Pool(procs) as pool:
        parts = pool.map(_models_worker, jobs, chunksize=1)
    for part in parts:
        for i, viols, n in part:
            chk.evaluations += n
            chk.nontriv("model:" + json.dumps(feats[i], sort_keys=True))
            for key, what in viols:
                col.add(key, what, {"engine": "c17-model", "features": feats[i]})
    chk.extra["models"] = len(feats)
    chk.sample({"model_features": feats[len(feats) // 2], "check": "save_model -> load_model: as_dict equal (D9) and objective bit-equal on the same data"})

    # ---- datasets
    wd = _wd()
    try:
        for name, ds in nc_cases(rng):
            chk.evaluations += 1
            chk.nontriv("nc:" + name)
            for key, what in nc_judge(name, ds, wd):
                col.add(key, what, {"engine": "c17-nc", "name": name})
        n_ascii = 0
        for nt, ns, order, da in ascii_cases():
            for fmt_name in ("time_explicit", "wavelength_explicit"):
                chk.evaluations += 1
                n_ascii += 1
                if nt != ns:
                    chk.nontriv(f"ascii:{nt}x{ns}:{order}:{fmt_name}")
                for key, what in ascii_judge(nt, ns, order, da, fmt_name, wd):
                    col.add(key, what, {"engine": "c17-ascii", "nt": nt, "ns": ns, "order": order, "format": fmt_name})
        chk.extra["ascii_cases"] = n_ascii
        chk.sample({"ascii_case": {"shape": [4, 3], "dims": "spectral,time", "format": "wavelength_explicit"},
                    "check": "values and both axes to written precision, orientation by axis length"})
    finally:
        shutil.rmtree(wd, ignore_errors=True)

    # ---- results of real optimisations through TLC-emitted behaviours
    from . import c17
    from .tlc import printed_json, run_tlc
    c = dict(name="sweep", family="results", locs=["A", "B"], movelocs=["C"], cwds=["root", "sub"], kinds=["abs_file", "rel_dir"],
             opts=["default", "minimal"], formats=["nc"], move=True, maxops=4)
    em = run_tlc("PersistEmit", c17.cfg(c, emit=True), workers=1, timeout=900, coverage=False, heap="6g")
    raw = printed_json(em["stdout"], "EDGE")
    behaviours = [
        [("SaveResult", "A", "abs_file", "default"), ("MoveFolder", "A", "", "C"), ("ChangeCwd", "", "", "sub"), ("LoadResult", "C", "rel_dir", "")],
        [("SaveResult", "A", "rel_dir", "default"), ("SaveResult", "B", "abs_file", "minimal"), ("MoveFolder", "B", "", "C"), ("LoadResult", "C", "abs_file", "")],
    ]
    paths = [_follow(raw, b) for b in behaviours]
    jobs = [(name, p) for name in result_fixtures() for p in paths]
    with ctx.Pool(min(procs, len(jobs))) as pool:
        parts = pool.map(_sweep_worker, jobs, chunksize=1)
    for (name, p), (viols, steps, _skipped) in zip(jobs, parts):
        chk.evaluations += steps
        chk.traces += 1
        chk.nontriv("sweep:" + name + json.dumps([e["act"] for e in p]))
        for key, what in viols:
            col.add(key, f"result of '{name}': {what}", {"engine": "c17-sweep", "fixture": name, "path": p})
    chk.extra["result_sweeps"] = len(jobs)
    multi_dataset_results(chk, col)
    resave_in_place(chk, col)
    chk.sample({"result_fixture": jobs[-1][0], "behaviour": [e["act"] for e in jobs[-1][1]]})


def _follow(raw, behaviour):
    """The TLC-emitted path with these action labels, starting in the initial state."""
    from .c17 import view_key
    by = {}
    for e in raw:
        by.setdefault((view_key(e["pre"]), e["act"]["op"], e["act"]["loc"], e["act"]["kind"], e["act"]["arg"]), e)
    init = min(raw, key=lambda e: e["depth"])
    cur = view_key(init["pre"])
    path = []
    for a in behaviour:
        e = by.get((cur, *a))
        if e is None:
            raise MachineryError(f"behaviour {behaviour} is not a behaviour of spec/Persist.tla (step {a} not enabled)")
        path.append({"act": e["act"], "post": e["post"], "loaded": e["loaded"], "depth": e["depth"]})
        cur = view_key(e["post"])
    return path


def _sweep_worker(args):
    name, path = args
    from . import c17
    make = result_fixtures()[name]
    return c17.replay_history("results", path, orig=make(), make_result=make)


def replay(chk: Check, r: dict):
    wd = _wd()
    try:
        if r["engine"] == "c17-model":
            viols, n = model_judge(r["features"], wd, seed())
            chk.evaluations += n
        elif r["engine"] == "c17-nc":
            viols = [v for name, ds in nc_cases(None) if name == r["name"] for v in nc_judge(name, ds, wd)]
            chk.evaluations += 1
        elif r["engine"] == "c17-ascii":
            viols = [v for nt, ns, order, da in ascii_cases() if (nt, ns, order) == (r["nt"], r["ns"], r["order"])
                     for v in ascii_judge(nt, ns, order, da, r["format"], wd)]
            chk.evaluations += 1
        elif r["engine"] == "c17-sweep":
            ctx = mp.get_context("fork")
            with ctx.Pool(1) as pool:
                viols, steps, _skipped = pool.map(_sweep_worker, [(r["fixture"], r["path"])])[0]
            viols = [(k, f"result of '{r['fixture']}': {w}") for k, w in viols]
            chk.evaluations += steps
        elif r["engine"] in ("c17-resave", "c17-multi"):
            from .c16 import Collector
            col = Collector()
            (resave_in_place if r["engine"] == "c17-resave" else multi_dataset_results)(chk, col)
            col.flush(chk)
            viols = []
        else:
            raise MachineryError(f"unknown replay engine {r.get('engine')}")
        for key, what in viols:
            chk.violation(key, what, r)
    finally:
        shutil.rmtree(wd, ignore_errors=True)
