"""Random driver for the real registry functions; run in a subprocess with GLOTARAN_VERIF_TRACE set."""
from __future__ import annotations

import random
import sys
import warnings


def main(seed: int, nseq: int, length: int):
    import glotaran.plugin_system.base_registry as br
    from glotaran.io.interface import DataIoInterface
    from glotaran.model.megacomplex import Megacomplex

    rng = random.Random(seed)
    shorts = ["a", "b", "c"]
    dotted = ["x.y"]
    cnames = ["m.C1", "m.C2", "n.C1", "n.sub.C3"]
    mega = {}
    inst = {}
    for full in cnames:
        mod, name = full.rsplit(".", 1)
        mega[full] = type(name, (Megacomplex,), {"__module__": mod, "__annotations__": {}})
        inst[full] = type(name, (DataIoInterface,), {"__module__": mod})
    warnings.simplefilter("ignore")
    for s in range(nseq):
        instance = bool(s % 2)
        reg: dict = {}
        for _ in range(length):
            op = rng.choice(["register", "register", "register", "set", "set", "lookup"])
            try:
                if op == "register":
                    c = rng.choice(cnames)
                    if instance:
                        n = rng.choice([1, 1, 2, 3])
                        ks = [rng.choice(shorts + dotted if rng.random() < 0.15 else shorts) for _ in range(n)]
                        br.add_instantiated_plugin_to_registry(ks if n > 1 else ks[0], inst[c], reg, "set_x")
                    else:
                        k = rng.choice(shorts + dotted if rng.random() < 0.15 else shorts)
                        br.add_plugin_to_registry(k, mega[c], reg, "set_x")
                elif op == "set":
                    k = rng.choice(shorts + dotted if rng.random() < 0.1 else shorts)
                    pool = list(reg.keys()) + cnames + shorts
                    br.set_plugin(k, rng.choice(pool), reg)
                else:
                    pool = list(reg.keys()) + shorts + cnames
                    br.get_plugin_from_registry(rng.choice(pool), reg, "unknown")
            except ValueError:
                pass


if __name__ == "__main__":
    main(int(sys.argv[1]), int(sys.argv[2]), int(sys.argv[3]))
