"""C15 — failures during optimisation are contained and reported.

spec/Optimizer.tla (life-cycle part) is model-checked (invariants StdoutRestored, Contained, Transparent,
RejectedBeforeEval, HistoryShape, SchemeUntouched ..., liveness Terminates under fairness on the small
configuration).  A second TLC run enumerates every fault plan (k, kind, method, verbose, raise_exception),
every set of invalid-scheme kinds and the stdout-swap history and emits the terminal states the specification
allows; the real `optimize` is run for every plan with the harness-defined fault megacomplex and its observed
outcome must be one of the allowed terminal states.  Every run is repeated in a subprocess with hooks on and its
event trace must be accepted by spec/OptimizerTrace.tla.
"""
from __future__ import annotations

import json
import re
import tempfile
from pathlib import Path

from . import c15_trace as T
from .core import Check, MachineryError, seed
from .tlc import printed_json, require_actions, run_tlc
from .trace import py, record

METHODS = ["TrustRegionReflection", "Dogbox", "Levenberg-Marquardt"]
KINDS = ["exception", "nan"]
INVARIANTS = ["TypeOK", "StdoutRestored", "StdoutOnlyInTee", "Contained", "InitialErrorIffNothingEvaluated", "Transparent",
              "NoSpuriousFailure", "RejectedBeforeEval", "HistoryShape", "ResultFromEvaluated", "SchemeUntouched", "FaultAccounting",
              "ShapesStable"]
PROPERTIES = ["Pure", "InputsUntouched"]
LIFE_ACTIONS = ["Reject", "Construct", "EnvSwap", "EnterTee", "EvalP", "EvalNaN", "EvalFail", "SciPyReturns", "SciPyRaises", "Swallow",
                "Propagate", "ExitTee", "RaiseInitialParameterError", "Fallback", "ToFinal", "FinalEvalP", "LateFail", "LateChoke", "ResultCalc", "FinalEvalNaN", "ResultCalcNaN",
                "BuildResult"]


_COV2 = re.compile(r"^<(\w+) line \d+, col \d+ to line \d+, col \d+ of module (\w+)(?: \([\d ]+\))?>: (\d+):(\d+)", re.M)


def fix_actions(res: dict) -> dict:
    """tlc.py's coverage regex misses actions reported with a call-site suffix `(l c l c)` (actions defined through
    a parameterised operator, \\E-bound actions); parse those here (helper local to this check)."""
    acts = res.setdefault("actions", {})
    for m in _COV2.finditer(res.get("stdout", "")):
        cur = acts.get(m.group(1), [0, 0])
        acts[m.group(1)] = [max(cur[0], int(m.group(3))), max(cur[1], int(m.group(4)))]
    return res


def cfg(points, maxevals, maxk, kinds, methods, verbose, raises, invalid, *, direct=False, maxdirect=0, clear=True, swap=False, cap=0,
        nomp="{0}", noml="{0}", spec="Spec", invs=(), props=(), extra=()):
    def S(xs):
        return "{" + ", ".join(xs) + "}"

    def q(xs):
        return S(f'"{x}"' for x in xs)

    def b(xs):
        return S("TRUE" if x else "FALSE" for x in xs)

    lines = [f"SPECIFICATION {spec}", "CONSTANTS", f"  Points = {S(map(str, points))}", f"  MaxEvals = {maxevals}", f"  MaxK = {maxk}",
             f"  Kinds = {q(kinds)}", f"  Methods = {q(methods)}", f"  VerboseSet = {b(verbose)}", f"  RaiseSet = {b(raises)}",
             f"  InvalidSets <- {invalid}", '  Groups = {"g"}', '  Datasets = {"d"}', f"  NomPenSet = {nomp}", f"  NomLenSet = {noml}",
             f"  Cap = {cap}", f"  ClearOnEval = {'TRUE' if clear else 'FALSE'}", f"  AllowDirect = {'TRUE' if direct else 'FALSE'}",
             f"  MaxDirect = {maxdirect}", f"  AllowEnvSwap = {'TRUE' if swap else 'FALSE'}", "CHECK_DEADLOCK FALSE"]
    lines += [f"INVARIANT {i}" for i in invs] + [f"PROPERTY {p}" for p in props] + list(extra)
    return "\n".join(lines) + "\n"


# ---------------------------------------------------------------------------------------------- spec side
def model_check(chk: Check, tier: str):
    """Exhaustive small configuration with all invariants and liveness (fairness, no state constraint)."""
    maxevals = 4 if tier == "quick" else 5
    c = cfg([1, 2], maxevals, maxevals + 3, KINDS, ["TrustRegionReflection"], [True], [True, False], "InvalidSingles", swap=True,
            spec="FairSpec", invs=INVARIANTS, props=PROPERTIES + ["Terminates"])
    res = fix_actions(run_tlc("Optimizer", c, workers=8, timeout=1500))
    require_actions(res, LIFE_ACTIONS)
    chk.add_tlc(res, f"Optimizer[life-cycle, 2 points, MaxEvals={maxevals}, liveness]")
    if tier == "thorough":
        c = cfg([1, 2, 3], 3, 6, KINDS, ["TrustRegionReflection"], [True], [True, False], "InvalidNone", swap=False, cap=1, nomp="{1}",
                noml="{1}", invs=INVARIANTS, props=PROPERTIES)
        res = fix_actions(run_tlc("Optimizer", c, workers=8, timeout=1500))
        require_actions(res, [a for a in LIFE_ACTIONS if a not in ("Reject", "EnvSwap")])
        chk.add_tlc(res, "Optimizer[life-cycle with provider shapes, 3 points, MaxEvals=3]")


def allowed_table(chk: Check, maxevals: int, maxk: int):
    """Terminal states per plan, emitted by TLC (one point: the length of the schedule is what matters here)."""
    c = cfg([1], maxevals, maxk, KINDS, METHODS, [True, False], [True, False], "InvalidAll", swap=True,
            extra=["CONSTRAINT EmitCase"])
    res = run_tlc("OptimizerEmit", c, workers=1, timeout=1500, coverage=False)
    cases = printed_json(res["stdout"], "CASE")
    if not cases:
        raise MachineryError("OptimizerEmit printed no CASE line")
    chk.add_tlc(res, f"OptimizerEmit[fault plans, MaxEvals={maxevals}, MaxK={maxk}]")
    table: dict = {}
    for cse in cases:
        key = (cse["k"], cse["kind"], cse["method"], bool(cse["verbose"]), bool(cse["raise"]), bool(cse["swapped"]),
               tuple(sorted(cse["invalid"])))
        table.setdefault(key, set()).add(project_case(cse))
    return table


def project_case(c: dict):
    o = c["outcome"]
    done = c["phase"] == "done"
    return (c["fired"], c["phase"], o["exc"], bool(o["success"]) if done else None, o["reason"] if done else None, c["stdout"],
            c["nevals"], c["nhist"] if done else None)


def project_obs(obs: dict, per_eval: int = 1):
    if obs["outcome"] == "result":
        phase, exc = "done", "none"
    elif obs["exc"] == "InitialParameterError":
        phase, exc = "ipe", "InitialParameterError"
    elif obs["exc"] in T.DOCUMENTED and obs["calls"] == 0:
        phase, exc = "rejected", obs["exc"]
    else:
        phase, exc = "raised", ("original" if obs["original"] else "other:" + obs["exc"])
    done = phase == "done"
    return (obs["fired"], phase, exc, obs.get("success") if done else None,
            ("error" if obs.get("reason_is_error") else "message") if done else None,
            "orig" if obs["stdout_restored"] else "not-restored", -(-obs["calls"] // per_eval), obs.get("nhist") if done else None)


def describe(p):
    names = ("fault fired", "terminal", "exception", "success", "termination_reason", "sys.stdout", "evaluations", "history records")
    return ", ".join(f"{n}={v}" for n, v in zip(names, p) if v is not None)


# ---------------------------------------------------------------------------------------------- code side
def fault_free_counts(schemes: list[dict]) -> dict:
    from .c15_driver import run_plan
    counts = {}
    for s in schemes:
        obs = run_plan({"scheme": s, "k": 0, "kind": "exception", "verbose": False, "raise": False})
        if obs["outcome"] != "result" or not obs.get("success"):
            raise MachineryError(f"fault-free run of {s} did not succeed: {obs}")
        counts[json.dumps(s, sort_keys=True)] = obs["calls"]
    return counts


def plan_key(plan, obs_p, part="outcome"):
    """Stable key: the class of the fault (not k / method / verbose) and what was observed."""
    inv = ",".join(plan.get("invalid", []))
    if inv:
        return f"optimize[invalid scheme: {inv}]: observed {obs_p[1]}/{obs_p[2]}"
    if part == "stdout":
        how = "sys.stdout replaced between Optimizer() and optimize()" if plan.get("swap") else f"fault kind={plan['kind']} at={obs_p[0]} evaluation, raise_exception={plan['raise']}"
        return f"optimize[{how}]: sys.stdout is not restored to the stream that was current when optimize() was entered"
    seen = {"raised": "an exception escapes", "ipe": "InitialParameterError", "rejected": f"rejected with {obs_p[2]}"}.get(
        obs_p[1], f"Result(success={obs_p[3]}, termination_reason={'the error' if obs_p[4] == 'error' else 'a scipy message'})")
    return f"optimize[fault kind={plan['kind']} at={obs_p[0]} evaluation, raise_exception={plan['raise']}]: {seen}"


def check_plan(chk: Check, plan: dict, obs: dict, table: dict, per_eval: int = 1):
    """Compare one observed run with the terminal states TLC allows for its plan. Returns True if it conforms."""
    chk.evaluations += 1
    p = project_obs(obs, per_eval)
    k_spec = -(-plan.get("k", 0) // per_eval)
    spec_kind = "exception" if plan.get("kind") == "exception_swap" else plan.get("kind", "exception")    # the model swapping sys.stdout is not a spec-level kind: stdout must be restored all the same
    tkey = (k_spec, spec_kind, plan["scheme"]["method"], bool(plan["verbose"]), bool(plan["raise"]),
            bool(plan.get("swap", False)), tuple(sorted(plan.get("invalid", []))))
    allowed = table.get(tkey)
    if plan.get("invalid"):
        # the fault plan is irrelevant for a scheme that is rejected: look the invalid set up with k = 0
        allowed = table.get((0, "exception", METHODS[0], bool(plan["verbose"]), bool(plan["raise"]), False, tuple(sorted(plan["invalid"]))))
    if allowed is None:
        raise MachineryError(f"TLC emitted no terminal state for plan {tkey}")
    rep = {"engine": "c15-plan", "plan": plan, "per_eval": per_eval}
    good = True
    if p not in allowed:
        same_fired = sorted((a for a in allowed if a[0] == p[0]), key=str) or sorted(allowed, key=str)
        # which clause differs: compare with the closest allowed terminal state
        near = min(same_fired, key=lambda a: sum(x != y for x, y in zip(a, p)))
        what = (f"plan k={plan.get('k')} kind={plan.get('kind')} method={plan['scheme']['method']} verbose={plan['verbose']} "
                f"raise_exception={plan['raise']} swap={bool(plan.get('swap'))} invalid={plan.get('invalid', [])}: observed [{describe(p)}] "
                f"({obs.get('exc')}: {obs.get('msg', '')[:80]}); the specification allows e.g. [{describe(near)}]")
        if p[5] != "orig" and any(a[5] != p[5] for a in allowed):
            chk.violation(plan_key(plan, p, "stdout"), what, rep)
        p_fixed = p[:5] + ("orig",) + p[6:]
        if p_fixed not in allowed:
            chk.violation(plan_key(plan, p), what, rep)
        good = False
    # clauses of the property that are not part of the terminal-state projection
    if obs["scheme_changed"]:
        chk.violation(f"optimize[scheme untouched]: changed {obs['scheme_changed']} (kind={plan.get('kind')} at={p[0]})",
                      f"the caller's scheme was modified by optimize(): {obs['scheme_changed']} for plan {json.dumps(plan)}", rep)
        good = False
    if plan.get("invalid") and obs["calls"] != 0:
        chk.violation(f"optimize[invalid scheme: {','.join(plan['invalid'])}]: model evaluated {obs['calls']} times before rejection",
                      f"an invalid scheme was evaluated before it was rejected: {json.dumps(plan)}", rep)
        good = False
    if obs["outcome"] == "result" and not plan.get("invalid"):
        if not obs["success"] and plan.get("kind") in ("exception", "exception_swap") and not obs["params_evaluated_ok_in_scipy"]:
            chk.violation(f"optimize[fault kind=exception at={p[0]}]: result parameters were not evaluated without error",
                          f"Result(success=False).optimized_parameters is not a parameter set that was evaluated successfully: {json.dumps(plan)}", rep)
            good = False
        if not obs["data_consistent"] and not (plan.get("kind") == "nan" and p[0] in ("final", "result")):
            chk.violation(f"optimize[fault kind={plan.get('kind')} at={p[0]}]: result datasets do not belong to the result parameters",
                          f"Result.data[...].matrix is not the model matrix at Result.optimized_parameters: {json.dumps(plan)}", rep)
            good = False
    if p[0] not in ("none", "first") or plan.get("invalid") or plan.get("swap"):
        chk.nontriv(json.dumps([tkey, p[0]], default=str))
    return good


def make_plans(tier: str, counts: dict, schemes: list[dict]):
    plans = []
    for s in schemes:
        n = counts[json.dumps(s, sort_keys=True)]
        per = s.get("ndatasets", 1)
        for kind in KINDS:
            for verbose in (False, True):
                for rais in (False, True):
                    for k in range(1, n + per + 1):
                        plans.append({"scheme": s, "k": k, "kind": kind, "verbose": verbose, "raise": rais})
        # the failing evaluation itself replaces sys.stdout and raises while its stream is installed
        for rais in (False, True):
            for k in sorted({1, 2, max(2, n // 2), max(2, n - 3 * per)}):     # inside least_squares only: a stream the model installs outside optimize()'s own redirection is not optimize()'s to restore
                plans.append({"scheme": s, "k": k, "kind": "exception_swap", "verbose": False, "raise": rais})
    return plans


def invalid_plans():
    from itertools import combinations
    from .c15_driver import INVALID_KINDS
    plans = []
    for r in range(1, 5):
        for sub in combinations(INVALID_KINDS, r):
            for rais in (False, True):
                for verbose in (False, True):
                    plans.append({"scheme": {"method": METHODS[0], "ndatasets": 2 if "missing_data" in sub else 1}, "k": 1, "kind": "exception",
                                  "verbose": verbose, "raise": rais, "invalid": list(sub)})
    return plans


def swap_plans(counts, scheme):
    n = counts[json.dumps(scheme, sort_keys=True)]
    ks = sorted({0, 1, 2, max(2, n // 2), n - 1, n})
    return [{"scheme": scheme, "k": k, "kind": kind, "verbose": False, "raise": rais, "swap": True}
            for k in ks for kind in KINDS for rais in (False, True) if not (k == 0 and kind == "nan")]


def traced_runs(chk: Check, plans: list[dict], table: dict, inproc: dict, name: str):
    """Same plans in a subprocess with hooks on: observations must agree with the in-process ones, traces must be accepted."""
    for i, p in enumerate(plans):
        p["run"] = i
    with tempfile.TemporaryDirectory(prefix="verif_c15_") as td:
        f = Path(td) / "plans.json"
        f.write_text(json.dumps(plans))
        events = record(py("-m", "harness.c15_driver", str(f)), timeout=3000)
    runs = T.split_runs(events)
    if len(runs) != len(plans):
        raise MachineryError(f"traced driver produced {len(runs)} runs for {len(plans)} plans")
    traces, fam_points = [], 0
    skipped = 0
    for run in runs:
        end = run[-1]
        plan = end["plan"]
        obs = end["obs"]
        ref = inproc.get(plan["run"])
        if ref is not None:
            a, b = project_obs(ref, plan["scheme"].get("ndatasets", 1)), project_obs(obs, plan["scheme"].get("ndatasets", 1))
            if a != b:
                chk.violation(f"optimize[determinism]: traced run differs from untraced run for kind={plan.get('kind')} at={a[0]}",
                              f"plan {json.dumps(plan)}: hooks off [{describe(a)}], hooks on [{describe(b)}]", {"engine": "c15-plan", "plan": plan})
        fam = T.Family()
        try:
            t = T.normalise(run, fam)
        except T.Skip as s:
            chk.skip(f"trace outside the model: {s}")
            skipped += 1
            continue
        t["_plan"] = plan
        t["_obs"] = project_obs(obs, plan["scheme"].get("ndatasets", 1))
        t["_npoints"] = len(fam.raw)
        fam_points = max(fam_points, len(fam.raw))
        traces.append(t)

    def key_of(t, e, clause):
        plan, p = t["_plan"], t["_obs"]
        part = "stdout" if (clause == "step" and e["ev"] in ("tee_exit", "end") and not e["restored"]) or clause == "StdoutRestored" else "outcome"
        chk.extra.setdefault("violations_confirmed_by_trace", {})
        k = plan_key(plan, p, part)
        chk.extra["violations_confirmed_by_trace"][k] = chk.extra["violations_confirmed_by_trace"].get(k, 0) + 1
        return k

    acc = T.check_traces(chk, name, traces, fam_points, key_of, describe=lambda t: json.dumps(t["_plan"]),
                         replay_of=lambda t: {"engine": "c15-plan", "plan": t["_plan"], "per_eval": t["_plan"]["scheme"].get("ndatasets", 1), "traced": True})
    chk.traces += acc
    return traces


def binding_selftest(chk: Check, traces: list[dict], npoints: int):
    """One corrupted field per trace kind must be rejected (cheap, every run)."""
    import copy
    done = []
    # (1) the restored record is the failing point's successor: fallback to a point that was never evaluated successfully
    for t in traces:
        evs = t["events"]
        if any(e["ev"] == "fallback" for e in evs) and t["init"]["kind"] == "exception":
            bad = copy.deepcopy(t)
            for e in bad["events"]:
                if e["ev"] == "tee_exit":
                    e["restored"] = False
            out = T.validate([bad], npoints)
            if out["verdict"] and out["verdict"][0] == 0:
                raise MachineryError("binding self-test failed: a trace whose stdout was not restored was accepted")
            done.append("stdout-not-restored rejected")
            bad = copy.deepcopy(t)
            fails = [e for e in bad["events"] if e["ev"] == "eval_fail"]
            fb = next(e for e in bad["events"] if e["ev"] == "fallback")
            fin = [e for e in bad["events"] if e["ev"] == "eval_ok" and bad["events"].index(e) > bad["events"].index(fb)]
            res = [e for e in bad["events"] if e["ev"] == "result"]
            if fails and fin and res:
                fb["x"] = fin[0]["x"] = res[0]["x"] = fails[0]["x"]     # "restored the failing point"
                out = T.validate([bad], npoints)
                if out["verdict"] and out["verdict"][0] == 0 and not out["inv"]:
                    raise MachineryError("binding self-test failed: a fallback to the failing point was accepted")
                done.append("fallback-to-failing-point rejected")
            bad = copy.deepcopy(t)
            oks = [e for e in bad["events"] if e["ev"] == "eval_ok"]
            if len(oks) >= 2:
                oks[1]["nh"] += 1                                     # "a record too many"
                out = T.validate([bad], npoints)
                if out["verdict"] and out["verdict"][0] == 0:
                    raise MachineryError("binding self-test failed: a wrong history length was accepted")
                done.append("history-length rejected")
            break
    if not done:
        raise MachineryError("binding self-test found no trace with a fallback")
    chk.extra["trace_binding_selftest"] = done


# ---------------------------------------------------------------------------------------------- entry
def schemes_for(tier: str):
    tol = 1e-3 if tier == "quick" else 1e-8
    schemes = [{"method": m, "tol": tol, "nonneg": True} for m in METHODS]     # k.2 is optimised as log(k.2)
    extra = []
    if tier == "thorough":
        extra = [{"method": "TrustRegionReflection", "tol": 1e-3, "residual": "non_negative_least_squares"},
                 {"method": "Dogbox", "tol": 1e-3, "ndatasets": 2, "link": False},
                 {"method": "Levenberg-Marquardt", "tol": 1e-3, "ndatasets": 2, "link": True}]
    return schemes, extra


def run(tier: str, replay=None) -> int:
    chk = Check("C15", tier)
    chk.rule = ("every fault plan TLC enumerates (k = 1 .. evaluations of the fault-free run + 1, exception / NaN, three methods, verbose, "
                "raise_exception), every non-empty set of invalid-scheme kinds and the stdout-swap histories are run on the real optimize(); "
                "non-trivial = the fault fires after the first evaluation (k >= 2), or the scheme is invalid, or sys.stdout was replaced; "
                "distinct = distinct (plan, phase in which the fault fired)")
    chk.assumptions = [
        "the fault is injected by a harness-defined megacomplex registered through the public plugin API; one calculate_matrix call per dataset and evaluation",
        "one fault per optimisation (the property quantifies over a fault at one evaluation); the evaluations create_result performs (final evaluation, result datasets) are evaluations of the optimisation",
        "non-finite matrices: only containment (a Result or InitialParameterError when raise_exception=False), restored stdout and an untouched scheme are demanded",
        "which documented error is raised when a scheme is invalid in several ways is not fixed by the property: any of the applicable ones is accepted",
        "'unchanged' exception for non-finite input = the exception object raised inside least_squares, not wrapped or chained",
        "scheme untouched = parameters (values, bounds, flags, expressions, standard errors), model.as_dict(), data / weight values, coordinates and options are bit-identical; variables that add_svd adds to the caller's datasets are not counted",
        "D5: warnings are recorded, not compared",
        "trusted: TLC, CommunityModules Json, the 60-line event normaliser in harness/c15_trace.py",
    ]
    from .c15_driver import run_plan
    if replay:
        return _replay(chk, replay)
    model_check(chk, tier)
    schemes, extra = schemes_for(tier)
    counts = fault_free_counts(schemes + extra)
    plans = make_plans(tier, counts, schemes) + invalid_plans() + swap_plans(counts, schemes[0])
    for s in extra:
        plans += [p for p in make_plans(tier, counts, [s]) if not p["verbose"]]
    inproc = {}
    for i, plan in enumerate(plans):
        plan["run"] = i
        inproc[i] = run_plan(plan)
    # the bound of the emitted table must cover every schedule that was observed (a non-finite evaluation can make
    # the optimiser ask for more evaluations than the fault-free run has)
    nmax = max(-(-inproc[i]["calls"] // p["scheme"].get("ndatasets", 1)) for i, p in enumerate(plans))
    kmax = max(-(-p.get("k", 0) // p["scheme"].get("ndatasets", 1)) for p in plans)
    table = allowed_table(chk, nmax, max(kmax, nmax + 1))
    for i, plan in enumerate(plans):
        obs = inproc[i]
        check_plan(chk, plan, obs, table, plan["scheme"].get("ndatasets", 1))
        if i % 97 == 5:
            chk.sample({"plan": {k: plan[k] for k in ("k", "kind", "verbose", "raise")} | {"method": plan["scheme"]["method"], "invalid": plan.get("invalid", [])},
                        "observed": describe(project_obs(obs, plan["scheme"].get("ndatasets", 1)))})
    traces = traced_runs(chk, plans, table, inproc, "fault plans")
    binding_selftest(chk, traces, max(t["_npoints"] for t in traces))
    chk.extra["plans"] = len(plans)
    chk.extra["fault_free_evaluations"] = counts
    return chk.finish()


def _replay(chk: Check, rp: dict) -> int:
    from .c15_driver import run_plan
    r = rp["replay"]
    plan = r["plan"]
    per = r.get("per_eval", plan["scheme"].get("ndatasets", 1))
    obs = run_plan(dict(plan))
    nmax = max(1, -(-obs["calls"] // per), -(-plan.get("k", 0) // per))
    table = allowed_table(chk, nmax, nmax + 1)
    print("observed:", describe(project_obs(obs, per)), "|", obs.get("exc"), obs.get("msg", "")[:100])
    check_plan(chk, plan, obs, table, per)
    traced_runs(chk, [dict(plan)], table, {0: obs}, "replay")
    return chk.finish()
