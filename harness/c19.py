"""C19 — plugin registry: first registration wins, every plugin stays reachable.

spec/Registry.tla is model-checked (class registries and instance registries); every transition
TLC explores is replayed on the real registry functions (base level and public API level,
including load_*/save_* dispatch through marker plugins); traces recorded from the real code
(hypothesis drivers and the repository's own plugin-system tests, hooks on) are accepted or
rejected by spec/RegistryTrace.tla.
"""
from __future__ import annotations

import json
import os
import tempfile
import warnings
from pathlib import Path

from .core import Check, MachineryError, seed
from .graph import walk_edges
from .tlc import printed_json, require_actions, run_tlc

INVARIANTS = ["TypeOK", "FirstWins", "FullNameReachable", "WarnOnlyOnRegister", "DotRejected", "LookupFollowsRegistry"]
PROPERTIES = ["OnlySetRepoints", "ErrorsArePure", "WarnIffConflict"]


def cfg(short, dotted, classes, instance, maxops, emit=False):
    def s(xs):
        return "{" + ", ".join(f'"{x}"' for x in xs) + "}"

    lines = ["SPECIFICATION Spec", "CONSTANTS", f"  ShortNames = {s(short)}", f"  DottedNames = {s(dotted)}",
             f"  Classes = {s(classes)}", f"  InstanceMode = {'TRUE' if instance else 'FALSE'}", f"  MaxOps = {maxops}",
             "CHECK_DEADLOCK FALSE"]
    if emit:
        lines.append("ACTION_CONSTRAINT Emit")
    else:
        lines += [f"INVARIANT {i}" for i in INVARIANTS] + [f"PROPERTY {p}" for p in PROPERTIES]
    return "\n".join(lines) + "\n"


# ------------------------------------------------------------------------- real-code side
_AUX: dict = {}


def _mk_classes(names, kind):
    """Marker plugin classes whose full_plugin_name is exactly the spec's class name."""
    from glotaran.io.interface import DataIoInterface, ProjectIoInterface
    from glotaran.model.megacomplex import Megacomplex

    res = {}
    for full in names:
        mod, name = full.rsplit(".", 1)
        if kind == "megacomplex":
            from glotaran.model import DatasetModel
            from glotaran.model.item import item as _item
            from glotaran.model.megacomplex import megacomplex as _mc_decorator
            # a real megacomplex item class (no default for `type`, hence no automatic registration by the decorator) that brings its own
            # dataset model type along: the model class built by load_model shows which plugin the name resolved to
            ds = _item(type("DS_" + name + "_" + mod.replace(".", "_"), (DatasetModel,), {"__module__": mod, "__annotations__": {f"opt_{name}": int}, f"opt_{name}": 1}))
            cls = _mc_decorator(dataset_model_type=ds)(type(name, (Megacomplex,), {"__module__": mod, "__annotations__": {}}))
        elif kind == "data_io":
            def load_dataset(self, file_name, **kw):
                import xarray as xr
                CALLS.append(("load_dataset", type(self).__module__ + "." + type(self).__name__, self.format))
                return xr.Dataset({"data": (("time", "spectral"), [[1.0]])}, coords={"time": [0], "spectral": [0]})

            def save_dataset(self, dataset, file_name, **kw):
                CALLS.append(("save_dataset", type(self).__module__ + "." + type(self).__name__, self.format))

            cls = type(name, (DataIoInterface,), {"__module__": mod, "load_dataset": load_dataset, "save_dataset": save_dataset})
        else:
            def mk(meth):
                def f(self, *a, **kw):
                    CALLS.append((meth, type(self).__module__ + "." + type(self).__name__, self.format))
                    return _Obj()
                return f
            d = {"__module__": mod}
            for meth in ("load_model", "save_model", "load_parameters", "save_parameters", "load_scheme", "save_scheme", "load_result"):
                d[meth] = mk(meth)
            cls = type(name, (ProjectIoInterface,), d)
        res[full] = cls
    return res


class _Obj:
    source_path = None


CALLS: list = []


def project(regdict, instance):
    from glotaran.plugin_system.base_registry import full_plugin_name
    return {k: {"cls": full_plugin_name(v), "fmt": (v.format if instance else "")} for k, v in regdict.items()}


def spec_reg(d):
    return {k: v for k, v in d.items() if v["cls"] != "none"}


def macro_edges(raw):
    """Collapse BeginRegister + ContinueRegister chains (one real call) into macro edges."""
    def skey(reg, pend):
        return json.dumps([spec_reg(reg), pend], sort_keys=True)

    by_src = {}
    for e in raw:
        by_src.setdefault(skey(e["pre"], e["prepend"]), []).append(e)
    edges = []
    for e in raw:
        if e["prepend"]:
            continue
        steps = [e["act"]]
        cur = e
        while cur["postpend"]:
            nxt = by_src[skey(cur["post"], cur["postpend"])]
            assert len({json.dumps([x["act"], spec_reg(x["post"]), x["postpend"]], sort_keys=True) for x in nxt}) == 1, "continuation must be deterministic"
            cur = nxt[0]
            steps.append(cur["act"])
        keys = [e["act"]["key"]] + [p[0] for p in e["postpend"]] if e["act"]["op"] == "register" else [e["act"]["key"]]
        edges.append({"src": skey(e["pre"], []), "dst": skey(cur["post"], []), "op": e["act"]["op"], "keys": keys,
                      "arg": e["act"]["cls"], "steps": steps, "pre": spec_reg(e["pre"]), "post": spec_reg(cur["post"])})
    # dedupe (several spec states share a registry projection)
    seen = set()
    out = []
    for e in edges:
        k = (e["src"], e["op"], tuple(e["keys"]), e["arg"])
        if k not in seen:
            seen.add(k)
            out.append(e)
    return out


class Replayer:
    def __init__(self, chk: Check, kind: str, classes, level: str, tmp: Path):
        self.chk = chk
        self.kind = kind
        self.instance = kind != "megacomplex"
        self.classes = _mk_classes(classes, kind)
        self.level = level
        self.tmp = tmp
        self.n = 0

    def execute(self, regdict, e):
        import glotaran.plugin_system.base_registry as br
        from glotaran.plugin_system.base_registry import PluginOverwriteWarning
        self.n += 1
        self.chk.evaluations += 1
        err = ""
        ret = None
        CALLS.clear()
        dispatched = None
        self.last_dispatch = None
        with warnings.catch_warnings(record=True) as w:
            warnings.simplefilter("always")
            try:
                if self.level == "base":
                    ret = self._base(br, regdict, e)
                else:
                    ret, dispatched = self._public(regdict, e)
            except ValueError as ex:
                err = "ValueError"
                self.msg = str(ex)
                dispatched = self.last_dispatch
        nwarn = sum(1 for x in w if issubclass(x.category, PluginOverwriteWarning))
        exp_err = "ValueError" if any(s["err"] for s in e["steps"]) else ""
        exp_warn = sum(1 for s in e["steps"] if s["warned"])
        got = project(regdict, self.instance)
        desc = f"{self.kind}/{self.level} {e['op']}({','.join(e['keys'])},{e['arg']})"
        key = f"Registry[{self.kind}/{self.level}]: pre={json.dumps(e['pre'], sort_keys=True)} op={e['op']} keys={e['keys']} arg={e['arg']}"
        rep = {"engine": "c19-edge", "kind": self.kind, "level": self.level, "edge": e}
        bad = False
        if got != e["post"]:
            bad |= self.chk.violation(key, f"{desc}: registry after = {got}, specification allows {e['post']}", rep)
        if err != exp_err:
            bad |= self.chk.violation(key, f"{desc}: error {err!r}, specification says {exp_err!r}", rep)
        if nwarn != exp_warn:
            bad |= self.chk.violation(key, f"{desc}: {nwarn} PluginOverwriteWarning(s), specification says {exp_warn}", rep)
        if e["op"] == "lookup":
            exp = e["steps"][0]["ret"]
            if not err:
                from glotaran.plugin_system.base_registry import full_plugin_name
                g = {"cls": full_plugin_name(ret), "fmt": ret.format if self.instance else ""}
                if g != exp:
                    bad |= self.chk.violation(key, f"{desc}: lookup returned {g}, specification says {exp}", rep)
            elif self.level == "public" and e["keys"][0] not in self.msg:
                bad |= self.chk.violation(key, f"{desc}: error message does not name the unknown key: {self.msg!r}", rep)
            elif self.level == "public":
                shorts = sorted(k for k in e["pre"] if "." not in k)
                if any(repr(s)[1:-1] not in self.msg for s in shorts):
                    bad |= self.chk.violation(key, f"{desc}: error message does not name the known plugins {shorts}: {self.msg!r}", rep)
            if dispatched is not None:
                for how, called, derr in dispatched:
                    want = (exp["cls"], exp["fmt"]) if exp["cls"] != "none" else None
                    if (called is None) != (want is None) or (called is not None and tuple(called[1:]) != want):
                        bad |= self.chk.violation(key + f" dispatch={how}", f"{desc}: {how} dispatched to {called} ({derr}), registry resolves {want}", rep)
        if e["pre"] != e["post"] or exp_warn or exp_err:
            self.chk.nontriv(key)
        if self.n % 997 == 1:
            self.chk.sample({"kind": self.kind, "level": self.level, "pre": e["pre"], "op": e["op"], "keys": e["keys"], "arg": e["arg"],
                             "post": e["post"], "err": exp_err, "warnings": exp_warn})
        return not bad

    def _base(self, br, reg, e):
        if e["op"] == "register":
            cls = self.classes[e["arg"]]
            if self.instance:
                ks = e["keys"] if len(e["keys"]) > 1 else e["keys"][0]
                br.add_instantiated_plugin_to_registry(ks, cls, reg, "set_x_plugin")
            else:
                br.add_plugin_to_registry(e["keys"][0], cls, reg, "set_x_plugin")
        elif e["op"] == "set":
            br.set_plugin(e["keys"][0], e["arg"], reg)
        else:
            return br.get_plugin_from_registry(e["keys"][0], reg, f"unknown {e['keys'][0]}")

    def _public(self, reg, e):
        import glotaran.plugin_system.base_registry as br
        from glotaran.plugin_system import data_io_registration as dio
        from glotaran.plugin_system import megacomplex_registration as mreg
        from glotaran.plugin_system import project_io_registration as pio
        from glotaran.testing.plugin_system import monkeypatch_plugin_registry
        PR = getattr(br, "__PluginRegistry")
        kw = {"megacomplex": "test_megacomplex", "data_io": "test_data_io", "project_io": "test_project_io"}[self.kind]
        ret = None
        dispatched = None
        with monkeypatch_plugin_registry(**{kw: dict(reg)}, create_new_registry=True):
            live = getattr(PR, self.kind)
            try:
                k = e["keys"][0]
                if e["op"] == "register":
                    cls = self.classes[e["arg"]]
                    if self.kind == "megacomplex":
                        mreg.register_megacomplex(k, cls)
                    elif self.kind == "data_io":
                        dio.register_data_io(e["keys"] if len(e["keys"]) > 1 else k)(cls)
                    else:
                        pio.register_project_io(e["keys"] if len(e["keys"]) > 1 else k)(cls)
                elif e["op"] == "set":
                    {"megacomplex": mreg.set_megacomplex_plugin, "data_io": dio.set_data_plugin, "project_io": pio.set_project_plugin}[self.kind](k, e["arg"])
                else:
                    dispatched = self.last_dispatch = self._dispatch(k, dio, pio)    # kept also when the lookup below raises (unknown key)
                    ret = {"megacomplex": mreg.get_megacomplex, "data_io": dio.get_data_io, "project_io": pio.get_project_io}[self.kind](k)
                    known = {"megacomplex": mreg.is_known_megacomplex, "data_io": dio.is_known_data_format, "project_io": pio.is_known_project_format}[self.kind](k)
                    assert known
            finally:
                reg.clear()
                reg.update(live)
        return ret, dispatched

    def _dispatch(self, k, dio, pio):
        """load_* / save_* with given and inferred format must reach whatever the registry resolves."""
        if self.kind == "megacomplex":
            # model-class creation from registered types: load_model builds the model class from whatever the name resolves to NOW (seen through
            # the dataset model type the plugin brings along); the item class of `type: k` itself comes from the item-type table, for which an
            # auxiliary item class with that type name is defined once (not a plugin: defined without the registering decorator)
            from glotaran.io import load_model
            from glotaran.model import Megacomplex
            from glotaran.model.item import item as _item
            if "." in k:
                return None
            if k not in _AUX:
                _AUX[k] = _item(type("Aux_" + k, (Megacomplex,), {"__module__": "verif.aux", "__annotations__": {"type": str, "dimension": str}, "type": k, "dimension": "time"}))
            spec = f"megacomplex:\n  m1:\n    type: '{k}'\ndataset:\n  d1:\n    megacomplex: [m1]\n"
            out = []
            for how in ("load_model/yml_str", "load_model/yml_str again"):       # twice: a cache keyed by the name would answer the second call
                called, derr = None, None
                try:
                    with warnings.catch_warnings():
                        warnings.simplefilter("ignore")
                        m = load_model(spec, format_name="yml_str")
                    dsm = m.dataset["d1"]
                    owner = [full for full, c in self.classes.items() if c.get_dataset_model_type() is not None and isinstance(dsm, c.get_dataset_model_type())]
                    called = ("load_model", owner[0] if len(owner) == 1 else f"dataset model of {owner}", "")
                except ValueError as ex:
                    derr = f"ValueError: {str(ex)[:120]}"
                out.append((how, called, derr))
            return out
        res = []
        import xarray as xr
        ds = xr.Dataset({"data": (("time", "spectral"), [[1.0]])}, coords={"time": [0], "spectral": [0]})
        inferable = "." not in k and "_" not in k and k not in ("yml",)
        for how in ("given", "given, file name without extension", "inferred"):
            if how == "inferred" and not inferable:
                continue
            fname = self.tmp / (f"f.{k}" if how == "inferred" else ("f.dat" if how == "given" else "f_no_extension"))
            fname.write_text("x")
            fmt = k if how.startswith("given") else None
            calls = []
            if self.kind == "data_io":
                calls.append(("load_dataset", lambda: dio.load_dataset(fname, format_name=fmt)))
                calls.append(("save_dataset", lambda: dio.save_dataset(ds, fname, format_name=fmt, allow_overwrite=True)))
            else:
                for meth in ("model", "parameters", "scheme"):
                    calls.append((f"load_{meth}", lambda meth=meth: getattr(pio, f"load_{meth}")(fname, format_name=fmt)))
                    calls.append((f"save_{meth}", lambda meth=meth: getattr(pio, f"save_{meth}")(_Obj(), fname, format_name=fmt, allow_overwrite=True)))
                calls.append(("load_result", lambda: pio.load_result(fname, format_name=fmt)))
            for name, call in calls:
                CALLS.clear()
                derr = None
                try:
                    call()
                except ValueError as ex:
                    derr = f"ValueError: {ex}"
                called = CALLS[0] if CALLS else None
                if called is not None and called[0] != name:
                    called = ("wrong-method:" + called[0], *called[1:])
                res.append((f"{name}/{how}", called, derr))
        return res


def replay_edges(chk: Check, raw_edges, kind, classes, level, limit=None, rng=None):
    edges = macro_edges(raw_edges)
    if limit and len(edges) > limit:
        # keep a connected sample: all register/set edges (they build states), a sample of lookups
        keep = [e for e in edges if e["op"] != "lookup"]
        look = [e for e in edges if e["op"] == "lookup"]
        rng.shuffle(look)
        edges = keep + look[: max(600, limit - len(keep))]      # lookups carry the dispatch checks: never sample them away
        chk.exhaustive = False
    with tempfile.TemporaryDirectory(prefix="verif_c19_") as td:
        rp = Replayer(chk, kind, classes, level, Path(td))
        init = json.dumps([{}, []], sort_keys=True)
        nst, ned = walk_edges(edges, init, dict, dict, rp.execute)
    if ned < len(edges):
        # unreachable only if a mismatch cut the walk short
        chk.skip(f"{kind}/{level}: edges not executed because an earlier step mismatched", len(edges) - ned)
    chk.traces += ned
    return nst, ned


def run(tier: str, replay=None) -> int:
    import random
    chk = Check("C19", tier)
    rng = random.Random(seed())
    chk.rule = ("every transition of the TLC state graph of spec/Registry.tla (class and instance registries) is executed on "
                "the real registry functions; non-trivial = the registry changes, a warning is due or an error is due; "
                "distinct = distinct (registry projection, operation, arguments)")
    chk.assumptions = [
        "plugin identity is abstracted to (class full name, format); re-instantiation of an IO plugin on re-registration is the same abstract plugin",
        "the full name of an instance plugin is <module.Class>_<format> (the key the code registers); the bare module.Class key of instance registries is modelled as the code writes it but no property is claimed about it",
        "D5: only PluginOverwriteWarning presence/count is compared",
        "trusted: TLC, CommunityModules Json, CPython dict copy used to fork registry states",
    ]
    if replay:
        return _replay_one(chk, replay)
    # short names that differ only in case are different keys (an inferred format is the extension as written); one of the dotted names a
    # user may try to register is the full name of a plugin class, i.e. possibly a key the registry already holds
    short, dotted = ["a", "A"], ["x.y", "m.C1"]
    if tier == "quick":
        plans = [("megacomplex", ["m.C1", "m.C2"], 5), ("data_io", ["m.C1", "m.C2"], 3)]
        pub_limit = 1500
    else:
        plans = [("megacomplex", ["m.C1", "m.C2", "n.C1"], 6), ("data_io", ["m.C1", "m.C2"], 4), ("project_io", ["m.C1", "m.C2"], 3)]
        pub_limit = None
    for kind, classes, maxops in plans:
        inst = kind != "megacomplex"
        res = run_tlc("Registry", cfg(short, dotted, classes, inst, maxops), workers=16, timeout=1500)
        need = ["BeginRegister", "SetPlugin", "Lookup"] + (["ContinueRegister"] if inst else [])
        require_actions(res, need)
        chk.add_tlc(res, f"Registry[{kind},MaxOps={maxops}]")
        em = run_tlc("RegistryEmit", cfg(short, dotted, classes, inst, maxops, emit=True), workers=1, timeout=1500, coverage=False)
        raw = printed_json(em["stdout"], "EDGE")
        if len(raw) + 1 != em["generated"]:
            raise MachineryError(f"edge emission incomplete: {len(raw)} edges parsed, TLC generated {em['generated']} states")
        replay_edges(chk, raw, kind, classes, "base")
        replay_edges(chk, raw, kind, classes, "public", limit=pub_limit, rng=rng)
        if kind == "data_io" and tier == "quick":
            replay_edges(chk, raw, "project_io", classes, "public", limit=pub_limit, rng=rng)
    from . import c19_trace
    c19_trace.run(chk, tier, rng)
    return chk.finish()


def _replay_one(chk, rp):
    r = rp["replay"]
    if r.get("engine") == "c19-edge":
        with tempfile.TemporaryDirectory(prefix="verif_c19_") as td:
            e = r["edge"]
            R = Replayer(chk, r["kind"], sorted({e["arg"]} | {v["cls"] for v in e["pre"].values()} | {"m.C1", "m.C2", "n.C1"}), r["level"], Path(td))
            # rebuild the pre-state directly from its projection
            reg = {}
            for k, v in e["pre"].items():
                cls = R.classes[v["cls"]]
                reg[k] = cls(v["fmt"]) if R.instance else cls
            R.execute(reg, e)
    else:
        from . import c19_trace
        c19_trace.replay(chk, r)
    return chk.finish()
