"""Harness-defined megacomplex for the C11/C12 fits (public plugin API only; imported lazily).

Every parameter of a fit is a decay rate of this megacomplex, so every free parameter has its own
sensitivity; the megacomplex logs the parameter values it is evaluated with (MODEL_CALLS), which is
how "the model is always evaluated with mutually consistent parameter values" is observed without
hooks in the library.  (No `from __future__ import annotations`: the item decorator resolves the
annotations against this module's globals.)
"""
import numpy as np

from glotaran.model import Megacomplex
from glotaran.model import Model
from glotaran.model import ParameterType
from glotaran.model import megacomplex

MODEL_CALLS: list = []


@megacomplex()
class VerifDecayMegacomplex(Megacomplex):
    type: str = "verif-c11-decay"
    dimension: str = "time"
    rates: list[ParameterType]

    def calculate_matrix(self, dataset_model, global_axis, model_axis, **kwargs):
        k = np.asarray([float(r) for r in self.rates])
        MODEL_CALLS.append([(r.label, float(r.value)) for r in self.rates])
        return [f"s{i + 1}" for i in range(k.size)], np.exp(-np.outer(model_axis, k))

    def finalize_data(self, dataset_model, dataset, is_full_model=False, as_global=False):
        pass


VerifModel = Model.create_class_from_megacomplexes([VerifDecayMegacomplex])
