"""Shared machinery: check context, evidence writer, known findings, exit codes.

exit 0 = property held on everything explored (KNOWN-FINDING lines allowed)
exit 1 = violation not listed in known_findings.json (VIOLATION line printed, replay file written)
exit 2 = machinery failure (TLC crash, overflow, vacuity, parse error)
"""
from __future__ import annotations

import json
import os
import sys
import time
import traceback
from pathlib import Path

VERIF = Path(__file__).resolve().parent.parent
REPO = Path(os.environ.get("VERIF_REPO", "/repo"))
SPEC = VERIF / "spec"
EVIDENCE = Path(os.environ.get("VERIF_EVIDENCE_DIR", VERIF / "evidence"))     # seeded-change runs write elsewhere
REPLAYS = Path(os.environ.get("VERIF_REPLAYS_DIR", VERIF / "replays"))
FINDINGS_FILE = VERIF / "known_findings.json"


class MachineryError(RuntimeError):
    """Anything that prevents a verdict: never reported as a violation."""


def seed() -> int:
    try:
        return int(os.environ.get("VERIF_SEED", "0"))
    except ValueError:
        return 0


def load_findings() -> list[dict]:
    if not FINDINGS_FILE.exists():
        return []
    return json.loads(FINDINGS_FILE.read_text())["findings"]


class Check:
    """Collects coverage, violations and known findings for one property run."""

    def __init__(self, pid: str, tier: str, level: str = "model_checking"):
        self.pid = pid
        self.tier = tier
        self.level = level
        self.t0 = time.time()
        self.states = 0
        self.transitions = 0
        self.traces = 0
        self.evaluations = 0
        self.nontrivial: set = set()
        self.samples: list = []
        self.assumptions: list[str] = []
        self.rule = ""
        self.exhaustive = True
        self.extra: dict = {}
        self.violations: list[dict] = []
        self.known_hits: dict[str, int] = {}
        self.known = [f for f in load_findings() if f["property"] == pid and f["status"] == "known"]
        self.tlc_runs: list[dict] = []
        self.skipped: dict[str, int] = {}
        global LIVE
        LIVE = self

    # ------------------------------------------------------------------ coverage
    def add_tlc(self, res: dict, name: str | None = None):
        self.states += res.get("distinct", 0)
        self.transitions += res.get("generated", 0)
        self.tlc_runs.append(
            {
                "spec": name or res.get("spec"),
                "states": res.get("distinct"),
                "transitions": res.get("generated"),
                "wall_s": res.get("wall_s"),
                "complete": res.get("complete"),
                "mode": res.get("mode"),
                "coverage_by_action": res.get("actions", {}),
            }
        )
        if not res.get("complete", False) and res.get("mode") != "simulate":
            self.exhaustive = False

    def sample(self, s, limit: int = 6):
        if len(self.samples) < limit:
            self.samples.append(s)

    def nontriv(self, key):
        self.nontrivial.add(key if isinstance(key, (str, int, tuple)) else json.dumps(key, sort_keys=True, default=str))

    def skip(self, reason: str, n: int = 1):
        self.skipped[reason] = self.skipped.get(reason, 0) + n

    # ------------------------------------------------------------------ verdicts
    def violation(self, key: str, what: str, replay: dict | None = None):
        """key identifies the failing input / call site / history."""
        for f in self.known:
            if _match(f, key):
                self.known_hits[f["key"]] = self.known_hits.get(f["key"], 0) + 1
                return False
        if len(self.violations) < 50:
            self.violations.append({"key": key, "what": what, "replay": replay})
        else:
            self.violations.append({"key": key, "what": what, "replay": None})
        return True

    def finish(self) -> int:
        wall = time.time() - self.t0
        REPLAYS.joinpath(self.pid).mkdir(parents=True, exist_ok=True)
        EVIDENCE.mkdir(exist_ok=True)
        for f in self.known:
            if f["key"] in self.known_hits:
                print(f"KNOWN-FINDING: property={self.pid} {f['what']} [{f['key']}] ({self.known_hits[f['key']]} cases)")
        seen = set()
        n = 0
        for v in self.violations:
            if v["key"] in seen:
                continue
            seen.add(v["key"])
            n += 1
            if n > 20:
                continue
            path = REPLAYS / self.pid / f"v{n:03d}.json"
            path.write_text(json.dumps({"property": self.pid, "key": v["key"], "what": v["what"], "replay": v["replay"]}, indent=1, default=str))
            print(f"VIOLATION property={self.pid} replay={path}")
            print(f"  key: {v['key']}\n  what: {v['what']}")
        cov = {
            "states": self.states,
            "transitions": self.transitions,
            "traces_validated_against_impl": self.traces,
            "samples": self.samples or ["(no sample recorded)"],
            "evaluations": self.evaluations,
            "distinct_nontrivial": len(self.nontrivial),
            "rule": self.rule,
            "exhaustive": bool(self.exhaustive),
            "tlc_runs": self.tlc_runs,
            "skipped": self.skipped,
            "known_findings_hit": self.known_hits,
        }
        cov.update(self.extra)
        ev = {
            "property_id": self.pid,
            "tier": self.tier,
            "seed": seed(),
            "level": self.level,
            "coverage": cov,
            "assumptions": self.assumptions,
            "wall_s": round(wall, 2),
            "violations": len(seen),
        }
        (EVIDENCE / f"{self.pid}.json").write_text(json.dumps(ev, indent=1, default=str))
        status = 1 if seen else 0
        print(
            f"[{self.pid}] tier={self.tier} states={self.states} transitions={self.transitions} "
            f"traces={self.traces} evaluations={self.evaluations} nontrivial={len(self.nontrivial)} "
            f"violations={len(seen)} known={sum(self.known_hits.values())} wall={wall:.1f}s"
        )
        return status


def _match(finding: dict, key: str) -> bool:
    k = finding["key"]
    if finding.get("match", "exact") == "prefix":
        return key.startswith(k)
    return key == k


def raised_by_implementation(e: BaseException) -> str | None:
    """Name of the innermost function of the library under test in the traceback if the exception was raised there (and not by harness
    code called back from it), else None."""
    import traceback as _tb
    frames = _tb.extract_tb(e.__traceback__)
    if not frames:
        return None
    last = frames[-1].filename.replace("\\", "/")
    if "/glotaran/" in last or any(part in last for part in ("/numpy/", "/scipy/", "/xarray/", "/numba/", "/pandas/")):
        inner = [f for f in frames if "/glotaran/" in f.filename.replace("\\", "/")]
        if inner:
            return inner[-1].name
    return None


LIVE = None      # the Check of the run in progress


def _salvage(pid: str) -> int:
    """The machinery broke down AFTER violations had been established: they stand (exit 1); the run is marked incomplete."""
    chk = LIVE
    if chk is None or chk.pid != pid or not chk.violations:
        return 2
    chk.exhaustive = False
    chk.extra["incomplete"] = "the harness stopped with a machinery failure after these violations had been found"
    try:
        return chk.finish()
    except Exception:  # noqa: BLE001
        traceback.print_exc()
        return 2


def run_check(fn, pid: str, tier: str, replay: str | None = None) -> int:
    global LIVE
    LIVE = None
    try:
        if replay:
            return fn(tier, replay=json.loads(Path(replay).read_text()))
        return fn(tier)
    except MachineryError as e:
        print(f"MACHINERY-FAILURE property={pid}: {e}", file=sys.stderr)
        return _salvage(pid)
    except Exception:  # noqa: BLE001
        traceback.print_exc()
        print(f"MACHINERY-FAILURE property={pid}: unexpected exception in harness", file=sys.stderr)
        return _salvage(pid)
