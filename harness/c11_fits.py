"""code -> spec for C11 (and the fit part of C12): real fits turned into rank-encoded traces for spec/FitTrace.tla.

A seeded driver builds small kinetic fits over a harness-defined megacomplex (public plugin API; every
parameter is a decay rate, so every free parameter has a distinct sensitivity).  Observed per fit:
  * Result.parameter_history, each row decoded with initial.copy().set_from_history(history, i)
    (the history stores optimiser-space numbers: log(value) for non-negative parameters);
  * the parameter values the MODEL is evaluated with (the megacomplex logs the values it receives);
  * Result.optimized_parameters, free_parameter_labels, jacobian, covariance_matrix, standard errors.
Column identity is observed discretely: Jacobian column j is matched against forward differences of the
objective w.r.t. each free parameter, covariance column j against the columns of (J^T J)^-1, standard
error j against rmse*sqrt(diag) (and its non-negative back-transforms).
All floats of one fit are replaced by their dense order rank; FitTrace.tla accepts or rejects.
"""
from __future__ import annotations

import json
import math
import re
import tempfile
import warnings
from pathlib import Path

import numpy as np

from .core import Check, MachineryError, seed
from .tlc import run_tlc

TOL = 1e-9   # DESIGN section 4: log/exp round trip of non-negative parameters


# ------------------------------------------------------------------------- expression ASTs (driver's own)
def text(a) -> str:
    k = a[0]
    if k == "ref":
        return "$" + a[1]
    if k == "const":
        return repr(float(a[1]))
    if k == "sqrt":
        return f"sqrt({text(a[1])})"
    return f"({text(a[1])} {dict(add='+', sub='-', mul='*')[k]} {text(a[2])})"


def evaluate(a, env) -> float:
    k = a[0]
    if k == "ref":
        return env[a[1]]
    if k == "const":
        return float(a[1])
    if k == "sqrt":
        return float(np.sqrt(evaluate(a[1], env)))
    x, y = evaluate(a[1], env), evaluate(a[2], env)
    return x + y if k == "add" else (x - y if k == "sub" else x * y)


def refs(a) -> list[str]:
    if a[0] == "ref":
        return [a[1]]
    if a[0] == "const":
        return []
    return [r for sub in a[1:] for r in refs(sub)]


# ------------------------------------------------------------------------- model (public plugin API only)
def model_class():
    from . import c11_model
    return c11_model.VerifModel


def _calls():
    from . import c11_model
    return c11_model.MODEL_CALLS


# ------------------------------------------------------------------------- case generation
BASE = [1.1, 0.37, 0.12, 0.04, 0.013]
INF = float("inf")


def _lab(i, nested):
    return f"k{i + 1}" if not nested else (f"rates.k{i + 1}" if i % 2 == 0 else f"b{i + 1}.c.k")


def gen_case(rng, idx: int, mode: str) -> dict:
    """mode 'c11': mixes of free/bounded/non-negative/fixed/expression parameters (expressions reference plain parameters);
    mode 'c12': chains of expressions (depth 2-3) in random declaration orders"""
    n = int(rng.integers(2, 5)) if mode == "c11" else int(rng.integers(3, 6))
    nested = bool(rng.integers(0, 2))
    labels = [_lab(i, nested) for i in range(n)]
    truth = [BASE[i] * float(rng.uniform(0.9, 1.1)) for i in range(n)]
    method = ["TrustRegionReflection", "Dogbox", "Levenberg-Marquardt"][idx % 3]
    lm = method == "Levenberg-Marquardt"
    params = []
    if mode == "c11":
        roles = ["free", "bounded", "active_lo", "active_hi", "start_at_min", "start_at_max", "lower", "upper", "nonneg", "nonneg_bounded",
                 "nonneg_active", "nonneg_one", "nonneg_negmin", "fixed", "fixed_nonneg", "expr", "expr_vary"]
        if lm:
            roles = ["free", "nonneg", "nonneg_one", "fixed", "fixed_nonneg", "expr", "expr_vary"]
        chosen = [roles[int(rng.integers(0, len(roles)))] for _ in range(n)]
        # two parameters starting at exactly 1 would be two identical decay rates (no distinct sensitivities): at most one
        seen_one = False
        for i, r in enumerate(chosen):
            if r == "nonneg_one":
                if seen_one:
                    chosen[i] = "nonneg"
                seen_one = True
        if not any(r not in ("fixed", "fixed_nonneg", "expr", "expr_vary") for r in chosen):
            chosen[int(rng.integers(0, n))] = "free" if lm else "bounded"
        plain = [i for i, r in enumerate(chosen) if not r.startswith("expr")]
        for i, r in enumerate(chosen):
            t = truth[i]
            d = {"label": labels[i], "role": r, "vary": True, "nonneg": False, "min": -INF, "max": INF, "expr": None}
            start = t * float(rng.uniform(0.75, 1.3))
            if r == "bounded":
                d["min"], d["max"] = round(t * 0.5, 4), round(t * 1.8, 4)
            elif r == "active_lo":
                d["min"], d["max"] = round(t * 1.15, 4), round(t * 3, 4)
                start = d["min"] * 1.2
            elif r == "active_hi":
                d["min"], d["max"] = round(t * 0.3, 4), round(t * 0.85, 4)
                start = d["max"] * 0.8
            elif r == "start_at_min":
                d["min"], d["max"] = round(t * 0.6, 4), round(t * 2, 4)
                start = d["min"]
            elif r == "start_at_max":
                d["min"], d["max"] = round(t * 0.5, 4), round(t * 1.4, 4)
                start = d["max"]
            elif r == "lower":
                d["min"] = round(t * float(rng.choice([0.5, 1.1])), 4)
                start = max(start, d["min"])
            elif r == "upper":
                d["max"] = round(t * float(rng.choice([0.9, 2.0])), 4)
                start = min(start, d["max"])
            elif r == "nonneg":
                d["nonneg"] = True
            elif r == "nonneg_bounded":
                d["nonneg"] = True
                d["min"], d["max"] = round(t * 0.4, 4), round(t * 2.5, 4)
            elif r == "nonneg_active":
                d["nonneg"] = True
                d["min"], d["max"] = round(t * 1.1, 4), round(t * 4, 4)
                start = d["min"] if rng.integers(0, 2) else d["min"] * 1.3
            elif r == "nonneg_one":
                d["nonneg"] = True
                start = 1.0
                if not lm and rng.integers(0, 2):
                    d["min"], d["max"] = 0.0, 1.0
            elif r == "nonneg_negmin":
                d["nonneg"] = True
                d["min"] = -1.0
            elif r in ("fixed", "fixed_nonneg"):
                d["vary"] = False
                d["nonneg"] = r == "fixed_nonneg"
                start = t * float(rng.choice([1.0, 1.05]))
                if not lm and rng.integers(0, 2):
                    d["min"], d["max"] = round(t * 1.5, 4), round(t * 3, 4)     # a fixed parameter may sit outside its (unused) bounds
            elif r.startswith("expr"):
                if plain:
                    j = plain[int(rng.integers(0, len(plain)))]
                    c = round(t / truth[j], 3)
                    d["expr"] = ["mul", ["ref", labels[j]], ["const", c]] if rng.integers(0, 2) else ["add", ["ref", labels[j]], ["const", round(t - truth[j], 4)]]
                else:
                    d["expr"] = ["const", round(t, 4)]
                d["vary"] = r == "expr_vary"          # user says vary: the expression wins
                if not lm and rng.integers(0, 3) == 0:
                    d["min"], d["max"] = round(t * 2, 4), round(t * 3, 4)       # bounds of an expression parameter are not enforced by anyone
                start = float(rng.choice([0.0, t]))
            d["value"] = float(start)
            params.append(d)
    else:
        # chain: parameter 0 free; parameter i = f(parameter i-1) for a chain of depth 2-3; the rest free/fixed
        depth = int(rng.integers(2, 4))
        for i in range(n):
            t = truth[i]
            d = {"label": labels[i], "role": "free", "vary": True, "nonneg": bool(rng.integers(0, 2)) and i == 0, "min": -INF, "max": INF, "expr": None,
                 "value": t * float(rng.uniform(0.8, 1.25))}
            if 1 <= i <= depth:
                c = round(t / truth[i - 1], 3)
                form = int(rng.integers(0, 3))
                d["expr"] = (["mul", ["ref", labels[i - 1]], ["const", c]] if form == 0 else
                             ["add", ["ref", labels[i - 1]], ["const", round(t - truth[i - 1], 4)]] if form == 1 else
                             ["mul", ["sqrt", ["mul", ["ref", labels[i - 1]], ["ref", labels[i - 1]]]], ["const", c]])
                d["role"] = "expr"
                d["vary"] = False
                d["value"] = 0.0
            elif i > depth and rng.integers(0, 2):
                d["role"], d["vary"], d["value"] = "fixed", False, t
            params.append(d)
    order = [int(x) for x in rng.permutation(n)]
    if mode == "c12" and idx % 4 == 0:
        order = list(range(n))          # natural order: no forward reference
    if mode == "c12" and idx % 4 == 1:
        order = list(range(n))[::-1]    # fully reversed: every reference is a forward reference
    if nested:
        # a nested dict keeps the parameters of one group together: the declaration order is group by group (first occurrence)
        groups: dict = {}
        for i in order:
            groups.setdefault(labels[i].rsplit(".", 1)[0], []).append(i)
        order = [i for g in groups.values() for i in g]
    # truth of expression parameters follows from the truth of what they reference
    env = {labels[i]: truth[i] for i in range(n)}
    for _ in range(n):
        for i, d in enumerate(params):
            if d["expr"] is not None:
                env[d["label"]] = evaluate(d["expr"], env)
    return {"id": idx, "mode": mode, "method": method, "nested": nested, "params": [params[i] for i in order], "rates": labels,
            "truth": [env[lab] for lab in labels], "data_seed": int(rng.integers(0, 2**31 - 1)), "noise": float(rng.choice([1e-3, 1e-2])),
            "max_nfev": 40}


def forward_expr_ref(case) -> bool:
    pos = {d["label"]: i for i, d in enumerate(case["params"])}
    isexpr = {d["label"]: d["expr"] is not None for d in case["params"]}
    return any(d["expr"] is not None and any(isexpr[r] and pos[r] > pos[d["label"]] for r in refs(d["expr"])) for d in case["params"])


# ------------------------------------------------------------------------- running one fit
def _param_spec(case):
    out = []
    for d in case["params"]:
        opts = {}
        if d["expr"] is not None:
            opts["expr"] = text(d["expr"])
        if not d["vary"] or d["role"] == "expr_vary":
            opts["vary"] = d["vary"]
        if d["nonneg"]:
            opts["non-negative"] = True
        if d["min"] != -INF:
            opts["min"] = d["min"]
        if d["max"] != INF:
            opts["max"] = d["max"]
        out.append((d["label"], d["value"], opts))
    return out


def build_parameters(case):
    from glotaran.parameter import Parameters
    spec = _param_spec(case)
    if not case["nested"]:
        return Parameters.from_list([[lab, val, opts] if opts else [lab, val] for lab, val, opts in spec])
    tree: dict = {}
    for lab, val, opts in spec:
        parts = lab.split(".")
        node = tree
        for part in parts[:-2]:
            node = node.setdefault(part, {})
        node.setdefault(parts[-2], []).append([parts[-1], val, opts] if opts else [parts[-1], val])
    return Parameters.from_dict(tree)


def run_fit(case) -> dict:
    import xarray as xr
    from glotaran.optimization.optimize import optimize
    from glotaran.optimization.optimizer import Optimizer
    from glotaran.project import Scheme
    M = model_class()
    model = M(megacomplex={"m1": {"type": "verif-c11-decay", "rates": list(case["rates"])}}, dataset={"d1": {"megacomplex": ["m1"]}})
    rng = np.random.default_rng(case["data_seed"])
    t = np.linspace(0, 60, 80)
    nk = len(case["rates"])
    C = np.exp(-np.outer(t, np.asarray(case["truth"])))
    S = rng.uniform(0.5, 2.0, (nk, nk + 3))
    D = C @ S + rng.normal(0, case["noise"], (t.size, nk + 3))
    ds = xr.DataArray(D, coords={"time": t, "spectral": np.arange(nk + 3.0)}, dims=("time", "spectral")).to_dataset(name="data")
    obs: dict = {"error": None}
    with warnings.catch_warnings():
        warnings.simplefilter("ignore")
        try:
            params = build_parameters(case)
        except Exception as ex:  # noqa: BLE001
            obs["error"] = f"{type(ex).__name__}: {ex}"
            obs["construction_failed"] = True
            return obs
        declared = [(p.label, float(p.value)) for p in params.all()]
        if [lab for lab, _ in declared] != [d["label"] for d in case["params"]]:
            raise MachineryError(f"driver error: declaration order {[lab for lab, _ in declared]} differs from the case {[d['label'] for d in case['params']]}")
        scheme = Scheme(model=model, parameters=params, data={"d1": ds}, optimization_method=case["method"],
                        maximum_number_function_evaluations=case["max_nfev"])
        _calls().clear()
        try:
            result = optimize(scheme, verbose=False, raise_exception=True)
        except Exception as ex:  # noqa: BLE001
            obs["error"] = f"{type(ex).__name__}: {ex}"
            obs["bounds_handed_over"] = _bounds(params)
            return obs
        calls = [list(c) for c in _calls()]
        _calls().clear()
        hist = result.parameter_history
        hl = list(hist.parameter_labels)[1:]
        decoded, raw = [], []
        for i in range(hist.number_of_records):
            q = result.initial_parameters.copy()
            q.set_from_history(hist, i)
            decoded.append({lab: float(q.get(lab).value) for lab in hl})
            raw.append({lab: float(v) for lab, v in zip(hl, hist.get_parameters(i)[1:])})
        opt = result.optimized_parameters
        obs.update(success=bool(result.success), declared=declared, history_labels=hl, decoded=decoded, raw=raw, calls=calls,
                   nfev=int(result.number_of_function_evaluations),
                   free_labels=list(result.free_parameter_labels), optimized={p.label: float(p.value) for p in opt.all()},
                   stderr={p.label: float(p.standard_error) for p in opt.all()},
                   definitions={p.label: [p.expression, bool(p.vary), bool(p.non_negative), float(p.minimum), float(p.maximum)] for p in opt.all()},
                   initial_after={p.label: float(p.value) for p in result.initial_parameters.all()},
                   rmse=float(result.root_mean_square_error))
        J = np.asarray(result.jacobian, dtype=float)
        cov = np.asarray(result.covariance_matrix, dtype=float)
        obs["ncols"] = [int(J.shape[1]), int(cov.shape[0]), int(cov.shape[1])]
        # ---- column identity by forward differences (own label order: reversed declaration order)
        mine = [d["label"] for d in reversed(case["params"]) if d["vary"] and d["expr"] is None]
        nonneg = {d["label"]: d["nonneg"] for d in case["params"]}
        x0 = np.array([math.log(obs["optimized"][lab]) if nonneg[lab] else obs["optimized"][lab] for lab in mine])
        o = Optimizer(Scheme(model=model, parameters=opt, data={"d1": ds}, optimization_method="TrustRegionReflection"), verbose=False)
        o._free_parameter_labels = list(mine)
        f0 = np.array(o.objective_function(x0), dtype=float)
        fd = {}
        for i, lab in enumerate(mine):
            h = 1e-6 * max(1.0, abs(x0[i]))
            x = x0.copy()
            x[i] += h
            fd[lab] = (np.array(o.objective_function(x), dtype=float) - f0) / h
        _calls().clear()
        jac_c = []
        for j in range(J.shape[1]):
            col = J[:, j]
            cands = []
            for lab in mine:
                d = fd[lab]
                if d.shape != col.shape:
                    continue
                nd, nc = float(np.linalg.norm(d)), float(np.linalg.norm(col))
                if nd == 0 or nc == 0:
                    if nd == nc:
                        cands.append(lab)
                    continue
                if float(d @ col) / (nd * nc) > 0.995 and 0.8 < nd / nc < 1.25:
                    cands.append(lab)
            jac_c.append(cands)
        obs["jac_candidates"] = jac_c
        # ---- covariance columns against (J^T J)^-1 computed here, standard errors against rmse*sqrt(diag)
        _, sv, vt = np.linalg.svd(J, full_matrices=False)
        keep = sv**2 > np.finfo(float).eps
        ref = (vt[keep].T / sv[keep] ** 2) @ vt[keep]
        cov_c = []
        for j in range(cov.shape[1]):
            cov_c.append([k + 1 for k in range(ref.shape[1]) if cov.shape[0] == ref.shape[0]
                          and np.linalg.norm(cov[:, j] - ref[:, k]) <= 1e-6 * max(np.linalg.norm(ref[:, k]), 1e-300)])
        obs["cov_candidates"] = cov_c
        err_c = []
        for j, lab in enumerate(obs["free_labels"]):
            se = obs["stderr"].get(lab, float("nan"))
            v = obs["optimized"].get(lab, float("nan"))
            cands = []
            for k in range(ref.shape[0]):
                e = obs["rmse"] * math.sqrt(max(ref[k, k], 0.0))
                forms = [e, v * (math.exp(min(e, 700.0)) - 1.0), v * e, abs(v)] if nonneg.get(lab) else [e]
                if any(abs(se - f) <= 1e-6 * max(abs(f), 1e-300) for f in forms):
                    cands.append(k + 1)
            err_c.append(cands)
        obs["err_candidates"] = err_c
    return obs


def _bounds(params):
    with warnings.catch_warnings():
        warnings.simplefilter("ignore")
        labels, x, lo, hi = params.get_label_value_and_bounds_arrays(exclude_non_vary=True)
    return {"labels": list(labels), "x": [float(v) for v in x], "lower": [float(v) for v in lo], "upper": [float(v) for v in hi]}


# ------------------------------------------------------------------------- rank-encoded traces
def _snap(v, cands):
    for c in cands:
        if math.isfinite(c) and abs(v - c) <= TOL * max(abs(c), 1e-300):
            return c
    return v


def build_traces(case, obs, judge_columns: bool = True) -> list[dict]:
    """two traces per fit: the decoded history rows, and the values the model was evaluated with"""
    P = case["params"]
    labels = [d["label"] for d in P]
    idx = {lab: i + 1 for i, lab in enumerate(labels)}
    init = {lab: v for lab, v in obs["declared"]}
    desc = {d["label"]: d for d in P}
    log_involved = {}

    def involved(lab, seen=()):
        d = desc[lab]
        if d["nonneg"]:
            return True
        if d["expr"] is None or lab in seen:
            return False
        return any(involved(r, seen + (lab,)) for r in refs(d["expr"]))
    for lab in labels:
        log_involved[lab] = involved(lab)

    def canon(row: dict, decoded: bool):
        """values of one record (label -> float) and expected expression values; tolerance only where log/exp was involved"""
        val, ex = {}, {}
        for lab in labels:
            d = desc[lab]
            v = row[lab]
            if d["nonneg"] and d["expr"] is None:
                v = _snap(v, [init[lab], d["min"], d["max"]])
            val[lab] = v
        for lab in labels:
            d = desc[lab]
            if d["expr"] is not None:
                e = evaluate(d["expr"], {r: val[r] for r in refs(d["expr"])}) if all(r in val for r in refs(d["expr"])) else float("nan")
                ex[lab] = e
                if log_involved[lab] and math.isfinite(e) and abs(val[lab] - e) <= TOL * max(abs(e), 1.0):
                    val[lab] = e
            else:
                ex[lab] = 0.0
        return val, ex

    def records(rows, decoded):
        return [canon(r, decoded) for r in rows]

    # history: free and fixed parameters from the library's own decoding; expression parameters as recorded
    hist_rows = []
    for dec, raw in zip(obs["decoded"], obs["raw"]):
        row = {}
        for lab in labels:
            d = desc[lab]
            if d["expr"] is not None:
                r = raw.get(lab, float("nan"))
                row[lab] = math.exp(r) if d["nonneg"] and r < 700 else r
            else:
                row[lab] = dec.get(lab, float("nan"))
        hist_rows.append(row)
    call_rows = [{lab: v for lab, v in c} for c in obs["calls"]]
    call_rows = [r for r in call_rows if set(r) == set(labels)]
    result_row = dict(obs["optimized"])
    out = []
    for kind, rows in (("history", hist_rows), ("model-calls", call_rows)):
        if not rows:
            continue
        recs = records(rows, kind == "history")
        rval, rex = canon(result_row, False)
        pool = {0.0}
        for d in P:
            pool |= {float(d["min"]), float(d["max"]), float(init[d["label"]])}
        for val, ex in recs + [(rval, rex)]:
            pool |= {v for v in val.values() if not math.isnan(v)} | {v for v in ex.values() if not math.isnan(v)}
        rank = {v: i for i, v in enumerate(sorted(pool))}

        def rk(v):
            return -1 if math.isnan(v) else rank[v]
        params = [{"vary": bool(d["vary"]), "expr": d["expr"] is not None, "nonneg": bool(d["nonneg"]), "lo": rk(float(d["min"])), "hi": rk(float(d["max"])),
                   "init": rk(float(init[d["label"]])), "zero": rk(0.0)} for d in P]
        cols = {"labels": [idx.get(lab, 0) for lab in obs["free_labels"]],
                "jac": [[idx.get(lab, 0) for lab in c] for c in obs["jac_candidates"]],
                "cov": obs["cov_candidates"], "err": obs["err_candidates"]}
        if not judge_columns:      # C12 judges the values only: every column is compatible with every parameter
            nfree = len(cols["labels"])
            cols = {"labels": cols["labels"], "jac": [list(cols["labels"]) for _ in range(nfree)], "cov": [list(range(1, nfree + 1)) for _ in range(nfree)],
                    "err": [list(range(1, nfree + 1)) for _ in range(nfree)]}
        out.append({"kind": kind, "case": case["id"], "params": params,
                    "records": [{"val": [rk(val[lab]) for lab in labels], "ex": [rk(ex[lab]) for lab in labels]} for val, ex in recs],
                    "result": {"val": [rk(rval[lab]) for lab in labels], "ex": [rk(rex[lab]) for lab in labels], "cols": cols},
                    "floats": {"labels": labels, "records": [[val[lab] for lab in labels] for val, _ in recs], "expected": [[ex[lab] for lab in labels] for _, ex in recs],
                               "result": [rval[lab] for lab in labels], "result_expected": [rex[lab] for lab in labels]}})
    return out


def validate(traces: list[dict], timeout=1200):
    """returns (verdict per trace: 0 accepted / line of rejection, {tid: (line, clauses)}, TLC result)"""
    cfg = "\n".join(["SPECIFICATION TraceSpec", "CONSTANTS", "  GenRanks = {0}", "  GenLen = 1", "  GenMaxRec = 0",
                     "CONSTRAINT Progress", "POSTCONDITION Accepted", "CHECK_DEADLOCK FALSE",
                     "INVARIANT BoundsRespected", "INVARIANT FixedKept", "INVARIANT NeverHandedOver", "INVARIANT OrderConsistent"]) + "\n"
    slim = [{k: t[k] for k in ("params", "records", "result")} for t in traces]
    with tempfile.TemporaryDirectory(prefix="verif_c11t_") as td:
        f = Path(td) / "traces.json"
        f.write_text(json.dumps({"traces": slim}))
        res = run_tlc("FitTrace", cfg, workers=1, timeout=timeout, env={"TRACE_FILE": str(f)}, coverage=False, allow_violation=True)
    out = res["stdout"]
    if res["violated"]:
        raise MachineryError(f"FitTrace: invariant {res['violated']} violated on an accepted prefix (acceptor and invariants disagree)\n" + out[-1500:])
    m = re.search(r'<<\s*"VERDICT",\s*<<(.*?)>>\s*>>', out, re.S)
    if not m:
        raise MachineryError("FitTrace: no VERDICT line\n" + out[-2000:])
    body = m.group(1).strip()
    verdict = [int(x) for x in body.split(",")] if body else []
    if len(verdict) != len(traces):
        raise MachineryError("FitTrace: verdict length mismatch")
    rej = {}
    for rm in re.finditer(r'<<\s*"REJECT",\s*(\d+),\s*(\d+),\s*"((?:[^"\\]|\\.)*)"\s*>>', out, re.S):
        rej[int(rm.group(1))] = (int(rm.group(2)), json.loads(json.loads('"' + rm.group(3).replace("\n", "") + '"')))
    return verdict, rej, res


# ------------------------------------------------------------------------- reporting
def _describe(case):
    return [[d["label"], d["role"], d["value"]] + ([text(d["expr"])] if d["expr"] is not None else []) +
            ([f"[{d['min']}, {d['max']}]"] if (d["min"] != -INF or d["max"] != INF) else []) for d in case["params"]]


def shape_key(case) -> str:
    """stable identification of the input: roles in declaration order, method, label style (not the random numbers)"""
    def one(d):
        s = d["role"]
        if d["expr"] is not None:
            s += "->" + ",".join(sorted(set(refs(d["expr"]))))
        return f"{d['label']}:{s}"
    return f"method={case['method']} params=[{' '.join(one(d) for d in case['params'])}]"


def check_cases(chk: Check, cases: list[dict], prop: str, nontriv_rule, judge_columns: bool = True) -> dict:
    """run the fits, validate all traces in one TLC run, report"""
    traces, owners, stats = [], [], {"fits": 0, "failed_fits": 0, "records": 0}
    for case in cases:
        obs = run_fit(case)
        chk.evaluations += 1
        rep = {"engine": "fit", "prop": prop, "case": case}
        if obs["error"] is not None or not obs.get("success", False):
            stats["failed_fits"] += 1
            handle_failed_fit(chk, case, obs, prop, rep)
            continue
        stats["fits"] += 1
        # definitions kept (label -> expression text / vary / non-negative / bounds) -- compared directly, they are discrete
        for d in case["params"]:
            got = obs["definitions"].get(d["label"])
            want = [text(d["expr"]) if d["expr"] is not None else None, bool(d["vary"]) and d["expr"] is None, bool(d["nonneg"]), float(d["min"]), float(d["max"])]
            if got != want:
                chk.violation(f"Fit[{prop}]: definition changed {shape_key(case)} parameter={d['label']}",
                              f"after the fit parameter {d['label']} is defined as (expression, vary, non_negative, min, max) = {got}, declared {want}", rep)
        ts = build_traces(case, obs, judge_columns)
        for t in ts:
            traces.append(t)
            owners.append((case, obs))
        if nontriv_rule(case):
            chk.nontriv(("fit", prop, case["id"], shape_key(case)))
    if not traces:
        if chk.violations:      # the failures are already reported as violations: do not turn the verdict into a machinery failure
            return stats
        raise MachineryError(f"Fit[{prop}]: no fit produced a trace ({stats})")
    verdict, rej, res = validate(traces)
    chk.add_tlc(res, f"FitTrace[{prop}, {len(traces)} traces]")
    for i, v in enumerate(verdict):
        t = traces[i]
        case, obs = owners[i]
        chk.traces += 1
        stats["records"] += len(t["records"])
        if v == 0:
            continue
        line, clauses = rej.get(i + 1, (v, []))
        fl = t["floats"]
        where = "result" if line > len(t["records"]) else f"record {line - 1} of {len(t['records'])}"
        vals = fl["result"] if line > len(t["records"]) else fl["records"][line - 1]
        exp = fl["result_expected"] if line > len(t["records"]) else fl["expected"][line - 1]
        names = sorted({c[0] for c in clauses})
        detail = "; ".join(f"{c[0]}" + (f" [{fl['labels'][c[1] - 1]}]" if c[1] and c[0].split()[0] in ("free", "fixed", "expression") else (f" [column {c[1]}]" if c[1] else "")) for c in clauses)
        extra = ""
        if line > len(t["records"]):
            extra = (f" free_parameter_labels={obs['free_labels']} jacobian-column candidates={obs['jac_candidates']} covariance candidates={obs['cov_candidates']} "
                     f"standard-error candidates={obs['err_candidates']}")
        if prop == "C12":
            head = f"ParamExpr: {'forward-expr-ref' if forward_expr_ref(case) else 'no-forward-ref'} fit/{t['kind']}: "
        else:
            head = f"Fit[{prop}/{t['kind']}]: "
        chk.violation(f"{head}{'|'.join(names) or 'not a step'} {shape_key(case)}",
                      f"{t['kind']} trace of fit #{case['id']} rejected by FitTrace.tla at {where}: {detail}. values {dict(zip(fl['labels'], vals))}"
                      f"{' expressions on these values ' + str({lab: e for lab, e, d in zip(fl['labels'], exp, case['params']) if d['expr'] is not None}) if any(d['expr'] is not None for d in case['params']) else ''}"
                      f" parameters (declaration order) {_describe(case)}{extra}", {"engine": "fit", "prop": prop, "case": case})
    if traces:
        t = traces[len(traces) // 2]
        case = owners[len(traces) // 2][0]
        chk.sample({"fit": shape_key(case), "trace_kind": t["kind"], "records": len(t["records"]), "first_records_rank_encoded": t["records"][:3],
                    "params_rank_encoded": t["params"], "result_columns": t["result"]["cols"]})
    return stats


def handle_failed_fit(chk: Check, case, obs, prop, rep):
    """a fit that does not run is outside 'all optimisations' only if the input was outside the premise"""
    err = obs.get("error") or "success=False"
    if obs.get("construction_failed"):
        head = (f"ParamExpr: {'forward-expr-ref' if forward_expr_ref(case) else 'no-forward-ref'} fit: " if prop == "C12" else f"Fit[{prop}]: ")
        chk.violation(f"{head}constructing the parameters raised {err.split(':')[0]} {shape_key(case)}",
                      f"Parameters.from_{'dict' if case['nested'] else 'list'} raised {err} for the valid declaration {_describe(case)}", rep)
        return
    b = obs.get("bounds_handed_over")
    if b is not None:
        bad = [lab for lab, lo, hi in zip(b["labels"], b["lower"], b["upper"]) if math.isnan(lo) or math.isnan(hi)]
        if bad:
            d = {x["label"]: x for x in case["params"]}
            roles = sorted({d[lab]["role"] for lab in bad if lab in d})
            chk.violation(f"Fit[{prop}]: NaN bound handed to the optimiser roles={roles}",
                          f"get_label_value_and_bounds_arrays(exclude_non_vary=True) returns a NaN bound for {bad} "
                          f"(non-negative parameter with a negative minimum: log(minimum)); the optimisation fails with {err!r}. "
                          f"lower={b['lower']} upper={b['upper']} parameters {_describe(case)}", rep)
            return
    d = {x["label"]: x for x in case["params"]}
    if b is not None and ("infeasible" in err or "bound" in err.lower()):
        # the start value is inside [minimum, maximum] by construction of the case: the optimiser was handed inconsistent bounds / start vector
        off = [lab for lab, x, lo, hi in zip(b["labels"], b["x"], b["lower"], b["upper"]) if not (lo <= x <= hi and lo < hi)]
        roles = sorted({d[lab]["role"] for lab in off if lab in d}) or sorted({x["role"] for x in case["params"]})
        chk.violation(f"Fit[{prop}]: start vector / bounds handed to the optimiser are inconsistent roles={roles}",
                      f"optimisation fails with {err!r} although every start value lies inside [minimum, maximum]: labels={b['labels']} x={b['x']} "
                      f"lower={b['lower']} upper={b['upper']} parameters {_describe(case)}", rep)
        return
    chk.skip(f"Fit[{prop}]: optimisation did not produce a result ({err[:80]})")


# ------------------------------------------------------------------------- entry points used by c11.py / c12.py
def run_c11_fits(chk: Check, tier: str):
    rng = np.random.default_rng(seed() + 11)
    n = 30 if tier == "quick" else 300
    cases = [gen_case(rng, i, "c11") for i in range(n)]

    def nontriv(case):
        ps = case["params"]
        return (any((not d["vary"]) or d["expr"] is not None for d in ps)
                and any(d["vary"] and d["expr"] is None and (d["nonneg"] or d["min"] != -INF or d["max"] != INF) for d in ps))
    stats = check_cases(chk, cases, "C11", nontriv)
    chk.extra["fits"] = stats
    selftest(chk, cases[:6], "C11")


def run_expression_fits(chk: Check, tier: str):
    rng = np.random.default_rng(seed() + 12)
    n = 16 if tier == "quick" else 120
    cases = [gen_case(rng, i, "c12") for i in range(n)]
    stats = check_cases(chk, cases, "C12", forward_expr_ref, judge_columns=False)
    chk.extra["expression_fits"] = stats


def selftest(chk: Check, cases, prop):
    """binding self-test: corrupt one field of recorded traces; every corruption must be rejected"""
    traces = []
    for case in cases:
        obs = run_fit(case)
        if obs["error"] is None and obs.get("success"):
            traces += [t for t in build_traces(case, obs) if t["kind"] == "history"]
    if not traces:
        if chk.violations:
            return
        raise MachineryError("FitTrace self-test: no trace")
    bad = []
    for t in traces:
        t = json.loads(json.dumps({k: t[k] for k in ("params", "records", "result")}))
        free = [i for i, p in enumerate(t["params"]) if p["vary"] and not p["expr"]]
        fixed = [i for i, p in enumerate(t["params"]) if not p["vary"] and not p["expr"]]
        if fixed and len(t["records"]) > 2:
            t["records"][2]["val"][fixed[0]] += 1                       # a fixed parameter moved
        elif len(free) >= 2:
            t["result"]["cols"]["jac"][0], t["result"]["cols"]["jac"][1] = t["result"]["cols"]["jac"][1], t["result"]["cols"]["jac"][0]   # columns swapped
        else:
            t["records"][-1]["val"][free[0]] = t["params"][free[0]]["hi"] + 1 if t["params"][free[0]]["hi"] < 10**6 else -5   # out of bounds
            if t["params"][free[0]]["lo"] == 0 and t["records"][-1]["val"][free[0]] == -5:
                t["result"]["cols"]["labels"] = []
        bad.append(t)
    verdict, _, _ = validate([dict(t, kind="selftest", floats={}) for t in bad])
    if any(v == 0 for v in verdict):
        raise MachineryError(f"binding self-test failed: a corrupted fit trace was accepted ({verdict})")
    chk.extra["trace_binding_selftest"] = f"{len(bad)} corrupted fit traces rejected"


def replay(chk: Check, r):
    check_cases(chk, [r["case"]], r.get("prop", "C11"), lambda c: True, judge_columns=r.get("prop", "C11") == "C11")
