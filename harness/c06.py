"""C06 — labelled outputs follow their labels: declaration order and composition.

(a) spec/Labels.tla: the combination of megacomplex matrices as a function label -> column, with equivariance /
    shared-add / distinct-separate / mixed-dimension invariants checked exhaustively by TLC; every case replayed on
    MatrixProvider.calculate_dataset_matrix with lattice megacomplexes.
(b) spec/LabelPerms.tla enumerates declaration-order permutations for the builtin types (with/without IRF, partner
    megacomplexes, reversed megacomplex list); the real model is built in identity and permuted order and every
    labelled output is compared BY LABEL; the objective must be unchanged.
(c) anchoring of label -> quantity for decay-parallel (column of compartment s_i is exp(-k_i t)).
"""
from __future__ import annotations

import json
import random
import warnings

from .core import Check, MachineryError, seed
from .tlc import printed_json, require_actions, run_tlc

LABELLED_PREFIXES = ["a_matrix", "k_matrix", "decay_associated_spectra", "species_associated_spectra", "irf", "pfid_", "damped_oscillation_"]
LABELLED_VARS = ["matrix", "clp", "fitted_data", "residual", "species_concentration", "species_associated_spectra", "species_spectra",
                 "species_associated_concentrations", "damped_oscillation_cos", "damped_oscillation_sin", "damped_oscillation_associated_spectra",
                 "damped_oscillation_phase", "pfid_cos", "pfid_sin", "pfid_associated_spectra", "pfid_phase", "baseline",
                 "decay_associated_spectra", "initial_concentration"]


def lattice_part(chk: Check, tier):
    import numpy as np
    from glotaran.model.item import fill_item
    from glotaran.optimization.matrix_provider import MatrixProvider
    from .lattice import build
    maxmc, seqs = (3, "QuickLabelSeqs") if tier == "quick" else (3, "FullLabelSeqs")
    cfg = f"SPECIFICATION Spec\nCONSTANTS\n  MaxMc = {maxmc}\n  LabelSeqs <- {seqs}\n  NGlobal = 2\n  NModel = 2\nCHECK_DEADLOCK FALSE\n"
    res = run_tlc("Labels", cfg + "INVARIANT Equivariant\nINVARIANT SharedAdd\nINVARIANT DistinctSeparate\nINVARIANT MixedDims\n", workers=8, timeout=3000)
    require_actions(res, ["AddMc", "Finish"])
    chk.add_tlc(res, f"Labels[{seqs}]")
    em = run_tlc("LabelsEmit", cfg + "CONSTRAINT Emit\n", workers=1, timeout=3000, coverage=False)
    cases = printed_json(em["stdout"], "CASE")
    if not cases:
        raise MachineryError("LabelsEmit: no cases")
    for ci, c in enumerate(cases):
        mcs = []
        for m in c["mcs"]:
            cols = m["cols"] if m["idx"] else m["cols"][0]
            mcs.append({"scale": m["scale"], "labels": m["labels"], "idx": m["idx"], "cols": cols})
        case = {"groups": [{"label": "default", "link": False}],
                "datasets": [{"label": "d1", "group": "default", "axis": [0, 1], "data": [[0, 0], [0, 0]], "scale": 1, "weight": [], "mcs": mcs}],
                "relations": [], "constraints": [], "penalties": [], "weights": []}
        scheme = build(case)
        dm = fill_item(scheme.model.dataset["d1"], scheme.model, scheme.parameters)
        cont = MatrixProvider.calculate_dataset_matrix(dm, np.array([0.0, 1.0]), np.array([0.0, 1.0]))
        chk.evaluations += 1
        chk.traces += 1
        key_shape = f"mcs={[(m['labels'], m['idx'], m['scale']) for m in c['mcs']]}"
        rep = {"engine": "c06-lattice", "case": c}
        labels = list(cont.clp_labels)
        want = c["combined"]
        if sorted(labels) != sorted(want) or len(set(labels)) != len(labels):
            chk.violation(f"Labels[combine labels]: n={len(c['mcs'])} idxdep={c['idxdep']}", f"combined labels {labels}, specification {sorted(want)}; {key_shape}", rep)
            continue
        M = cont.matrix
        if c["idxdep"] != (M.ndim == 3):
            chk.violation(f"Labels[combine dims]: n={len(c['mcs'])} idxdep={c['idxdep']}", f"matrix ndim {M.ndim} but index dependence is {c['idxdep']}; {key_shape}", rep)
            continue
        for j, l in enumerate(labels):
            for g in range(2):
                col = (M[g, :, j] if M.ndim == 3 else M[:, j]).tolist()
                if col != [float(v) for v in want[l][g]]:
                    chk.violation(f"Labels[combine column]: n={len(c['mcs'])} idxdep={c['idxdep']}",
                                  f"column under label {l!r} at index {g} is {col}, specification {want[l][g]}; {key_shape}", rep)
                    break
        if len(c["mcs"]) >= 2 and len(want) >= 2:
            chk.nontriv(ci)
    chk.sample({"mcs": [{k: m[k] for k in ("labels", "idx", "scale")} for m in cases[len(cases) // 2]["mcs"]], "combined": cases[len(cases) // 2]["combined"]})


# ---------------------------------------------------------------------------------------------- builtin permutations
def shared_shape_check(chk: Check, pick, M, coords):
    """Spectral megacomplex in which the first and the third compartment share ONE shape item (compartments that share a shape need not be
    declared next to each other).  Identical columns cannot be fitted, so this is judged on the matrix alone: the column under each label
    is the same in the identity and in the permuted declaration order, and equals the column of a megacomplex with that compartment only."""
    import numpy as np
    from glotaran.model.item import fill_item
    from glotaran.optimization.matrix_provider import MatrixProvider
    from glotaran.parameter import Parameters
    n = pick["n"]
    if pick["type"] != "spectral" or n < 3 or pick["partner"] != "baseline" or pick.get("two"):
        return
    cols = {}
    for permuted in (False, True):
        md, par = builtin_model(pick, permuted)
        shp = md["megacomplex"]["m_main"]["shape"]
        md["megacomplex"]["m_main"]["shape"] = {k: ("sh1" if k == "s3" else v) for k, v in shp.items()}
        model, params = M(**md), Parameters.from_dict(par)
        cont = MatrixProvider.calculate_dataset_matrix(fill_item(model.dataset["ds"], model, params), coords["time"], coords["spectral"])
        mat = np.asarray(cont.matrix)
        cols[permuted] = {l: (mat[..., j] if mat.ndim == 2 else mat[0][..., j]) for j, l in enumerate(cont.clp_labels)}
    chk.evaluations += 1
    key = "LabelPerms[spectral]: shape shared by non-adjacent compartments"
    rep = {"engine": "c06-builtin", "pick": pick}
    if set(cols[False]) != set(cols[True]):
        chk.violation(key + " labels", f"perm={pick['perm']}: labels {sorted(cols[True])} vs {sorted(cols[False])}", rep)
        return
    for l in cols[False]:
        if not np.allclose(cols[False][l], cols[True][l], rtol=1e-12, atol=0):
            chk.violation(key + " column", f"perm={pick['perm']} revmc={pick['revmc']}: the column under {l!r} depends on the declaration order", rep)
            return
    if not np.allclose(cols[False]["s1"], cols[False]["s3"], rtol=1e-12, atol=0) or np.allclose(cols[False]["s1"], cols[False]["s2"], rtol=1e-6, atol=0):
        chk.violation(key + " sharing", f"perm={pick['perm']}: s1 and s3 share a shape and must have equal columns, s2 has another shape", rep)


def builtin_model(pick, permuted: bool):
    """-> (model_dict, params_dict, model_dim, label_coords) for identity (permuted=False) or permuted declaration order."""
    n = pick["n"]
    perm = [p - 1 for p in pick["perm"]] if permuted else list(range(n))
    t = pick["type"]
    par = {}
    md = {"megacomplex": {}, "dataset": {"ds": {"megacomplex": []}}}
    main = "m_main"
    if t == "decay-parallel":
        comps = [f"s{i + 1}" for i in range(n)]
        par["k"] = [[str(i + 1), 0.2 * (i + 1)] for i in range(n)]
        md["megacomplex"][main] = {"type": "decay-parallel", "compartments": [comps[i] for i in perm], "rates": [f"k.{i + 1}" for i in perm]}
    elif t == "decay":
        comps = [f"s{i + 1}" for i in range(n)]
        par["k"] = [[str(i + 1), 0.2 * (i + 1)] for i in range(n)] + [["t", 0.35]]
        par["j"] = [[str(i + 1), [1.0, 0.5, 0.25, 0.125][i], {"vary": False}] for i in range(n)]
        entries = [((comps[i], comps[i]), f"k.{i + 1}") for i in range(n)] + [((comps[1], comps[0]), "k.t")]
        if permuted:
            entries = entries[::-1]
        md["k_matrix"] = {"km": {"matrix": dict(entries)}}
        md["initial_concentration"] = {"j": {"compartments": [comps[i] for i in perm], "parameters": [f"j.{i + 1}" for i in perm]}}
        md["megacomplex"][main] = {"type": "decay", "k_matrix": ["km"]}
        md["dataset"]["ds"]["initial_concentration"] = "j"
    elif t in ("damped-oscillation", "pfid"):
        labs = [f"osc{i + 1}" for i in range(n)]
        sign = -1.0 if t == "pfid" else 1.0          # PFID models the anti-causal signal: dephasing rates are negative
        f0, df = (590.0, 17.0) if t == "pfid" else (4.0, 5.0)
        # damping rates of either sign where supported: with a Gaussian IRF the damped oscillation takes negative rates too;
        # the FIRST declared oscillation gets the negative one (negative before non-negative in declaration order)
        def rate(i):
            if t == "damped-oscillation" and pick["irf"] and i == 0 and n >= 2:
                return -0.05
            return sign * 0.1 * (i + 1)
        par["osc"] = [[f"f{i + 1}", f0 + df * i] for i in range(n)] + [[f"r{i + 1}", rate(i)] for i in range(n)]
        md["megacomplex"][main] = {"type": t, "labels": [labs[i] for i in perm], "frequencies": [f"osc.f{i + 1}" for i in perm], "rates": [f"osc.r{i + 1}" for i in perm]}
    elif t == "spectral":
        par["shp"] = []
        shapes = {}
        order = [f"s{i + 1}" for i in range(n)]
        for i in range(n):
            par["shp"] += [[f"a{i + 1}", 1.0 + i], [f"l{i + 1}", 600.0 + 15 * i], [f"w{i + 1}", 20.0 + 5 * i]]
            shapes[f"sh{i + 1}"] = {"type": "gaussian", "amplitude": f"shp.a{i + 1}", "location": f"shp.l{i + 1}", "width": f"shp.w{i + 1}"}
        md["shape"] = shapes
        md["megacomplex"][main] = {"type": "spectral", "shape": {order[i]: f"sh{i + 1}" for i in perm}}
    mlist = [main]
    if pick["partner"] == "baseline":
        md["megacomplex"]["m_base"] = {"type": "baseline", "dimension": "spectral" if t == "spectral" else "time"}
        mlist.append("m_base")
    elif pick["partner"] == "shared":
        if t == "spectral":
            par["shp"] += [["ax", 0.7], ["lx", 640.0], ["wx", 12.0]]
            md["shape"]["shx"] = {"type": "gaussian", "amplitude": "shp.ax", "location": "shp.lx", "width": "shp.wx"}
            md["megacomplex"]["m_second"] = {"type": "spectral", "shape": {"s1": "shx", "extra": "shx"}}
        else:
            par["k2"] = [["1", 0.9], ["2", 0.05]]
            # for the general decay the species of a dataset are those of its initial concentration: share two of them
            second = ["s1", "s2"] if t == "decay" else (["s1", "extra2"] if t == "decay-parallel" else ["extra1", "extra2"])
            md["megacomplex"]["m_second"] = {"type": "decay-parallel", "compartments": second, "rates": ["k2.1", "k2.2"]}
        mlist.append("m_second")
        par["ms"] = [["1", 1.0, {"vary": False}], ["2", 3.0, {"vary": False}]]
    if pick.get("two"):
        # second dataset: its own megacomplex with the labels declared in the permuted order (identity in the reference model)
        import copy
        perm2 = [p - 1 for p in pick["perm"]] if permuted else list(range(n))
        m2 = copy.deepcopy(md["megacomplex"][main])
        if t == "decay-parallel":
            m2["compartments"] = [comps[i] for i in perm2]
            m2["rates"] = [f"k.{i + 1}" for i in perm2]
        elif t in ("damped-oscillation", "pfid"):
            m2["labels"] = [labs[i] for i in perm2]
            m2["frequencies"] = [f"osc.f{i + 1}" for i in perm2]
            m2["rates"] = [f"osc.r{i + 1}" for i in perm2]
        # first dataset always identity
        if t == "decay-parallel":
            md["megacomplex"][main] = {"type": "decay-parallel", "compartments": comps, "rates": [f"k.{i + 1}" for i in range(n)]}
        elif t in ("damped-oscillation", "pfid"):
            md["megacomplex"][main] = {"type": t, "labels": labs, "frequencies": [f"osc.f{i + 1}" for i in range(n)], "rates": [f"osc.r{i + 1}" for i in range(n)]}
        md["megacomplex"]["m_main2"] = m2
        md["dataset"]["ds2"] = {"megacomplex": ["m_main2"]}
        if t == "decay":
            md["initial_concentration"]["j2"] = {"compartments": [comps[i] for i in perm2], "parameters": [f"j.{i + 1}" for i in perm2]}
            md["initial_concentration"]["j"] = {"compartments": comps, "parameters": [f"j.{i + 1}" for i in range(n)]}
            md["dataset"]["ds2"]["megacomplex"] = [main]
            md["dataset"]["ds2"]["initial_concentration"] = "j2"
            del md["megacomplex"]["m_main2"]
        md["dataset_groups"] = {"default": {"link_clp": True}}
    scales = ["ms.1", "ms.2"][: len(mlist)]
    if permuted and pick["revmc"]:
        mlist = mlist[::-1]
        scales = scales[::-1]
    md["dataset"]["ds"]["megacomplex"] = mlist
    if pick["partner"] == "shared":
        md["dataset"]["ds"]["megacomplex_scale"] = scales
    if pick["irf"] and t != "spectral":
        md["irf"] = {"irf1": {"type": "gaussian", "center": "irf.c", "width": "irf.w"}}
        par["irf"] = [["c", 0.5], ["w", 0.2]]
        for dsl in md["dataset"]:
            md["dataset"][dsl]["irf"] = "irf1"
    return md, par


def compare_builtin(chk: Check, pick):
    import numpy as np
    import xarray as xr
    from glotaran.builtin.megacomplexes.baseline import BaselineMegacomplex
    from glotaran.builtin.megacomplexes.damped_oscillation import DampedOscillationMegacomplex
    from glotaran.builtin.megacomplexes.decay import DecayMegacomplex, DecayParallelMegacomplex
    from glotaran.builtin.megacomplexes.pfid import PFIDMegacomplex
    from glotaran.builtin.megacomplexes.spectral import SpectralMegacomplex
    from glotaran.model import Model
    from glotaran.model.item import fill_item
    from glotaran.optimization.matrix_provider import MatrixProvider
    from glotaran.optimization.optimize import optimize
    from glotaran.parameter import Parameters
    from glotaran.project import Scheme
    from glotaran.simulation import simulate
    M = Model.create_class_from_megacomplexes([DecayMegacomplex, DecayParallelMegacomplex, BaselineMegacomplex, DampedOscillationMegacomplex, PFIDMegacomplex, SpectralMegacomplex])
    t = pick["type"]
    key = f"LabelPerms[{t}]: irf={pick['irf']} partner={pick['partner']}" + (" two-linked-datasets" if pick.get("two") else "")
    desc = f"{t} n={pick['n']} perm={pick['perm']} irf={pick['irf']} partner={pick['partner']} revmc={pick['revmc']} two={pick.get('two', False)}"
    rep = {"engine": "c06-builtin", "pick": pick}
    chk.evaluations += 1
    time = np.round(np.arange(-0.5 if pick["irf"] else 0.0, 5.0, 0.25), 10)
    if t == "pfid":
        time = np.round(np.arange(-6.0, 1.5, 0.25), 10)       # the perturbed free induction decay lives before the pulse
    spectral = np.array([600.0, 620.0, 640.0])
    if t == "spectral":
        coords = {"spectral": np.round(np.arange(580.0, 680.0, 4.0), 10), "time": np.array([0.0, 1.0, 2.0])}     # 25 x 3 points: degrees of freedom stay positive for 4 shapes + partner (D11)
        gdim = "time"
    else:
        coords = {"time": time, "spectral": spectral}
        gdim = "spectral"
    results = []
    with warnings.catch_warnings():
        warnings.simplefilter("ignore")
        try:
            shared_shape_check(chk, pick, M, coords)
            md0, par0 = builtin_model(pick, False)
            model0, params0 = M(**md0), Parameters.from_dict(par0)
            mdim = "spectral" if t == "spectral" else "time"
            dm = fill_item(model0.dataset["ds"], model0, params0)
            labs = MatrixProvider.calculate_dataset_matrix(dm, coords[gdim], coords[mdim]).clp_labels
            rs = np.random.RandomState(17)
            clp = xr.DataArray(0.5 + rs.random_sample((coords[gdim].size, len(labs))), coords=[(gdim, coords[gdim]), ("clp_label", labs)])
            datasets = {"ds": simulate(model0, "ds", params0, coords, clp, noise=True, noise_std_dev=0.01, noise_seed=3)}
            if pick.get("two"):
                datasets["ds2"] = simulate(model0, "ds2", params0, coords, clp * 0.5 + 0.1, noise=True, noise_std_dev=0.01, noise_seed=4)
            for permuted in (False, True):
                md, par = builtin_model(pick, permuted)
                model, params = M(**md), Parameters.from_dict(par)
                scheme = Scheme(model=model, parameters=params, data=datasets, maximum_number_function_evaluations=1)
                results.append(optimize(scheme, verbose=False, raise_exception=True))
        except Exception as ex:  # noqa: BLE001
            chk.violation(key + f" raises {type(ex).__name__}", f"{desc}: {type(ex).__name__}: {str(ex)[:300]}", rep)
            return
    a, b = results
    chk.traces += 1
    if not (abs(a.cost - b.cost) <= 1e-9 * max(1e-300, abs(a.cost))):      # NaN-safe
        chk.violation(key + " objective", f"{desc}: objective changes under permutation of the declaration order: cost {a.cost!r} vs {b.cost!r}", rep)
    for dslabel in a.data:
      da, db = a.data[dslabel], b.data[dslabel]
      # every result variable whose name starts with one of the labelled families (several megacomplexes of one type in a dataset give
      # suffixed names such as decay_associated_spectra_<megacomplex label>)
      all_vars = sorted({v for v in list(da.data_vars) + list(db.data_vars) if any(str(v).startswith(p) for p in LABELLED_VARS + LABELLED_PREFIXES)})
      for var in all_vars:
          if (var in da) != (var in db):
              chk.violation(key + f" {var} presence", f"{desc}: variable {var} present in only one of the two results", rep)
              continue
          if var not in da:
              continue
          x, y = da[var], db[var]
          # decay components carry no user label: their identity is their rate (the component index is the position in the eigen
          # decomposition, which depends on the declaration order).  They are matched by rate.
          for dim in list(x.dims):
              rc = "rate" + str(dim)[len("component"):] if str(dim).startswith("component") else None
              if rc and rc in x.coords and rc in y.coords and dim in y.dims:
                  x = x.sortby(rc).assign_coords({dim: np.arange(x.sizes[dim])})
                  y = y.sortby(rc).assign_coords({dim: np.arange(y.sizes[dim])})
          try:
              y2 = y.reindex_like(x)      # reorders every labelled coordinate by label
          except Exception as ex:  # noqa: BLE001
              chk.violation(key + f" {var} labels", f"{desc}: {var}: cannot align by label: {ex}", rep)
              continue
          if x.shape != y2.shape or not np.allclose(x.values, y2.values, rtol=1e-9, atol=1e-10, equal_nan=False):
              diff = float(np.nanmax(np.abs(x.values - y2.values))) if x.shape == y2.shape else float("nan")
              chk.violation(key + f" {var}", f"{desc}: {var} selected by label differs between identity and permuted declaration order (max diff {diff})", rep)
    chk.nontriv(json.dumps(pick, sort_keys=True))


def anchor_parallel(chk: Check):
    """decay-parallel without IRF: the column reported under compartment s_i is exp(-k_i t), for every declaration order."""
    import itertools
    import numpy as np
    from glotaran.builtin.megacomplexes.decay import DecayParallelMegacomplex
    from glotaran.model import Model
    from glotaran.model.item import fill_item
    from glotaran.optimization.matrix_provider import MatrixProvider
    from glotaran.parameter import Parameters
    M = Model.create_class_from_megacomplexes([DecayParallelMegacomplex])
    rates = {"s1": 0.3, "s2": 1.1, "s3": 0.05}
    t = np.array([0.0, 0.25, 0.5, 1.0, 2.0, 5.0])
    for order in itertools.permutations(["s1", "s2", "s3"]):
        model = M(megacomplex={"m": {"type": "decay-parallel", "compartments": list(order), "rates": [f"k.{c}" for c in order]}}, dataset={"ds": {"megacomplex": ["m"]}})
        params = Parameters.from_dict({"k": [[c, r] for c, r in rates.items()]})
        cont = MatrixProvider.calculate_dataset_matrix(fill_item(model.dataset["ds"], model, params), np.array([0.0]), t)
        chk.evaluations += 1
        for c in order:
            col = cont.matrix[:, cont.clp_labels.index(c)]
            if not np.allclose(col, np.exp(-rates[c] * t) / len(order), rtol=1e-12):      # unit total population, shared equally (normalised)
                chk.violation("LabelPerms[anchor decay-parallel]: column of compartment", f"order {order}: column under {c} is not exp(-{rates[c]} t)/3: {col.tolist()}", {"engine": "c06-anchor"})


def anchor_split_decay(chk: Check):
    """Two general-decay megacomplexes of one dataset on disjoint compartments (m1 on s1; m2 on the chain s2 -> s3), one dataset-wide
    initial concentration with unequal excitations: for every declaration order of the initial-concentration compartments and both orders of
    the megacomplex list, the column under a compartment is the analytic concentration of THAT compartment (its own excitation)."""
    import itertools
    import numpy as np
    from glotaran.builtin.megacomplexes.decay import DecayMegacomplex
    from glotaran.model import Model
    from glotaran.model.item import fill_item
    from glotaran.optimization.matrix_provider import MatrixProvider
    from glotaran.parameter import Parameters
    M = Model.create_class_from_megacomplexes([DecayMegacomplex])
    j = {"s1": 1.0, "s2": 3.0, "s3": 0.5}
    k1, k2, k3, k23 = 0.9, 0.25, 0.06, 0.4
    params = Parameters.from_dict({"j": [[c, v, {"vary": False}] for c, v in j.items()], "k": [["1", k1], ["2", k2], ["3", k3], ["23", k23]]})
    t = np.array([0.0, 0.25, 0.5, 1.0, 2.0, 5.0, 9.0])
    tot = sum(j.values())
    out2 = k2 + k23                                  # total loss rate of s2
    want = {"s1": j["s1"] / tot * np.exp(-k1 * t),
            "s2": j["s2"] / tot * np.exp(-out2 * t),
            "s3": j["s3"] / tot * np.exp(-k3 * t) + j["s2"] / tot * k23 / (out2 - k3) * (np.exp(-k3 * t) - np.exp(-out2 * t))}
    for order in itertools.permutations(["s1", "s2", "s3"]):
        for mcs in (["m1", "m2"], ["m2", "m1"]):
            rep = {"engine": "c06-anchor-split"}
            chk.evaluations += 1
            try:
                model = M(initial_concentration={"j": {"compartments": list(order), "parameters": [f"j.{c}" for c in order]}},
                          k_matrix={"km1": {"matrix": {("s1", "s1"): "k.1"}},
                                    "km2": {"matrix": {("s3", "s2"): "k.23", ("s2", "s2"): "k.2", ("s3", "s3"): "k.3"}}},
                          megacomplex={"m1": {"type": "decay", "k_matrix": ["km1"]}, "m2": {"type": "decay", "k_matrix": ["km2"]}},
                          dataset={"ds": {"initial_concentration": "j", "megacomplex": mcs}})
                cont = MatrixProvider.calculate_dataset_matrix(fill_item(model.dataset["ds"], model, params), np.array([0.0]), t)
            except Exception as ex:  # noqa: BLE001
                chk.violation("LabelPerms[anchor split decay] raises", f"compartment order {order}, megacomplexes {mcs}: {type(ex).__name__}: {str(ex)[:200]}", rep)
                continue
            if sorted(cont.clp_labels) != ["s1", "s2", "s3"]:
                chk.violation("LabelPerms[anchor split decay]: labels", f"compartment order {order}, megacomplexes {mcs}: labels {cont.clp_labels}", rep)
                continue
            for c in order:
                col = cont.matrix[:, cont.clp_labels.index(c)]
                if not np.allclose(col, want[c], rtol=1e-9, atol=1e-12):
                    chk.violation("LabelPerms[anchor split decay]: column of compartment",
                                  f"compartment order {order}, megacomplexes {mcs}: the column under {c} is not the concentration of {c} "
                                  f"(excitation {j[c]}/{tot}): got {col.tolist()}, want {want[c].tolist()}", rep)
                    break


def run(tier: str, replay=None) -> int:
    chk = Check("C06", tier)
    rng = random.Random(seed() + 606)
    chk.rule = ("(a) all sequences of 1-3 lattice megacomplexes over label sequences of {a,b,c} x index dependence x scale (spec/Labels.tla); (b) all permutations of 2-3 (4 in thorough) "
                "declared labels for decay, decay-parallel, damped-oscillation, pfid, spectral x IRF x partner megacomplex x reversed megacomplex list (spec/LabelPerms.tla); "
                "non-trivial = >= 2 megacomplexes and >= 2 labels (a), every emitted permutation (b; identity permutations are not emitted)")
    chk.assumptions = ["the ORDER of merged labels is not part of the property; outputs are compared as functions of the label",
                       "decay-sequential declaration order is semantic (it defines the chain) and is therefore not permuted; it takes part through C04/C14",
                       "coherent-artifact and clp-guide declare no label list; their label naming is covered by C07/C14"]
    if replay:
        r = replay["replay"]
        if r["engine"] == "c06-builtin":
            compare_builtin(chk, r["pick"])
        elif r["engine"] == "c06-anchor":
            anchor_parallel(chk)
        elif r["engine"] == "c06-anchor-split":
            anchor_split_decay(chk)
        else:
            lattice_part(chk, tier)
        return chk.finish()
    lattice_part(chk, tier)
    maxl = 3 if tier == "quick" else 4
    cfg = ('SPECIFICATION Spec\nCONSTANTS\n  Types = {"decay", "decay-parallel", "damped-oscillation", "pfid", "spectral"}\n'
           f"  MaxLabels = {maxl}\nINVARIANT PermIsBijection\nCONSTRAINT Emit\nCHECK_DEADLOCK FALSE\n")
    res = run_tlc("LabelPerms", cfg, workers=1, timeout=1200)
    require_actions(res, ["ChooseType", "ChoosePerm", "ChooseContext"])
    chk.add_tlc(res, "LabelPerms")
    picks = printed_json(res["stdout"], "PERM")
    if len(picks) < 50:
        raise MachineryError(f"LabelPerms emitted only {len(picks)} permutations")
    chk.extra["builtin_permutations_total"] = len(picks)
    if tier == "quick":
        # every (type, irf, partner) cell at least twice
        cells = {}
        for p in picks:
            cells.setdefault((p["type"], p["irf"], p["partner"], p.get("two", False)), []).append(p)
        sel = []
        for lst in cells.values():
            sel += rng.sample(lst, min(2, len(lst)))
        chk.exhaustive = False
    else:
        sel = picks
    for p in sel:
        compare_builtin(chk, p)
    chk.sample({"builtin_permutation": sel[0]})
    anchor_parallel(chk)
    anchor_split_decay(chk)
    return chk.finish()
