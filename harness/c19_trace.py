"""code -> spec for C19: traces of the real registry code validated by spec/RegistryTrace.tla."""
from __future__ import annotations

import json
import re
import tempfile
from pathlib import Path

from .core import REPO, Check, MachineryError, seed
from .tlc import run_tlc
from .trace import py, pytest_cmd, record

REG_EVENTS = ("register", "set", "lookup")


def segments(events: list[dict]) -> list[dict]:
    """Split the event stream per registry object; start a new segment whenever the logged pre-state
    is not the previous post-state (registry replaced, mutated directly, or id reused)."""
    segs: dict = {}
    out = []
    for e in events:
        if e["ev"] not in REG_EVENTS:
            continue
        k = (e["pid"], e["reg"])
        cur = segs.get(k)
        if cur is None or cur["last_post"] != e["pre"]:
            cur = {"init": e["pre"], "events": [], "last_post": None}
            segs[k] = cur
            out.append(cur)
        ev = {"ev": e["ev"], "key": e["key"], "cls": e.get("cls", ""), "fmt": e.get("fmt", ""), "pfmt": e.get("pfmt", ""), "full": e.get("full", ""),
              "err": e["err"], "warned": bool(e.get("warned", False)), "ret": e.get("ret", ["none", ""]), "pre": e["pre"], "post": e["post"]}
        cur["events"].append(ev)
        cur["last_post"] = e["post"]
    return [{"init": s["init"], "events": s["events"]} for s in out]


def validate(traces: list[dict], timeout=1200) -> tuple[list[int], dict]:
    """Returns (verdict per trace: 0 accepted, else line at which it was rejected, TLC result)."""
    keys, classes, used_as_short = set(), set(), set()
    for t in traces:
        keys |= set(t["init"])
        for v in t["init"].values():
            classes.add(v[0])
        for e in t["events"]:
            keys |= set(e["pre"]) | set(e["post"]) | {e["key"]}
            for v in list(e["pre"].values()) + list(e["post"].values()):
                classes.add(v[0])
            if e["ev"] == "register":
                classes.add(e["cls"])
                keys.add(e["cls"] + ("_" + e["fmt"] if e["fmt"] else ""))
                keys.add(e["cls"])
            if e["ev"] == "set":
                keys.add(e["full"])
    short = sorted(k for k in keys if "." not in k)
    dotted = sorted(k for k in keys if "." in k)
    classes.discard("none")

    def s(xs):
        return "{" + ", ".join(json.dumps(x) for x in xs) + "}"

    cfg = "\n".join([
        "SPECIFICATION TraceSpec", "CONSTANTS", f"  ShortNames = {s(short)}", f"  DottedNames = {s(dotted)}",
        f"  Classes = {s(sorted(classes))}", "  InstanceMode = FALSE", "  MaxOps = 1000000", "  Keys <- TraceKeys",
        "CONSTRAINT Progress", "POSTCONDITION Accepted", "CHECK_DEADLOCK FALSE",
        "INVARIANT FirstWins", "INVARIANT FullNameReachable", "INVARIANT WarnOnlyOnRegister", "INVARIANT LookupFollowsRegistry",
        "PROPERTY TOnlySetRepoints", "PROPERTY TErrorsArePure",
    ]) + "\n"
    with tempfile.TemporaryDirectory(prefix="verif_c19t_") as td:
        f = Path(td) / "traces.json"
        f.write_text(json.dumps({"keys": sorted(keys), "traces": traces}))
        res = run_tlc("RegistryTrace", cfg, workers=1, timeout=timeout, env={"TRACE_FILE": str(f)}, coverage=False, allow_violation=True)
    m = re.search(r'<<\s*"VERDICT",\s*<<(.*?)>>\s*>>', res["stdout"], re.S)
    if res["violated"] and not m:
        # an invariant failed on a recorded execution: find which trace
        tm = re.findall(r"/\\ tid = (\d+)", res["stdout"])
        lm = re.findall(r"/\\ l = (\d+)", res["stdout"])
        res["inv_trace"] = (int(tm[-1]), int(lm[-1])) if tm and lm else None
        return [], res
    if not m:
        raise MachineryError("RegistryTrace: no VERDICT line\n" + res["stdout"][-2000:])
    body = m.group(1).strip()
    verdict = [int(x) for x in body.split(",")] if body else []
    if len(verdict) != len(traces):
        raise MachineryError("RegistryTrace: verdict length mismatch")
    return verdict, res


def collect(tier: str):
    n = 300 if tier == "quick" else 3000
    ev = record(py("-m", "harness.drivers_registry", str(seed()), str(n), "30"))
    sources = [("driver", ev)]
    tests = ["glotaran/plugin_system/test"]
    if tier == "thorough":
        tests += ["glotaran/builtin/io", "glotaran/project/test", "glotaran/testing/test"]
    ev2 = record(pytest_cmd(*tests), cwd=str(REPO), must_succeed=False)
    sources.append(("repo-tests", ev2))
    return sources


def run(chk: Check, tier: str, rng):
    sources = collect(tier)
    for name, events in sources:
        traces = [t for t in segments(events) if t["events"]]
        if not traces:
            raise MachineryError(f"C19 trace source {name} produced no registry events (hooks not active?)")
        check_traces(chk, name, traces)
    # binding self-test (cheap, every run): one corrupted field must be rejected
    traces = [t for t in segments(sources[0][1]) if len(t["events"]) >= 5][:20]
    bad = json.loads(json.dumps(traces))
    victim = next(e for t in bad for e in t["events"] if e["ev"] == "register" and not e["err"] and e["key"] in e["pre"] and e["pre"][e["key"]] != [e["cls"], e["fmt"]])
    victim["post"][victim["key"]] = [victim["cls"], victim["fmt"]]   # "later registration replaced the short key"
    verdict, res = validate(bad)
    if verdict and all(v == 0 for v in verdict):
        raise MachineryError("binding self-test failed: a corrupted registry trace was accepted")
    chk.extra["trace_binding_selftest"] = "corrupted trace rejected"


def check_traces(chk: Check, name: str, traces: list[dict]):
    verdict, res = validate(traces)
    chk.add_tlc(res, f"RegistryTrace[{name}]")
    chk.exhaustive = chk.exhaustive  # trace validation does not affect exhaustiveness of the model run
    if not verdict:
        tid, line = res.get("inv_trace") or (0, 0)
        t = traces[tid - 1] if tid else None
        chk.violation(f"RegistryTrace[{name}]: invariant {res['violated']}",
                      f"recorded execution violates {res['violated']} at event {line}: {json.dumps(t['events'][max(0, line - 2)] if t else None)[:600]}",
                      {"engine": "c19-trace", "traces": [t]})
        return
    for i, v in enumerate(verdict):
        t = traces[i]
        chk.traces += 1
        chk.evaluations += len(t["events"])
        if any(e["pre"] != e["post"] or e["err"] or e["warned"] for e in t["events"]):
            chk.nontriv(("trace", name, i))
        if v != 0:
            e = t["events"][v - 1]
            small = {k: e[k] for k in ("ev", "key", "cls", "fmt", "full", "err", "warned", "ret")}
            chk.violation(f"RegistryTrace[{name}]: {json.dumps(small, sort_keys=True)} pre={json.dumps(e['pre'], sort_keys=True)}",
                          f"recorded step is not a step of Registry.tla (trace {i}, event {v}): {json.dumps(small)} post={json.dumps(e['post'])[:400]}",
                          {"engine": "c19-trace", "traces": [t]})
    if traces:
        t = traces[len(traces) // 2]
        chk.sample({"trace_source": name, "events": [{k: e[k] for k in ("ev", "key", "cls", "fmt", "full", "err", "warned")} for e in t["events"][:6]]})


def replay(chk: Check, r):
    check_traces(chk, "replay", r["traces"])
