"""code -> spec for C19 (placeholder until hooks are in)."""


def run(chk, tier, rng):
    chk.skip("trace validation not yet wired")


def replay(chk, r):
    pass
