"""X03 (growth beyond the listed properties) — name resolution of project item registries (ProjectRegistry.items).

spec/ProjectItems.tla: all sets of files over a universe with equal stems / stems that look like other files' names /
sub folders, reached by add/remove histories; EveryItemReachable, OnlyItems, ShortNameIsFirst (with the named shadowing
deviation), NoFileLost; every state replayed on a real ProjectDataRegistry in a temp folder (mapping, warnings, unknown name).
"""
from __future__ import annotations

import shutil
import tempfile
import warnings
from pathlib import Path

from .core import Check, MachineryError
from .tlc import printed_json, require_actions, run_tlc

UNIVERSE = [("", "a", ".ascii"), ("", "a", ".nc"), ("", "a.nc", ".ascii"), ("", "a", ".txt"), ("", "b", ".nc"), ("sub", "a", ".nc"), ("sub", "a", ".sdt")]


def run(tier: str, replay=None) -> int:
    from glotaran.project.project_data_registry import ProjectDataRegistry
    from glotaran.project.project_registry import AmbiguousNameWarning
    chk = Check("X03", tier)
    chk.rule = "every subset of a 7-file universe reachable by <= 5 (7 in thorough) add/remove operations; non-trivial = two files share <dir>/<stem>"
    paths = [Path(d) / (s + x) for d, s, x in UNIVERSE]
    if sorted(paths) != paths:
        raise MachineryError("the universe of ProjectItems.tla is not in Python's path order")
    n = 5 if tier == "quick" else 7
    cfg = f"SPECIFICATION Spec\nCONSTANTS\n  MaxOps = {n}\nCHECK_DEADLOCK FALSE\n"
    res = run_tlc("ProjectItems", cfg + "INVARIANT EveryItemReachable\nINVARIANT OnlyItems\nINVARIANT ShortNameIsFirst\nINVARIANT NoFileLost\n", workers=4, timeout=1800)
    require_actions(res, ["Add", "Remove"])
    chk.add_tlc(res, "ProjectItems")
    em = run_tlc("ProjectItemsEmit", cfg + "CONSTRAINT Emit\n", workers=1, timeout=1800, coverage=False)
    seen = set()
    cases = []
    for c in printed_json(em["stdout"], "ITEMS"):
        k = tuple(c["present"])
        if k not in seen:
            seen.add(k)
            cases.append(c)
    for c in cases:
        chk.evaluations += 1
        td = Path(tempfile.mkdtemp(prefix="verif_x03_"))
        try:
            with warnings.catch_warnings(record=True) as w:
                warnings.simplefilter("always")
                reg = ProjectDataRegistry(td)
                for i, here in enumerate(c["present"]):
                    if here:
                        f = reg.directory / paths[i]
                        f.parent.mkdir(parents=True, exist_ok=True)
                        f.write_text("x")
                w.clear()
                items = reg.items
                nwarn = sum(1 for x in w if issubclass(x.category, AmbiguousNameWarning))
            got = {k: Path(v).relative_to(reg.directory).as_posix() for k, v in items.items()}
            want = {k: paths[i - 1].as_posix() for k, i in (c["mapping"] or {}).items()}
            key = "ProjectItems: files=" + ",".join(paths[i].as_posix() for i, h in enumerate(c["present"]) if h)
            rep = {"engine": "x03", "case": c}
            if got != want:
                chk.violation(key, f"items = {got}, specification {want}", rep)
            if nwarn != c["warnings"]:
                chk.violation(key + " [warnings]", f"{nwarn} AmbiguousNameWarning(s), specification {c['warnings']}", rep)
            try:
                items["no_such_item"]
                chk.violation(key + " [unknown name]", "looking up an unknown name did not raise", rep)
            except ValueError as ex:
                if any(k not in str(ex) for k in want):
                    chk.violation(key + " [unknown name message]", f"the error does not list the known names: {ex}", rep)
            chk.traces += 1
            if c["warnings"]:
                chk.nontriv(key)
        finally:
            shutil.rmtree(td, ignore_errors=True)
    chk.sample(cases[len(cases) // 2])
    return chk.finish()
