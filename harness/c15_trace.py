"""code -> spec for C15 / C10: raw hook events -> traces of spec/OptimizerTrace.tla -> TLC verdicts.

Raw events (see hooks in glotaran/optimization/optimizer.py, glotaran/utils/tee.py and the driver events
`call_begin` / `call_end` / `walk_fail` emitted by harness/c15_driver.py, harness/c10_driver.py):
content digests are mapped to dense ids per *family* (one scheme, possibly several processes), list
lengths are normalised to 0 empty / 1 per-evaluation length / 2 partial / 3 grown / 9 unknown.
"""
from __future__ import annotations

import json
import re
import tempfile
from pathlib import Path

from .core import MachineryError
from .tlc import run_tlc

DOCUMENTED = {
    "MissingDatasetsError": "missing_data",
    "ParameterNotInitializedError": "no_parameters",
    "UnsupportedMethodError": "unknown_method",
    "UnsupportedResidualFunctionError": "unknown_residual_function",
}
OPT_EVENTS = {"constructed", "eval_begin", "eval_ok", "opt_returned", "opt_exception", "initial_parameter_error", "fallback",
              "result_calc_begin", "result_calc_ok", "result", "walk_fail"}
# events of other hooks (registry, save protocol, result registry, data / matrix providers) are not steps of Optimizer.tla
FOREIGN = {"register", "set", "lookup", "protect", "save_begin", "save_end", "save_error", "run_created", "latest_lookup", "aligned", "prepared", "stacked"}
BLANK = {"ev": "", "x": 0, "pen": 0, "nh": 0, "lp": 9, "lc": 9, "lr": 9, "i": 0, "restored": True, "success": False,
         "reasonerr": False, "snapok": True, "exc": "none", "kind": ""}


class Family:
    """Dense ids shared by all traces about one scheme (so that per-process traces join in one memo)."""

    def __init__(self, name=""):
        self.name = name
        self.xs: dict[str, int] = {}
        self.xrs: dict[str, int] = {}
        self.pens: dict[str, int] = {}
        self.memo: dict[int, int] = {}      # first penalty id seen per point id (across the family's traces)
        self.raw: dict[int, str] = {}

    def xid(self, x: str, xr: str | None = None, fuzzy: bool = False) -> int:
        if x in self.xs:
            return self.xs[x]
        if fuzzy and xr is not None and xr in self.xrs:
            return self.xrs[xr]
        i = len(self.raw) + 1
        self.raw[i] = x
        self.xs[x] = i
        if xr is not None:
            self.xrs.setdefault(xr, i)
        return i

    def pid(self, p: str) -> int:
        return self.pens.setdefault(p, len(self.pens) + 1)


class Skip(Exception):
    """The recorded execution is outside the model (reason in args[0])."""


def _agg(lengths, nominal):
    """Normalised code of one category of lists."""
    if nominal is None:
        return 0 if all(v == 0 for v in lengths) else 9
    if len(lengths) != len(nominal):
        return 3
    codes = []
    for v, n in zip(lengths, nominal):
        if n == 0:
            if v != 0:
                return 3
            continue
        codes.append(0 if v == 0 else 1 if v == n else 2 if v < n else 3)
    if not codes:
        return 0
    if all(c == codes[0] for c in codes):
        return codes[0]
    return 3 if 3 in codes else 2


def normalise(events: list[dict], family: Family, meta: dict | None = None) -> dict:
    """events: the raw events of ONE optimizer (plus its tee and the enclosing call_begin / call_end), in order.

    Returns {"init": ..., "events": [...], "raw": [...]}; raises Skip for executions outside the model.
    """
    meta = dict(meta or {})
    out: list[dict] = []
    nominal = None
    for e in events:            # per-evaluation lengths of the scheme: those after the first finite evaluation
        if e["ev"] == "eval_ok" and e.get("finite", True):
            nominal = {"lp": list(e["lp"]), "lc": list(e["lc"]), "lr": list(e["lr"])}
            break

    def lens(e):
        if "lp" not in e:
            return {"lp": 9, "lc": 9, "lr": 9}
        return {k: _agg(e[k], nominal[k] if nominal else None) for k in ("lp", "lc", "lr")}

    snap0 = None

    def snapok(e):
        nonlocal snap0
        if "snap" not in e or e["snap"] in (None, ""):
            return True
        if snap0 is None:
            snap0 = e["snap"]
        return e["snap"] == snap0

    def add(ev, src=None, **kw):
        rec = dict(BLANK)
        rec["ev"] = ev
        rec.update(kw)
        if src is not None:
            rec["snapok"] = snapok(src)
            rec["_seq"] = src.get("seq")
        out.append(rec)

    begin = next((e for e in events if e["ev"] == "call_begin"), None)
    end = next((e for e in events if e["ev"] == "call_end"), None)
    constructed = next((e for e in events if e["ev"] == "constructed"), None)
    init = {"raise": False, "verbose": False, "method": "trf", "invalid": [], "k": 0, "kind": "exception", "nomp": 0, "noml": 1, "memo0": []}
    if begin is not None:
        snapok(begin)
        init["invalid"] = list(begin.get("invalid", []))
        init["raise"] = bool(begin.get("raise_exception", False))
        init["verbose"] = bool(begin.get("verbose", False))
    if constructed is not None:
        init["raise"] = bool(constructed["raise_exception"])
        init["verbose"] = bool(constructed["verbose"])
        init["method"] = constructed["method"]
    if nominal:
        init["nomp"] = 1 if any(n > 0 for n in nominal["lp"]) else 0
        init["noml"] = 1 if any(n > 0 for n in nominal["lc"] + nominal["lr"]) else 0
    msgs = set()
    pending = None           # eval_begin without its eval_ok yet
    pending_rc = None        # result_calc_begin without its ok
    stdout_at_enter = None
    left_tee = False
    in_tee = False
    fell_back = False
    to_final_done = False
    nfaults = 0
    neval = 0
    fault_at, fault_kind = 0, "exception"
    rc_open = False
    seen_nan = False

    def lifecycle_fault(kind):
        nonlocal nfaults, fault_at, fault_kind
        nfaults += 1
        if nfaults == 1:
            fault_at, fault_kind = neval, kind

    def flush_pending(next_ev):
        """An eval_begin that never reached its eval_ok: the evaluation raised."""
        nonlocal pending, neval
        if pending is None:
            return
        neval += 1
        x = family.xid(pending["x"], pending.get("xr"), fuzzy=bool(pending.get("final")))
        ln = lens(next_ev) if next_ev is not None and "lp" in next_ev else {"lp": 9, "lc": 9, "lr": 9}
        if in_tee or left_tee:
            lifecycle_fault("exception")
        add("eval_fail", pending, x=x, nh=pending["nh"], **ln)
        pending = None

    def flush_rc(next_ev):
        nonlocal pending_rc, neval
        if pending_rc is None:
            return
        neval += 1
        lifecycle_fault("exception")
        add("result_calc_fail", pending_rc, nh=pending_rc["nh"])
        pending_rc = None

    failed_flag = False
    for idx, e in enumerate(events):
        ev = e["ev"]
        if ev in ("call_begin",):
            continue
        flushed = False
        if pending is not None and ev not in ("eval_ok", "tee_enter", "tee_exit"):
            late = left_tee
            flush_pending(e)              # the evaluation that was begun never returned: it raised
            flushed = True
            failed_flag = failed_flag or late
        if pending_rc is not None and ev != "result_calc_ok":
            flush_rc(e)
            failed_flag = True
        if ev == "constructed":
            add("construct", e, x=family.xid(e["x"], e.get("xr")), nh=e["nh"])
        elif ev == "tee_enter":
            if e["cur"] != e["captured"]:
                add("envswap", e)
            stdout_at_enter = e["cur"]
            in_tee = True
            add("tee_enter", e)
        elif ev == "eval_begin":
            flush_pending(e)
            if e.get("final") and not fell_back and not to_final_done:
                add("to_final", e)
                to_final_done = True
            pending = e
        elif ev == "eval_ok":
            neval += 1
            if pending is not None:
                x = family.xid(pending["x"], pending.get("xr"), fuzzy=bool(pending.get("final")))
                pending = None
            else:
                x = family.xid(e["xv"])      # calculate_penalty called directly
            if e.get("finite", True):
                p = family.pid(e["pen"])
                family.memo.setdefault(x, p)
                add("eval_ok", e, x=x, pen=p, nh=e["nh"], **lens(e))
            else:
                if (in_tee or left_tee) and not seen_nan:
                    lifecycle_fault("nan")       # later non-finite evaluations follow from the first one
                seen_nan = True
                add("eval_nan", e, x=x, nh=e["nh"], **lens(e))
        elif ev == "walk_fail":                      # driver: a direct objective_function call raised
            flush_pending(e)
        elif ev == "opt_returned":
            add("returns", e, x=family.xid(e["x"], e.get("xr"), fuzzy=True))
        elif ev == "opt_exception":
            msgs.add(e.get("msg", ""))
            if not flushed:
                add("raises", e)
            failed_flag = True
            add("propagate" if e["raise_exception"] else "swallow", e)
        elif ev == "tee_exit":
            in_tee = False
            left_tee = True
            add("tee_exit", e, restored=(stdout_at_enter is None or e["now"] == stdout_at_enter))
        elif ev == "initial_parameter_error":
            add("ipe", e)
        elif ev == "fallback":
            if left_tee and not failed_flag:
                add("late_choke", e)     # create_result failed without a failing evaluation (non-finite numbers) and the failure was contained
                failed_flag = True
            fell_back = True
            add("fallback", e, i=int(e["index"]), x=family.xid(e["x"], e.get("xr"), fuzzy=True))
        elif ev == "result_calc_begin":
            flush_pending(e)
            flush_rc(e)
            pending_rc = e
        elif ev == "result_calc_ok":
            pending_rc = None
            if rc_open and out and out[-1]["ev"] == "result_calc":      # one ResultCalc per run: merge the groups
                out[-1].update(lens(e))
            else:
                neval += 1
                add("result_calc", e, nh=e["nh"], **lens(e))
                rc_open = True
            nxt = events[idx + 1]["ev"] if idx + 1 < len(events) else ""
            if nxt != "result_calc_begin":
                rc_open = False
        elif ev == "result":
            reason = e.get("reason", "")
            known = set(msgs)
            if end is not None and end.get("fault_msg"):
                known.add(end["fault_msg"][:200])
            rerr = reason in known
            if end is not None and isinstance(end.get("obs"), dict) and "reason_is_error" in end["obs"]:
                rerr = bool(end["obs"]["reason_is_error"])      # the driver saw the warning that carries the exception text
            add("result", e, success=bool(e["success"]), reasonerr=rerr, nh=e["nh"],
                x=family.xid(e["x"], e.get("xr"), fuzzy=True))
        elif ev == "call_end":
            flush_pending(e)
            flush_rc(e)
            exc = e.get("exc", "")
            o = e.get("obs") or {}
            per = max(1, int((e.get("plan") or {}).get("scheme", {}).get("ndatasets", 1)))
            if (e.get("plan") or {}).get("kind") == "nan" and o.get("fired_at") and nfaults == 0:
                # a non-finite evaluation the hooks cannot see (result datasets): the driver knows where it fired
                nfaults, fault_at, fault_kind = 1, -(-int(o["fired_at"]) // per), "nan"
            if exc and exc != "InitialParameterError" and constructed is not None and left_tee and not failed_flag:
                add("late_choke", e)      # create_result raised without a failing evaluation (after non-finite numbers)
                failed_flag = True
            if constructed is None and exc:
                add("reject", e, kind=DOCUMENTED.get(exc, "undocumented:" + exc))
            cat = "none" if not exc else exc if exc in DOCUMENTED or exc == "InitialParameterError" else "original" if e.get("original") else "other:" + exc
            if constructed is None and exc in DOCUMENTED:
                cat = exc
            restored = begin is None or e.get("stdout") == begin.get("stdout")
            if constructed is not None and stdout_at_enter is None and not exc:
                pass          # a walk of direct evaluations: the optimizer is left in its constructed phase
            else:
                add("end", e, exc=cat, restored=bool(restored))
    flush_pending(None)
    flush_rc(None)
    if nfaults > 1:
        raise Skip("more than one failing evaluation inside one optimisation (the model has one fault)")
    if any(o["ev"] == "raises" for o in out) and not any(o["ev"] == "eval_nan" for o in out):
        raise Skip("least_squares raised although no model evaluation failed or was non-finite")
    init["k"], init["kind"] = fault_at, fault_kind
    return {"init": init, "events": out}


def split_runs(events: list[dict]) -> list[list[dict]]:
    """Driver traces: events between call_begin and call_end (one optimize() / one walk each), per process."""
    runs, cur = [], {}
    for e in events:
        if e["ev"] in FOREIGN:
            continue
        pid = e["pid"]
        if e["ev"] == "call_begin":
            cur[pid] = [e]
        elif pid in cur:
            cur[pid].append(e)
            if e["ev"] == "call_end":
                runs.append(cur.pop(pid))
    return runs


def split_optimizers(events: list[dict]) -> list[list[dict]]:
    """Hooks-only traces (repository tests): one segment per optimizer object; tee events join through the tee id."""
    segs: dict = {}
    tees: dict = {}
    order = []
    for e in events:
        pid = e["pid"]
        if e["ev"] == "constructed":
            k = (pid, e["opt"])
            segs[k] = [e]             # id reuse: a new `constructed` starts a new segment
            order.append(segs[k])
            tees[(pid, e["tee"])] = segs[k]
        elif e["ev"] in OPT_EVENTS and (pid, e.get("opt")) in segs:
            segs[(pid, e["opt"])].append(e)
        elif e["ev"] in ("tee_enter", "tee_exit") and (pid, e["tee"]) in tees:
            tees[(pid, e["tee"])].append(e)
    return order


def _cfg(invs, props):
    lines = ["SPECIFICATION TraceSpec", "CONSTANTS", "  Points <- TracePoints", "  MaxEvals = 1000000", "  MaxK = 1000000",
             '  Kinds = {"exception", "nan"}', '  Methods = {"trf"}', "  VerboseSet = {TRUE}", "  RaiseSet = {TRUE}", "  InvalidSets <- InvalidNone",
             '  Groups = {"g"}', '  Datasets = {"d"}', "  NomPenSet = {0}", "  NomLenSet = {1}", "  Cap = 3", "  ClearOnEval = TRUE",
             "  AllowDirect = TRUE", "  MaxDirect = 1000000", "  AllowEnvSwap = TRUE",
             "CONSTRAINT Progress", "POSTCONDITION Accepted", "CHECK_DEADLOCK FALSE"]
    lines += [f"INVARIANT {i}" for i in invs] + [f"PROPERTY {p}" for p in props]
    return "\n".join(lines) + "\n"


TRACE_INVARIANTS = ["StdoutRestored", "StdoutOnlyInTee", "Contained", "InitialErrorIffNothingEvaluated", "Transparent", "NoSpuriousFailure",
                    "RejectedBeforeEval", "HistoryShape", "ResultFromEvaluated", "ShapesStable", "SchemeUntouched"]
TRACE_PROPERTIES: list = []     # Pure / InputsUntouched are guards of the recorded steps (Reproduced, snapok): see diagnose()


def validate(traces: list[dict], npoints: int, timeout=1200) -> dict:
    """Returns dict(verdict=[0 | line], res=TLC result, inv=(name, tid, line) | None)."""
    if not traces:
        return {"verdict": [], "res": None, "inv": None}
    clean = [{"init": t["init"], "events": [{k: v for k, v in e.items() if not k.startswith("_")} for e in t["events"]]} for t in traces]
    with tempfile.TemporaryDirectory(prefix="verif_c15t_") as td:
        f = Path(td) / "traces.json"
        f.write_text(json.dumps({"npoints": max(1, npoints), "traces": clean}))
        res = run_tlc("OptimizerTrace", _cfg(TRACE_INVARIANTS, TRACE_PROPERTIES), workers=1, timeout=timeout, env={"TRACE_FILE": str(f)},
                      coverage=False, allow_violation=True)
    m = re.search(r'<<\s*"VERDICT",\s*<<(.*?)>>\s*>>', res["stdout"], re.S)
    am = re.search(r"Error: Action property (\w+) is violated", res["stdout"])
    if am and not res["violated"]:
        res["violated"] = am.group(1)      # tlc.py reports None when the postcondition is false as well
    if res["violated"]:
        tm = re.findall(r"/\\ tid = (\d+)", res["stdout"])
        lm = re.findall(r"/\\ l = (\d+)", res["stdout"])
        name = res["violated"]
        pm = re.search(r"(?:Invariant|Action property|property) (\w+) (?:is|was) violated", res["stdout"])
        if pm:
            name = pm.group(1)
        if not tm:
            raise MachineryError("OptimizerTrace: violation without a state trace\n" + res["stdout"][-3000:])
        return {"verdict": [], "res": res, "inv": (name, int(tm[-1]), int(lm[-1]))}
    if not m:
        raise MachineryError("OptimizerTrace: no VERDICT line\n" + res["stdout"][-3000:])
    body = m.group(1).strip()
    verdict = [int(x) for x in body.split(",")] if body else []
    if len(verdict) != len(traces):
        raise MachineryError("OptimizerTrace: verdict length mismatch")
    return {"verdict": verdict, "res": res, "inv": None}


def diagnose(t: dict, line: int) -> str:
    """Which clause of the specification the rejected event violates (the acceptor only says 'not a step')."""
    memo = {x: p for x, p in t["init"].get("memo0", [])}
    evs = t["events"]
    for e in evs[: line - 1]:
        if e["ev"] == "eval_ok":
            memo.setdefault(e["x"], e["pen"])
    e = evs[line - 1]
    if not e.get("snapok", True):
        return "InputsUntouched"
    if e["ev"] == "eval_ok" and memo.get(e["x"], e["pen"]) != e["pen"]:
        return "Pure"
    if e["ev"] in ("eval_ok", "result_calc") and any(e[k] not in (9, n) for k, n in (("lp", t["init"]["nomp"]), ("lc", t["init"]["noml"]), ("lr", t["init"]["noml"]))):
        return "ShapesStable"
    if e["ev"] in ("tee_exit", "end") and not e.get("restored", True):
        return "StdoutRestored"
    if e["ev"] in ("eval_ok", "eval_nan", "eval_fail", "result") and line >= 2:
        nh_prev = max((x["nh"] for x in evs[: line - 1] if x["ev"] in ("construct", "eval_ok", "eval_nan", "eval_fail", "result_calc")), default=0)
        want = nh_prev + (1 if e["ev"] in ("eval_ok", "eval_nan") else 0)
        if nh_prev and e["nh"] != want:
            return "HistoryShape"
    return "step"


def small(e: dict) -> dict:
    return {k: v for k, v in e.items() if not k.startswith("_") and v != BLANK.get(k, None) or k == "ev"}


def check_traces(chk, name: str, traces: list[dict], npoints: int, key_of, describe=None, replay_of=None, max_rounds=40):
    """Validate; report every rejected trace / violated invariant as a violation with key key_of(trace, event | None, clause).

    An invariant violation stops TLC at the first offending trace: that trace is reported and removed, the rest is re-validated.
    Returns the number of accepted traces."""
    remaining = list(range(len(traces)))
    accepted = 0
    rounds = 0
    while remaining:
        rounds += 1
        if rounds > max_rounds:
            chk.skip(f"{name}: traces not validated after {max_rounds} invariant violations", len(remaining))
            break
        batch = [traces[i] for i in remaining]
        out = validate(batch, npoints)
        if rounds == 1 and out["res"] is not None:
            chk.add_tlc(out["res"], f"OptimizerTrace[{name}]")
        if out["inv"]:
            inv, tid, line = out["inv"]
            t = batch[tid - 1]
            e = t["events"][max(0, min(len(t["events"]), line) - 1)] if t["events"] else None
            pre = t["events"][max(0, line - 2)] if line >= 2 else None
            chk.violation(key_of(t, pre, inv),
                          f"recorded execution violates {inv} after event {line - 1} of {len(t['events'])}: {json.dumps(small(pre) if pre else None)}"
                          + (f" [{describe(t)}]" if describe else ""),
                          replay_of(t) if replay_of else {"engine": "c15-trace", "traces": [t]})
            remaining.pop(tid - 1)
            continue
        for j, v in enumerate(out["verdict"]):
            t = batch[j]
            if v == 0:
                accepted += 1
                continue
            e = t["events"][v - 1]
            clause = diagnose(t, v)
            chk.violation(key_of(t, e, clause),
                          f"recorded event {v} of {len(t['events'])} is not a step of Optimizer.tla"
                          f"{'' if clause == 'step' else ' (clause ' + clause + ')'}: {json.dumps(small(e))}"
                          f" after {json.dumps([small(x)['ev'] for x in t['events'][max(0, v - 4):v - 1]])}"
                          + (f" [{describe(t)}]" if describe else ""),
                          replay_of(t) if replay_of else {"engine": "c15-trace", "traces": [t]})
        break
    return accepted
