"""X02 (growth beyond the listed properties) — optimisation history parsed from scipy's verbose output.

spec/OptHistory.tla enumerates every buffer of <= N lines of seven kinds (header, iteration 0, numbered iterations,
termination message, summary, blank, text printed by the model); RowsAreConsecutive / CurrentIsLast / FirstRowHasNoStep;
every buffer is rendered in scipy's exact format and parsed by OptimizationHistory.from_stdout_str and
Optimizer.get_current_optimization_iteration.
"""
from __future__ import annotations

import math

from .core import Check, MachineryError
from .tlc import printed_json, require_actions, run_tlc


def render(line, k):
    kind = line["kind"]
    if kind == "header":
        return "   Iteration     Total nfev        Cost      Cost reduction    Step norm     Optimality   "
    if kind == "iter0":
        return f"   {line['it']:^9}     {line['it'] + 1:^10}     {3.67e2:.4e}                                    {7.47e2:.2e}    "
    if kind == "iter":
        it = line["it"]
        return f"   {it:^9}     {it + 1:^10}     {3.67e2 / (it + 1):.4e}      {3.29e2 / it:.2e}       {2.35 / it:.2e}       {1.05e2 / (it + 2):.2e}    "
    if kind == "message":
        return "`ftol` termination condition is satisfied."
    if kind == "summary":
        return "Function evaluations 8, initial cost 3.6700e+02, final cost 7.5000e-01, first-order optimality 1.51e-05."
    if kind == "blank":
        return ""
    return f"model evaluated at step {k}: 1 2 3.0000e+00 values"       # text printed by a megacomplex


def run(tier: str, replay=None) -> int:
    from glotaran.optimization.optimization_history import OptimizationHistory
    from glotaran.optimization.optimizer import Optimizer
    chk = Check("X02", tier)
    n = 5 if tier == "quick" else 6
    chk.rule = f"every buffer of <= {n} lines over seven line kinds; non-trivial = at least two iteration lines with other lines in between"
    cfg = f"SPECIFICATION Spec\nCONSTANTS\n  MaxLines = {n}\nCHECK_DEADLOCK FALSE\n"
    res = run_tlc("OptHistory", cfg + "INVARIANT RowsAreConsecutive\nINVARIANT CurrentIsLast\nINVARIANT FirstRowHasNoStep\n", workers=8, timeout=1800)
    require_actions(res, ["Append1"])
    chk.add_tlc(res, "OptHistory")
    em = run_tlc("OptHistoryEmit", cfg + "CONSTRAINT Emit\n", workers=1, timeout=1800, coverage=False)
    cases = printed_json(em["stdout"], "HIST")
    if len(cases) != res["distinct"]:
        raise MachineryError(f"OptHistoryEmit: {len(cases)} buffers for {res['distinct']} states")
    for c in cases:
        chk.evaluations += 1
        text = "".join(render(l, k) + "\n" for k, l in enumerate(c["lines"]))
        key = "OptHistory: " + ",".join(l["kind"] for l in c["lines"])
        rep = {"engine": "x02", "case": c, "text": text}
        try:
            hist = OptimizationHistory.from_stdout_str(text)
            cur = Optimizer.get_current_optimization_iteration(text)
        except Exception as ex:  # noqa: BLE001
            chk.violation(key + f" [raises {type(ex).__name__}]", str(ex)[:200], rep)
            continue
        its = [int(i) for i in hist.data.index.tolist()]
        want = [r["it"] for r in c["rows"]]
        if its != want:
            chk.violation(key + " [rows]", f"parsed iterations {its}, specification {want}", rep)
        elif want:
            nf = [int(v) for v in hist.data["nfev"].tolist()]
            if nf != [i + 1 for i in want]:
                chk.violation(key + " [nfev]", f"parsed nfev {nf}", rep)
            first = hist.data.iloc[0]
            if not (math.isnan(first["cost_reduction"]) and math.isnan(first["step_norm"])):
                chk.violation(key + " [iteration 0]", "iteration 0 has a cost reduction / step norm", rep)
            if abs(float(first["cost"]) - 3.67e2) > 1e-9 or abs(float(first["optimality"]) - 7.47e2) > 1e-9:
                chk.violation(key + " [values]", f"iteration 0 parsed as {first.to_dict()}", rep)
        if cur != c["current"]:
            chk.violation(key + " [current iteration]", f"get_current_optimization_iteration = {cur}, specification {c['current']}", rep)
        chk.traces += 1
        if len(want) >= 2 and len(c["lines"]) > len(want):
            chk.nontriv(key)
    chk.sample(cases[len(cases) // 2])
    return chk.finish()
