"""C03 — result datasets decompose the data exactly and on the right coordinates (and C13's shared optimise helper).

The expected arrays are *functions of coordinates and labels* derived from the exact blocks of
spec/Objective.tla; the real Result (optimize with one function evaluation, x stays at x0) is looked
up by coordinate value and label (.sel), never positionally.
"""
from __future__ import annotations

import random
import warnings
from fractions import Fraction

from .c02 import case_id, features
from .core import Check, MachineryError, seed
from .objective import close, gen_case, in_premise, tlc_expected, why_not


def run_optimize(case, method="TrustRegionReflection"):
    from glotaran.optimization.optimize import optimize
    from .lattice import build
    with warnings.catch_warnings(record=True) as w:
        warnings.simplefilter("always")
        res = optimize(build(case, max_nfev=1, method=method), verbose=False, raise_exception=True)
    return res, w


def expected_views(case, exp):
    """Per dataset label: dict with exact residual (unweighted), weighted residual, weight, clp by (coord, label)."""
    views = {}
    for gi, (g, e) in enumerate(zip(case["groups"], exp)):
        ds = [d for d in case["datasets"] if d["group"] == g["label"]]
        for b in e["blocks"]:
            pos = 0
            for (k, li, nrows) in b["members"]:
                d = ds[k - 1]
                v = views.setdefault(d["label"], {"wres": {}, "res": {}, "w": {}, "clp": {}, "gclp": None, "weighted": False, "d": d, "linked": e["linked"]})
                if b["kind"] == "full":
                    nm, ng = len(d["data"]), len(d["axis"])
                    for g_i in range(ng):
                        for m in range(nm):
                            j = g_i * nm + m
                            w = b["w"][j]
                            wr = Fraction(b["res"][j], b["den"])
                            v["wres"][(m, g_i)] = wr
                            v["res"][(m, g_i)] = wr / w
                            v["w"][(m, g_i)] = w
                    L, G = b["labels"], b["glabels"]
                    v["gclp"] = {(G[a], L[c]): Fraction(b["clp"][a * len(L) + c], b["den"]) for a in range(len(G)) for c in range(len(L))}
                    v["weighted"] = bool(d.get("weight")) or any(d["label"] in ww["datasets"] for ww in case.get("weights", []))
                else:
                    for m in range(nrows):
                        w = b["w"][pos + m]
                        wr = Fraction(b["res"][pos + m], b["den"])
                        v["wres"][(m, li - 1)] = wr
                        v["res"][(m, li - 1)] = wr / w
                        v["w"][(m, li - 1)] = w
                    for lab, num in zip(b["labels"], b["clp"]):
                        v["clp"][(li - 1, lab)] = Fraction(num, b["den"])
                        if lab in b["zeroed"]:
                            v.setdefault("zeroed", set()).add((li - 1, lab))
                    v["weighted"] = bool(d.get("weight")) or any(d["label"] in ww["datasets"] for ww in case.get("weights", []))
                pos += nrows
    return views


def check_result(chk: Check, case, exp, res, feats, cid, rep):
    import numpy as np
    views = expected_views(case, exp)
    ok = True

    def bad(kind, msg):
        nonlocal ok
        ok = False
        chk.violation(f"Result[{kind}]: {feats}", f"{msg} (case {cid})", rep)

    for label, v in views.items():
        d = v["d"]
        if label not in res.data:
            bad("missing dataset", f"result has no dataset {label!r}")
            continue
        rd = res.data[label]
        nm, ng = len(d["data"]), len(d["axis"])
        maxis = [float(x) for x in (d.get("maxis") or range(nm))]
        gaxis = [float(x) for x in d["axis"]]
        for var in ("data", "residual", "fitted_data"):
            if var not in rd:
                bad(f"missing {var}", f"{label}: variable {var} missing")
                return
            if set(rd[var].dims) != {"time", "spectral"} or rd[var].sizes["time"] != nm or rd[var].sizes["spectral"] != ng:
                bad(f"{var} dims", f"{label}: {var} has dims {dict(rd[var].sizes)}, dataset is time={nm} spectral={ng}")
                return
        if [float(x) for x in rd.coords["time"].values] != maxis or [float(x) for x in rd.coords["spectral"].values] != gaxis:
            bad("coords", f"{label}: coordinates time={rd.coords['time'].values.tolist()} spectral={rd.coords['spectral'].values.tolist()}, dataset has {maxis} / {gaxis}")
            return
        scale = d.get("scale", 1)
        for g_i, gx in enumerate(gaxis):
            for m, mx in enumerate(maxis):
                dat = float(rd.data.sel(time=mx, spectral=gx))
                r = float(rd.residual.sel(time=mx, spectral=gx))
                fit = float(rd.fitted_data.sel(time=mx, spectral=gx))
                if dat != float(d["data"][m][g_i]):
                    bad("data moved", f"{label}: data at (time={mx}, spectral={gx}) is {dat}, input {d['data'][m][g_i]}")
                    return
                if not (abs(dat - (fit + r)) <= 1e-9 * max(1, abs(dat))):      # NaN-safe
                    bad("data != fitted + residual", f"{label} at ({mx},{gx}): {dat} != {fit} + {r}")
                    return
                if not close(r, v["res"][(m, g_i)]):
                    bad("residual", f"{label} at (time={mx}, spectral={gx}): residual {r}, specification {v['res'][(m, g_i)]} = {float(v['res'][(m, g_i)])}")
                    return
                if v["weighted"]:
                    if "weighted_residual" not in rd or "weight" not in rd:
                        bad("weight missing", f"{label}: weighted dataset without weight / weighted_residual in the result")
                        return
                    wr = float(rd.weighted_residual.sel(time=mx, spectral=gx))
                    ww = float(rd.weight.sel(time=mx, spectral=gx))
                    if ww != float(v["w"][(m, g_i)]):
                        bad("weight", f"{label} at (time={mx}, spectral={gx}): reported weight {ww}, specification {v['w'][(m, g_i)]}")
                        return
                    if not close(wr, v["wres"][(m, g_i)]) or abs(wr - ww * r) > 1e-9 * max(1, abs(wr)):
                        bad("weighted_residual", f"{label} at ({mx},{gx}): weighted_residual {wr}, weight {ww} x residual {r}; specification {float(v['wres'][(m, g_i)])}")
                        return
        # clps by coordinate and label; fitted = scale * matrix * clp
        if v["gclp"] is None:
            labs = [l for mc in d["mcs"] for l in mc["labels"]]
            labs = [l for i, l in enumerate(labs) if l not in labs[:i]]
            if sorted(rd.clp.coords["clp_label"].values.tolist()) != sorted(labs):
                bad("clp labels", f"{label}: clp labels {rd.clp.coords['clp_label'].values.tolist()}, dataset has {labs}")
                return
            for g_i, gx in enumerate(gaxis):
                fitcol = np.zeros(nm)
                for lab in labs:
                    c = float(rd.clp.sel(spectral=gx, clp_label=lab))
                    e = v["clp"][(g_i, lab)]
                    if not close(c, e):
                        bad("clp", f"{label} at spectral={gx}: clp[{lab}] = {c}, specification {e} = {float(e)}")
                        return
                    if (g_i, lab) in v.get("zeroed", ()) and c != 0.0:
                        bad("constrained clp not exactly zero", f"{label} at spectral={gx}: clp[{lab}] = {c!r}")
                        return
                    mat = rd.matrix.sel(spectral=gx, clp_label=lab) if "spectral" in rd.matrix.dims else rd.matrix.sel(clp_label=lab)
                    fitcol += scale * np.array([float(mat.sel(time=mx)) for mx in maxis]) * c
                for m, mx in enumerate(maxis):
                    fit = float(rd.fitted_data.sel(time=mx, spectral=gx))
                    if not (abs(fit - fitcol[m]) <= 1e-9 * max(1, abs(fit))):      # NaN-safe
                        bad("fitted != scale*matrix*clp", f"{label} at (time={mx}, spectral={gx}): fitted_data {fit}, dataset_scale({scale}) x matrix x clp = {fitcol[m]}")
                        return
            # relation targets exactly parameter x source where the relation applies
            # (with a link tolerance a point is judged at the coordinate it is aligned TO, which may lie on the other side of an interval
            # bound; those cases are decided by the comparison with the specification above, which evaluates intervals on the aligned axis)
            for r in case.get("relations", []) if not case.get("tol") else []:
                if r["source"] in labs and r["target"] in labs:
                    for g_i, gx in enumerate(gaxis):
                        if _applies(r["ivs"], gx):
                            t = float(rd.clp.sel(spectral=gx, clp_label=r["target"]))
                            s_ = float(rd.clp.sel(spectral=gx, clp_label=r["source"]))
                            if not (abs(t - r["param"] * s_) <= 4 * np.spacing(abs(t)) + 1e-300):      # NaN-safe
                                bad("relation", f"{label} at spectral={gx}: clp[{r['target']}] = {t!r} != {r['param']} x clp[{r['source']}] = {r['param'] * s_!r}")
                                return
        else:
            if "global_matrix" not in rd:
                bad("global_matrix missing", f"{label}: no global_matrix in the result of a full-model dataset")
                return
            for (gl, ml), e in v["gclp"].items():
                c = float(rd.clp.sel(global_clp_label=gl, clp_label=ml))
                if not close(c, e):
                    bad("full-model clp", f"{label}: clp[{gl},{ml}] = {c}, specification {float(e)}")
                    return
            L = [l for mc in d["mcs"] for l in mc["labels"]]
            L = [l for i, l in enumerate(L) if l not in L[:i]]
            G = sorted({k[0] for k in v["gclp"]})
            for g_i, gx in enumerate(gaxis):
                for m, mx in enumerate(maxis):
                    tot = 0.0
                    for gl in G:
                        for ml in L:
                            mat = rd.matrix.sel(spectral=gx, clp_label=ml, time=mx) if "spectral" in rd.matrix.dims else rd.matrix.sel(clp_label=ml, time=mx)
                            tot += float(mat) * float(rd.clp.sel(global_clp_label=gl, clp_label=ml)) * float(rd.global_matrix.sel(spectral=gx, global_clp_label=gl))
                    fit = float(rd.fitted_data.sel(time=mx, spectral=gx))
                    if not (abs(fit - tot) <= 1e-9 * max(1, abs(fit))):      # NaN-safe
                        bad("fitted != matrix*clp*global_matrix^T", f"{label} at (time={mx}, spectral={gx}): fitted_data {fit}, matrix x clp x global_matrix^T = {tot}")
                        return
    return ok


def _applies(ivs, g):
    import math
    if not ivs:
        return True
    for a, b in ivs:
        a = -math.inf if a == "-inf" else (math.inf if a == "inf" else a)
        b = -math.inf if b == "-inf" else (math.inf if b == "inf" else b)
        if min(a, b) <= g <= max(a, b):
            return True
    return False


def dof_ok(exp):
    npts = sum(e["npoints"] + e["npenalties"] for e in exp)
    nclp = sum(e["nclps"] for e in exp)
    return npts - 1 - nclp >= 1


def real_fit_identities(chk: Check, rng, n):
    """The property's identities on results of real multi-iteration fits in which relation parameters and dataset
    scales MOVE (so a result built from stale start values is exposed): data = fitted + residual,
    fitted = scale_opt * matrix * clp, related clp = parameter_opt * source, constrained clp == 0."""
    import numpy as np
    import xarray as xr
    from glotaran.builtin.megacomplexes.decay import DecayParallelMegacomplex
    from glotaran.model import Model
    from glotaran.optimization.optimize import optimize
    from glotaran.parameter import Parameters
    from glotaran.project import Scheme
    from glotaran.simulation import simulate
    M = Model.create_class_from_megacomplexes([DecayParallelMegacomplex])
    for i in range(n):
        link = rng.choice([True, False, None])
        nds = 2
        rel_true, sc_true = 2.5, 1.5
        weighted = rng.random() < 0.4
        md = {"megacomplex": {"m1": {"type": "decay-parallel", "compartments": ["s1", "s2", "s3"], "rates": ["k.1", "k.2", "k.3"]}},
              "dataset_groups": {"default": {"link_clp": link}},
              "dataset": {"d0": {"megacomplex": ["m1"]}, "d1": {"megacomplex": ["m1"], "scale": "sc.1"}},
              "clp_relations": [{"source": "s1", "target": "s2", "parameter": "rel.1", "interval": [(0, 3)]}],
              "clp_constraints": [{"type": "zero", "target": "s3", "interval": [(2, 10)]}]}
        if weighted:
            md["weights"] = [{"datasets": ["d0"], "global_interval": (1, 3), "value": 0.5}]
        model = M(**md)
        linked = link is not False
        start = Parameters.from_dict({"k": [["1", 1.0], ["2", 0.3], ["3", 0.08]], "rel": [["1", 1.0]], "sc": [["1", 1.0, {"vary": linked}]]})
        true = Parameters.from_dict({"k": [["1", 1.1], ["2", 0.25], ["3", 0.07]], "rel": [["1", rel_true]], "sc": [["1", sc_true]]})
        time = np.linspace(0, 15, 30)
        data = {}
        sim_model = M(megacomplex=md["megacomplex"], dataset={"d0": {"megacomplex": ["m1"]}, "d1": {"megacomplex": ["m1"]}})
        for d in range(nds):
            spectral = np.arange(0.0, 5.0, 1.0)
            vals = np.array([[1 + 0.3 * j, (rel_true * (1 + 0.3 * j)) if j <= 3 else 0.7, 0.9 if j < 2 else 0.0] for j in range(spectral.size)])
            clp = xr.DataArray(vals * (sc_true if d == 1 else 1.0), coords=[("spectral", spectral), ("clp_label", ["s1", "s2", "s3"])])
            data[f"d{d}"] = simulate(sim_model, f"d{d}", true, {"time": time, "spectral": spectral}, clp, noise=True, noise_std_dev=0.01, noise_seed=rng.randint(0, 10 ** 6))
        method = rng.choice(["TrustRegionReflection", "Dogbox", "Levenberg-Marquardt"])
        chk.evaluations += 1
        with warnings.catch_warnings():
            warnings.simplefilter("ignore")
            res = optimize(Scheme(model=model, parameters=start, data=data, optimization_method=method, maximum_number_function_evaluations=15), verbose=False, raise_exception=True)
        key = f"Result[fit identities]: link={link} weighted={weighted}"
        rep = {"engine": "c03-fit", "link": link, "method": method}
        p_rel = res.optimized_parameters.get("rel.1").value
        p_sc = res.optimized_parameters.get("sc.1").value
        moved = abs(p_rel - 1.0) > 1e-3
        for label, rd in res.data.items():
            scale = p_sc if label == "d1" else 1.0
            if not np.allclose(rd.data.values, (rd.fitted_data + rd.residual).transpose(*rd.data.dims).values, rtol=1e-10, atol=1e-12):
                chk.violation(key + " data", f"{label}: data != fitted_data + residual after a {method} fit", rep)
            mat = rd.matrix
            fit = scale * xr.dot(mat, rd.clp, dims="clp_label") if "spectral" not in mat.dims else scale * (mat * rd.clp).sum("clp_label")
            if not np.allclose(fit.transpose("time", "spectral").values, rd.fitted_data.transpose("time", "spectral").values, rtol=1e-8, atol=1e-10):
                chk.violation(key + " fitted", f"{label}: fitted_data != dataset_scale({scale}) x matrix x clp at the optimised parameters (rel.1={p_rel}, sc.1={p_sc}) after a {method} fit", rep)
            for x in rd.coords["spectral"].values:
                s1 = float(rd.clp.sel(spectral=x, clp_label="s1"))
                s2 = float(rd.clp.sel(spectral=x, clp_label="s2"))
                s3 = float(rd.clp.sel(spectral=x, clp_label="s3"))
                if 0 <= x <= 3 and abs(s2 - p_rel * s1) > 4 * np.spacing(abs(s2)) + 1e-300:
                    chk.violation(key + " relation", f"{label} at {x}: clp[s2] = {s2!r} but optimised parameter {p_rel!r} x clp[s1] = {p_rel * s1!r} ({method})", rep)
                    break
                if 2 <= x <= 10 and s3 != 0.0:
                    chk.violation(key + " constraint", f"{label} at {x}: constrained clp[s3] = {s3!r}", rep)
                    break
            if "weighted_residual" in rd and not np.allclose(rd.weighted_residual.values, (rd.weight * rd.residual).transpose(*rd.weighted_residual.dims).values, rtol=1e-10, atol=1e-14):
                chk.violation(key + " weighted_residual", f"{label}: weighted_residual != weight x residual", rep)
        chk.traces += 1
        if moved:
            chk.nontriv(("fit", i))


def run(tier: str, replay=None) -> int:
    chk = Check("C03", tier)
    rng = random.Random(seed() + 303)
    chk.rule = ("seeded random lattice schemes (feature product of C02 plus dataset labels that are prefixes/substrings/concatenations of each other, non-square shapes, "
                "both storage orders, noisy integer data, linked groups with single-dataset indices) optimised with one function evaluation; every result array compared by "
                "coordinate and label with the exact values of spec/Objective.tla; non-trivial = >= 3 interacting features; distinct = distinct case")
    chk.assumptions = ["maximum_number_function_evaluations=1 keeps x at x0 (TRF/Dogbox), so every result array has an exact rational value",
                       "D8, D11 (degrees of freedom >= 1), D13; see C02",
                       "exactly-zero clauses compared with == 0.0; relation targets to 4 ulp; everything else 1e-9 relative"]
    if replay:
        if replay["replay"]["engine"] == "c03-fit":
            real_fit_identities(chk, random.Random(seed() + 303), 8 if tier == "quick" else 150)
            return chk.finish()
        case = replay["replay"]["case"]
        exp, tot = tlc_expected([case], shards=1)
        chk.add_tlc(tot)
        _one(chk, case, exp[0], replay["replay"].get("method", "TrustRegionReflection"))
        return chk.finish()
    n = 1200 if tier == "quick" else 8000
    cases = [gen_case(rng) for _ in range(n)]
    exp, tot = tlc_expected(cases, shards=8 if tier == "quick" else 14)
    chk.add_tlc(tot, "ObjectiveCases")
    chk.exhaustive = False
    nin = 0
    for case, e in zip(cases, exp):
        if not in_premise(e):
            for r in why_not(e):
                chk.skip(f"outside premise: {r}")
            continue
        if not dof_ok(e):
            chk.skip("degrees of freedom < 1 (D11)")
            continue
        nin += 1
        method = "Dogbox" if nin % 5 == 0 else "TrustRegionReflection"
        _one(chk, case, e, method)
        if nin % 173 == 1:
            chk.sample({"features": features(case), "case": case})
    if nin < n // 5:
        raise MachineryError(f"only {nin} of {n} cases usable")
    real_fit_identities(chk, rng, 8 if tier == "quick" else 150)
    return chk.finish()


def _one(chk, case, e, method):
    feats = features(case)
    cid = case_id(case)
    rep = {"engine": "c03", "case": case, "method": method}
    chk.evaluations += 1
    try:
        res, w = run_optimize(case, method)
    except Exception as ex:  # noqa: BLE001
        chk.violation(f"Result[raises {type(ex).__name__}]: {feats}", f"optimize raised {type(ex).__name__}: {str(ex)[:300]} on an in-premise case {cid}", rep)
        return
    chk.traces += 1
    if not res.success:
        chk.violation(f"Result[not successful]: {feats}", f"optimize returned success=False: {res.termination_reason} (case {cid})", rep)
        return
    check_result(chk, case, e, res, feats, cid, rep)
    if len(feats) >= 3:
        chk.nontriv(cid)
