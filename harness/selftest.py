"""./check selftest [seed-id ...] : binding self-test with the stored seeded changes.

For every /verif/seeded/<id>/ (or the ones named): a scratch git worktree of /repo HEAD is created outside /repo and
/verif, patch.diff is applied, the checks listed in meta.json "caught_by" are run (quick tier) against it with evidence
and replays redirected to a scratch directory, and each must exit 1; the worktree is removed. Exit 0 iff every listed
check caught its change.
"""
from __future__ import annotations

import json
import os
import shutil
import subprocess
import sys
import tempfile
from pathlib import Path

from .core import REPO, VERIF


def main(ids) -> int:
    seeds = sorted(p for p in (VERIF / "seeded").iterdir() if (p / "meta.json").exists())
    if ids:
        seeds = [p for p in seeds if p.name in ids]
    failed = 0
    for sd in seeds:
        meta = json.loads((sd / "meta.json").read_text())
        wt = tempfile.mkdtemp(prefix="verif_selftest_wt_")
        os.rmdir(wt)
        scratch = tempfile.mkdtemp(prefix="verif_selftest_ev_")
        try:
            subprocess.run(["git", "-C", str(REPO), "worktree", "add", "-q", "--detach", wt, "HEAD"], check=True)
            ap = subprocess.run(["git", "-C", wt, "apply", str(sd / "patch.diff")], capture_output=True, text=True)
            if ap.returncode != 0:
                print(f"{sd.name}: PATCH DOES NOT APPLY ({ap.stderr.strip()[:200]})")
                failed += 1
                continue
            for chk in meta["caught_by"]:
                env = dict(os.environ, VERIF_REPO=wt, VERIF_EVIDENCE_DIR=f"{scratch}/evidence", VERIF_REPLAYS_DIR=f"{scratch}/replays")
                p = subprocess.run([str(VERIF / "check"), chk, "--tier", "quick"], capture_output=True, text=True, env=env)
                nv = sum(1 for line in p.stdout.splitlines() if line.startswith("VIOLATION"))
                ok = p.returncode == 1 and nv > 0
                print(f"{sd.name}: {chk} rc={p.returncode} violations>={nv} -> {'caught' if ok else 'NOT CAUGHT'}")
                failed += 0 if ok else 1
        finally:
            subprocess.run(["git", "-C", str(REPO), "worktree", "remove", "--force", wt], capture_output=True)
            shutil.rmtree(scratch, ignore_errors=True)
    print(f"selftest: {len(seeds)} seeded changes, {failed} failures")
    return 0 if failed == 0 else 1


if __name__ == "__main__":
    sys.exit(main(sys.argv[1:]))
