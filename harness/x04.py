"""X04 (growth beyond the listed properties) — parameter history and restore (ParameterHistory, Parameters.set_from_history).

spec/ParamHistory.tla: histories of set / append / restore / save-load over two label tuples; BoundIffRecorded, AppendOnly,
LabelsFixed, ErrorsArePure, RestoreIsRecord, OriginUnobservable; every transition of the TLC state graph is executed on a real
ParameterHistory + Parameters pair (non-negative and fixed parameters included, csv and data-frame round trips alternate) and
the whole abstract state is compared after each step.
"""
from __future__ import annotations

import copy
import json
import os
import tempfile
import warnings
from pathlib import Path

from .core import Check, MachineryError
from .graph import walk_edges
from .tlc import printed_json, require_actions, run_tlc

LABELS = {"L1": ["a", "k", "f", "ex"], "L2": ["a", "c"]}
# e: an expression parameter that carries the non-negative flag (e.g. from a group default) and whose value may be negative: the history holds
# its transformed value (NaN for a negative one); restoring must give the value of the EXPRESSION, not of the record
SPECS = {"L1": lambda v: [["a", v["a"]], ["k", v["k"], {"non-negative": True}], ["f", v["f"], {"vary": False}], ["ex", {"expr": "$a * -1", "non-negative": True}]],
         "L2": lambda v: [["a", v["a"]], ["c", v["c"], {"min": -10.0, "max": 10.0}]]}
VALS = {1: {"a": 1.5, "k": 0.25, "f": 3.0, "c": -0.5, "ex": -1.5}, 2: {"a": -2.0, "k": 4.0, "f": 7.0, "c": 2.5, "ex": 2.0}}


def make(ls, v):
    from glotaran.parameter import Parameters
    return Parameters.from_list(SPECS[ls](VALS[v]))


def vec(ls, v):
    return [VALS[v][l] for l in LABELS[ls]]


class Real:
    def __init__(self, cur):
        from glotaran.parameter import ParameterHistory
        self.cur = make(cur["ls"], cur["v"])
        self.hist = ParameterHistory()
        self.n = 0

    def fork(self):
        r = Real.__new__(Real)
        r.cur = self.cur.copy()
        r.hist = copy.deepcopy(self.hist)
        r.n = self.n
        return r


def run(tier: str, replay=None) -> int:
    from glotaran.parameter import ParameterHistory
    chk = Check("X04", tier)
    chk.rule = "every transition of ParamHistory.tla (2 label tuples, 2 value vectors, <= 2 (3) records, <= 5 (7) operations); non-trivial = an error is due or a record is restored / reloaded"
    maxrecs, maxops = (2, 5) if tier == "quick" else (3, 7)
    cfg = (f'SPECIFICATION Spec\nCONSTANTS\n  LabelSets = {{"L1", "L2"}}\n  Vals = {{1, 2}}\n  MaxRecs = {maxrecs}\n  MaxOps = {maxops}\nCHECK_DEADLOCK FALSE\n')
    res = run_tlc("ParamHistory", cfg + "INVARIANT TypeOK\nINVARIANT BoundIffRecorded\nPROPERTY AppendOnly\nPROPERTY LabelsFixed\nPROPERTY ErrorsArePure\n"
                  "PROPERTY RestoreIsRecord\nPROPERTY OriginUnobservable\n", workers=4, timeout=1800)
    require_actions(res, ["SetCur", "Record", "Restore", "SaveLoad"])
    chk.add_tlc(res, "ParamHistory")
    em = run_tlc("ParamHistoryEmit", cfg + "ACTION_CONSTRAINT Emit\n", workers=1, timeout=1800, coverage=False)
    raw = printed_json(em["stdout"], "EDGE")
    if not raw:
        raise MachineryError("ParamHistoryEmit: no edges")
    key = lambda st: json.dumps(st, sort_keys=True)
    seen, edges = set(), []
    for e in raw:
        k = (key(e["src"]), json.dumps(e["act"], sort_keys=True), key(e["dst"]))
        if k not in seen:
            seen.add(k)
            edges.append({"src": key(e["src"]), "dst": key(e["dst"]), "act": e["act"], "s": e["src"], "d": e["dst"]})
    tmp = Path(tempfile.mkdtemp(prefix="verif_x04_"))

    def observe(real, st, desc, rep):
        ok = True
        h = real.hist
        if h.number_of_records != len(st["recs"]) or len(h) != len(st["recs"]):
            ok = False
            chk.violation(f"ParamHistory: number_of_records after {desc}", f"{h.number_of_records} records, specification {len(st['recs'])}", rep)
            return ok
        if st["labels"] != "none" and list(h.parameter_labels) != ["iteration", *LABELS[st["labels"]]]:
            ok = False
            chk.violation(f"ParamHistory: labels after {desc}", f"labels {list(h.parameter_labels)}, specification {['iteration', *LABELS[st['labels']]]}", rep)
        for k, r in enumerate(st["recs"]):
            probe = make(st["labels"], 3 - r["v"])
            with warnings.catch_warnings():
                warnings.simplefilter("ignore")
                probe.set_from_history(h, k)
            got = [probe.get(l).value for l in LABELS[st["labels"]]]
            want = vec(st["labels"], r["v"])
            if float(h.get_parameters(k)[0]) != float(r["it"]) or any(not (abs(a - b) <= 1e-12 * max(1, abs(b))) for a, b in zip(got, want)):
                ok = False
                chk.violation(f"ParamHistory: record content after {desc}", f"record {k}: iteration {h.get_parameters(k)[0]}, restores to {got}; specification iteration {r['it']}, values {want}", rep)
        got = [real.cur.get(l).value for l in LABELS[st["cur"]["ls"]]]
        want = vec(st["cur"]["ls"], st["cur"]["v"])
        if [p.label for p in real.cur.all()] != LABELS[st["cur"]["ls"]] or any(not (abs(a - b) <= 1e-12 * max(1, abs(b))) for a, b in zip(got, want)):
            ok = False
            chk.violation(f"ParamHistory: current parameters after {desc}", f"current parameters {got}, specification {want}", rep)
        return ok

    def execute(real, e):
        a, d = e["act"], e["d"]
        chk.evaluations += 1
        real.n += 1
        desc = f"{a['op']}({a['arg']}) [origin={e['s']['origin']}]"
        rep = {"engine": "x04", "edge": {k: e[k] for k in ("s", "d", "act")}}
        err = ""
        try:
            with warnings.catch_warnings():
                warnings.simplefilter("ignore")
                if a["op"] == "set":
                    real.cur = make(d["cur"]["ls"], d["cur"]["v"])
                elif a["op"] == "append":
                    real.hist.append(real.cur, a["arg"])
                elif a["op"] == "restore":
                    real.cur.set_from_history(real.hist, a["arg"])
                elif a["op"] == "saveload":
                    if real.n % 2:
                        f = tmp / f"h{os.getpid()}_{real.n}.csv"
                        real.hist.to_csv(f)
                        real.hist = ParameterHistory.from_csv(str(f))
                        f.unlink()
                    else:
                        real.hist = ParameterHistory.from_dataframe(real.hist.to_dataframe())
        except (ValueError, IndexError) as ex:
            err = type(ex).__name__
            msg = str(ex)
            if a["err"] == "ValueError" and err == "ValueError" and "labels" not in msg.lower():
                chk.violation(f"ParamHistory: {desc} wrong ValueError", f"raised ValueError({msg!r}); the documented error is about labels that do not match", rep)
        if err != a["err"]:
            chk.violation(f"ParamHistory: {desc} error", f"raised {err or 'nothing'}, specification {a['err'] or 'nothing'}", rep)
            return False
        chk.traces += 1
        if a["err"] or a["op"] in ("restore", "saveload"):
            chk.nontriv(json.dumps(e["s"]) + json.dumps(a))
        return observe(real, d, desc, rep)

    inits = sorted({e["src"] for e in edges if json.loads(e["src"])["recs"] == [] and json.loads(e["src"])["origin"] == "fresh"})
    total = 0
    for ik in inits:
        st = json.loads(ik)
        _, ne = walk_edges(edges, ik, lambda st=st: Real(st["cur"]), Real.fork, execute)
        total += ne
    chk.extra["edges"] = len(edges)
    chk.extra["edge_executions"] = total
    if total < len(edges):
        chk.skip("edges not executed because an earlier step mismatched", len(edges) - total)
    import shutil
    shutil.rmtree(tmp, ignore_errors=True)
    chk.sample(edges[len(edges) // 2]["act"] | {"src": edges[len(edges) // 2]["s"]})
    return chk.finish()
