"""code -> spec: "prepared" / "stacked" events of real matrix providers validated against spec/ReduceTrace.tla
(Objective!ReduceLabels on the recorded model items, block by block)."""
from __future__ import annotations

import json
import re
import tempfile
from pathlib import Path

from .core import REPO, Check, MachineryError, seed
from .tlc import run_tlc
from .trace import py, pytest_cmd, record

SCALES = [1, 2, 4, 5, 8, 10, 20, 40, 100, 200, 1000, 10000]
BIG = 2 ** 30


def _scale(values):
    fin = [v for v in values if abs(v) != float("inf")]
    if any(v != v for v in fin):
        return None
    return next((s for s in SCALES if all(abs(v * s - round(v * s)) <= 1e-6 and abs(v * s) < BIG // 2 for v in fin)), None)


def to_trace(e: dict):
    """-> (trace, None) | (None, reason).  Scaling is sound only if no coordinate coincides with an interval bound up to rounding
    without being equal to it, and distinct values stay distinct."""
    items = e["items"]
    bounds = [b for it in items["constraints"] + items["relations"] for iv in (it["intervals"] or []) for b in iv]
    if e["ev"] == "prepared":
        coords = [v for d in e["datasets"] for v in d["axis"]]
    else:
        coords = [b["g"] for b in e["blocks"]]
    sc = _scale(coords + bounds)
    if sc is None:
        return None, "coordinates / interval bounds not on a common decimal grid"
    I = lambda v: (BIG if v > 0 else -BIG) if abs(v) == float("inf") else int(round(v * sc))
    for g in set(coords):
        for b in set(bounds):
            if abs(b) != float("inf") and I(g) == I(b) and g != b:
                return None, "a coordinate equals an interval bound only up to floating point rounding"
    ivs = lambda it: [[I(iv[0]), I(iv[1])] for iv in (it["intervals"] or [])]
    c = {"constraints": [{"type": it["type"], "target": it["target"], "ivs": ivs(it)} for it in items["constraints"]],
         "relations": [{"source": it["source"], "target": it["target"], "ivs": ivs(it)} for it in items["relations"]]}
    if any(it["type"] not in ("zero", "only") for it in c["constraints"]):
        return None, "constraint type unknown to the specification"
    blocks = []
    if e["ev"] == "prepared":
        for d in e["datasets"]:
            if len(d["reduced"]) != len(d["axis"]):
                return {"bad": f"dataset {d['label']}: {len(d['reduced'])} prepared matrices for {len(d['axis'])} global indices"}, None
            for g, red in zip(d["axis"], d["reduced"]):
                blocks.append({"g": I(g), "memberfull": [d["full"]], "full": d["full"], "reduced": red, "who": [d["label"]]})
        nclps = e["number_of_clps"] if len(e["datasets"]) == len(e["datasets_in_group"]) else -1
    else:
        for b in e["blocks"]:
            blocks.append({"g": I(b["g"]), "memberfull": [e["dataset_full"][m] for m in b["members"]], "full": b["full"], "reduced": b["reduced"], "who": b["members"]})
        nclps = e["number_of_clps"]
    return {"c": c, "blocks": blocks, "nclps": nclps, "scale": sc, "kind": e["ev"]}, None


def validate(traces, timeout=1800):
    cfg = "SPECIFICATION TraceSpec\nCONSTRAINT Mark\nINVARIANT Sound\nPOSTCONDITION Accepted\nCHECK_DEADLOCK FALSE\n"
    with tempfile.TemporaryDirectory(prefix="verif_redt_") as td:
        f = Path(td) / "traces.json"
        f.write_text(json.dumps({"traces": [{"c": t["c"], "nclps": t["nclps"],
                                             "blocks": [{k: b[k] for k in ("g", "memberfull", "full", "reduced")} for b in t["blocks"]]} for t in traces]}))
        res = run_tlc("ReduceTrace", cfg, workers=1, timeout=timeout, env={"TRACE_FILE": str(f)}, coverage=False, allow_violation=True)
    m = re.search(r'<<\s*"VERDICT",\s*<<(.*?)>>\s*>>', res["stdout"], re.S)
    if res.get("violated") and not m:
        tm = re.findall(r"/\\ tid = (\d+)", res["stdout"])
        bm = re.findall(r"/\\ b = (\d+)", res["stdout"])
        res["inv_trace"] = (int(tm[-1]), int(bm[-1])) if tm and bm else None
        return [], res
    if not m:
        raise MachineryError("ReduceTrace: no VERDICT line\n" + res["stdout"][-3000:])
    body = m.group(1).strip()
    verdict = [int(x) for x in body.split(",")] if body else []
    if len(verdict) != len(traces):
        raise MachineryError("ReduceTrace: verdict length mismatch")
    return verdict, res


def check_events(chk: Check, name: str, events: list[dict], must_have=True) -> int:
    evs = [e for e in events if e.get("ev") in ("prepared", "stacked")]
    for e in events:
        if e.get("ev") == "driver_error":
            chk.violation(f"ReduceTrace[{name}]: evaluation raises {e['error'].split(':')[0]}", f"evaluating a generated scheme raised {e['error']}",
                          {"engine": "reduce-trace", "events": [e]})
    if must_have and not evs:
        raise MachineryError(f"reduce-trace source {name}: no prepared/stacked events (hook not active?)")
    traces, skipped, seen = [], {}, set()
    for e in evs:
        sig = json.dumps({k: v for k, v in e.items() if k not in ("seq", "pid")}, sort_keys=True)
        if sig in seen:
            continue
        seen.add(sig)
        t, why = to_trace(e)
        if t is None:
            skipped[why] = skipped.get(why, 0) + 1
            continue
        if "bad" in t:
            chk.violation(f"ReduceTrace[{name}]: {t['bad']}", f"recorded provider is malformed: {t['bad']}", {"engine": "reduce-trace", "events": [e]})
            continue
        t["event"] = e
        traces.append(t)
    chk.extra.setdefault("reduce_trace_skipped", {})[name] = skipped
    if not traces:
        return 0
    verdict, res = validate(traces)
    chk.add_tlc(res, f"ReduceTrace[{name}]")
    if not verdict:
        tid, b = res.get("inv_trace") or (0, 0)
        t = traces[tid - 1] if tid else None
        chk.violation(f"ReduceTrace[{name}]: invariant {res['violated']}",
                      f"recorded reduction violates {res['violated']} at block {b - 1}: {json.dumps(t['blocks'][max(0, b - 2)] if t else None)[:500]}",
                      {"engine": "reduce-trace", "events": [t["event"]] if t else []})
        return len(traces)
    for t, v in zip(traces, verdict):
        chk.traces += 1
        chk.evaluations += len(t["blocks"])
        if any(b["reduced"] != b["full"] for b in t["blocks"]):
            chk.nontriv(("reduce-trace", name, json.dumps(t["blocks"])[:2000], json.dumps(t["c"])))
        if v != 0:
            if v > len(t["blocks"]):
                what = f"number_of_clps {t['nclps']} is not the number of reduced labels over all blocks ({sum(len(b['reduced']) for b in t['blocks'])})"
                key = f"ReduceTrace[{name}]: number_of_clps ({t['kind']})"
            else:
                b = t["blocks"][v - 1]
                what = (f"block {v} ({'+'.join(b['who'])} at coordinate {b['g']}/{t['scale']}): recorded full={b['full']} reduced={b['reduced']} is not what "
                        f"ReduceLabels derives from members' labels {b['memberfull']} and items {json.dumps(t['c'])}")
                key = f"ReduceTrace[{name}]: {t['kind']} items={json.dumps(t['c'], sort_keys=True)[:300]} full={b['full']}"
            chk.violation(key, f"recorded reduction is not a behaviour of ReduceTrace.tla: {what}", {"engine": "reduce-trace", "events": [t["event"]]})
    t = max(traces, key=lambda t: sum(b["reduced"] != b["full"] for b in t["blocks"]))
    chk.sample({"trace_source": name, "kind": t["kind"], "items": t["c"], "blocks": [{k: b[k] for k in ("g", "full", "reduced")} for b in t["blocks"][:4]], "scale": t["scale"]})
    return len(traces)


def run(chk: Check, tier: str):
    n = 150 if tier == "quick" else 2500
    ev = record(py("-m", "harness.drivers_reduce", str(seed()), str(n)))
    check_events(chk, "driver", ev)
    tests = ["glotaran/optimization/test/test_relations.py", "glotaran/optimization/test/test_constraints.py", "glotaran/optimization/test/test_penalties.py",
             "glotaran/optimization/test/test_matrix_provider.py", "glotaran/optimization/test/test_estimation_provider.py", "glotaran/optimization/test/test_multiple_goups.py"]
    if tier == "thorough":
        tests = ["glotaran/optimization/test", "glotaran/builtin/megacomplexes", "glotaran/project/test", "glotaran/simulation"]
    ev2 = record(pytest_cmd(*tests), cwd=str(REPO), must_succeed=False)
    check_events(chk, "repo-tests", ev2)
    # binding self-test: a reduced label put back / a label dropped must be rejected
    good = [t for t in (to_trace(e)[0] for e in ev if e.get("ev") in ("prepared", "stacked")) if t and "bad" not in t and any(b["reduced"] != b["full"] for b in t["blocks"])][:6]
    if not good:
        raise MachineryError("reduce-trace binding self-test: the driver recorded no reduction")
    bad = json.loads(json.dumps(good))
    for t in bad:
        b = next(b for b in t["blocks"] if b["reduced"] != b["full"])
        b["reduced"] = list(b["full"])                  # "the constraint / relation was not applied at this index"
        t["nclps"] = -1
    verdict, _ = validate(bad)
    if any(v == 0 for v in verdict):
        raise MachineryError("reduce-trace binding self-test failed: a recorded provider with an unapplied item was accepted")
    chk.extra["reduce_trace_binding_selftest"] = f"{len(bad)} corrupted providers rejected"


def replay(chk: Check, r):
    check_events(chk, "replay", r["events"])
