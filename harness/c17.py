"""C17 — models, schemes, datasets and results survive persistence unchanged.

spec/Persist.tla is model-checked (RefsRelative, LoadAfterMove, LoadSaveIdentity, ...) over all histories up to a bounded
length of SaveResult(options) / LoadResult / MoveFolder / ChangeCwd (family "results") and SaveModel / LoadModel /
SaveDataset(fmt) / LoadDataset / SaveScheme / LoadScheme (family "parts") with absolute and relative, file and folder targets.
Every transition TLC explores is executed on the real save_* / load_* functions in a temp tree (one re-executed history per
distinct transition) and after EVERY step the real file set, the references stored in result.yml / scheme.yml / s.yml and, at
loads, the loaded values are compared with the specified state.  Content sweeps (harness/c17_content.py) push generated models,
results of small real optimisations and datasets through the same actions and compare values with the harness's own projection.
"""
from __future__ import annotations

import json
import math
import multiprocessing as mp
import os
import random
import traceback

from .core import Check, MachineryError, seed
from .tlc import printed_json, require_actions, run_tlc

INVARIANTS = ["TypeOK", "RefsRelative", "LoadAfterMove", "LoadSaveIdentity", "FreshSchemeLoads", "NoAbsoluteRefs"]
PROPERTIES = ["SaveKeepsMemory"]


def _s(xs):
    return "{" + ", ".join(f'"{x}"' for x in xs) + "}"


def _b(x):
    return "TRUE" if x else "FALSE"


def cfg(c: dict, emit=False) -> str:
    lines = ["SPECIFICATION Spec", "CONSTANTS", f"  Locs = {_s(c['locs'])}", f"  MoveLocs = {_s(c['movelocs'])}", f"  Cwds = {_s(c['cwds'])}",
             f"  Kinds = {_s(c['kinds'])}", f"  OptNames = {_s(c['opts'])}", f"  DataFormats = {_s(c['formats'])}",
             f"  WithResults = {_b(c['family'] == 'results')}", f"  WithParts = {_b(c['family'] == 'parts')}",
             f"  WithMove = {_b(c['move'])}", f"  MaxOps = {c['maxops']}", "CHECK_DEADLOCK FALSE"]
    if emit:
        lines.append("ACTION_CONSTRAINT Emit")
    else:
        lines += [f"INVARIANT {i}" for i in INVARIANTS] + [f"PROPERTY {p}" for p in PROPERTIES]
    return "\n".join(lines) + "\n"


CONFIGS = {
    "quick": [
        dict(name="results/3", family="results", locs=["A", "B"], movelocs=["C"], cwds=["root", "sub"], kinds=["abs_file", "rel_file"],
             opts=["default", "minimal"], formats=["nc"], move=True, maxops=3),
        dict(name="parts/3", family="parts", locs=["A", "B"], movelocs=[], cwds=["root", "sub"], kinds=["abs_file", "rel_file"],
             opts=["default"], formats=["nc", "ascii"], move=False, maxops=3),
    ],
    "thorough": [
        dict(name="results/4-all-options", family="results", locs=["A", "B"], movelocs=["C"], cwds=["root", "sub", "A"],
             kinds=["abs_file", "rel_file", "rel_dir"], opts=["default", "minimal", "filter", "noreport"], formats=["nc"], move=True, maxops=4),
        dict(name="results/5", family="results", locs=["A", "B"], movelocs=["C"], cwds=["root", "sub"], kinds=["abs_file", "rel_file"],
             opts=["default", "minimal"], formats=["nc"], move=True, maxops=5),
        dict(name="parts/4", family="parts", locs=["A", "B"], movelocs=["C"], cwds=["root", "sub"], kinds=["abs_file", "rel_file"],
             opts=["default"], formats=["nc", "ascii"], move=False, maxops=4),
        dict(name="parts/5", family="parts", locs=["A", "B"], movelocs=[], cwds=["root", "sub"], kinds=["abs_file", "rel_file"],
             opts=["default"], formats=["nc"], move=False, maxops=5, sample=6000),
    ],
}


# ------------------------------------------------------------------------------------------------ graph
def view_key(v) -> str:
    return json.dumps([sorted(map(tuple, v["files"])), sorted(map(tuple, v["refs"])), v["mem"], v["cwd"]], sort_keys=True)


def plan_paths(raw_edges, avoid=frozenset(), only=None):
    """Deduplicate TLC's transitions on the view (files, refs, mem, cwd) and give every distinct transition one history:
    the BFS-shortest history to its source state followed by the transition itself.  `avoid`: (src, act) keys of transitions that
    must not be used as PREFIX steps (they mismatched on the real code: a history through them cannot examine what follows);
    `only`: restrict the returned histories to these (src, act) keys; transitions whose source is unreachable without the avoided
    ones are left out."""
    edges = {}
    for e in raw_edges:
        k = (view_key(e["pre"]), json.dumps(e["act"], sort_keys=True))
        if k not in edges:
            edges[k] = {"src": k[0], "dst": view_key(e["post"]), "act": e["act"], "post": e["post"], "loaded": e["loaded"], "depth": e["depth"]}
    out = {}
    for (src, _), e in edges.items():
        out.setdefault(src, []).append(e)
    init = min(edges.values(), key=lambda e: e["depth"])["src"]
    parent = {init: None}
    queue = [init]
    while queue:
        s = queue.pop(0)
        for e in out.get(s, ()):
            if (e["src"], json.dumps(e["act"], sort_keys=True)) in avoid:
                continue
            if e["dst"] not in parent:
                parent[e["dst"]] = (s, e)
                queue.append(e["dst"])
    paths = []
    for e in edges.values():
        if only is not None and (e["src"], json.dumps(e["act"], sort_keys=True)) not in only:
            continue
        if e["src"] not in parent:
            if avoid:
                continue
            raise MachineryError("transition whose source state is unreachable from the initial state in the emitted graph")
        prefix = []
        s = e["src"]
        while parent[s] is not None:
            s, pe = parent[s]
            prefix.append(pe)
        paths.append(list(reversed(prefix)) + [e])
    return paths, len(parent)


# ------------------------------------------------------------------------------------------------ replay of one history
def history_features(path) -> str:
    """Stable, location-free description of what a history contains (used in violation keys of loads)."""
    ops = [e["act"]["op"] for e in path]
    f = []
    if "MoveFolder" in ops:
        f.append("moved")
    if "ChangeCwd" in ops:
        f.append("cwd-changed")
    return "+".join(f) or "plain"


def replay_history(family: str, path, orig=None, make_result=None):
    """Execute the history on the real code; compare after every step.  -> (violations [(key, what)], steps)"""
    from . import c17_world as W
    world = W.World(family, orig=orig, make=make_result)
    viols = []
    steps = 0
    try:
        for i, e in enumerate(path):
            act = e["act"]
            label = act["op"] + (f" {act['arg']}" if act["op"] in ("SaveDataset", "LoadDataset") else "")
            filt = act["op"] == "SaveResult" and act["arg"] in ("minimal", "filter")
            hist = " ; ".join(f"{x['act']['op']}({','.join(v for v in (x['act']['loc'], x['act']['kind'], x['act']['arg']) if v)})" for x in path[:i + 1])
            steps += 1
            try:
                world.execute(act)
            except Exception as ex:  # noqa: BLE001
                tb = traceback.extract_tb(ex.__traceback__)
                site = next((f"{os.path.basename(fr.filename)}:{fr.name}" for fr in reversed(tb) if "/glotaran/" in fr.filename), "?")
                first = str(ex).splitlines()[0][:200] if str(ex) else ""
                prior_loaded = any(x["act"]["op"] in ("LoadResult", "LoadScheme") for x in path[:i])
                qual = ("after-load" if prior_loaded else "fresh") if act["op"].startswith("Save") else history_features(path[:i + 1])
                viols.append((f"Persist[{label}{' data_filter' if filt else ''}]: raises {type(ex).__name__} at {site} ({qual})",
                              f"history {hist}: the specification enables this step, the code raises {type(ex).__name__}: {first}"))
                break
            files, refs, problems = world.observe()
            # (data_nc_ascii = a netCDF file holding values that went through an ascii file: same file name, judged at loads)
            want_files = {(l, n, "data_nc" if t == "data_nc_ascii" else t) for (l, n, t) in map(tuple, e["post"]["files"])}
            want_refs = {tuple(x) for x in e["post"]["refs"]}
            for p in problems:
                viols.append((f"Persist[{label}]: {p.split(':')[0] if ':' in p else p}", f"history {hist}: {p}"))
            if files != want_files:
                extra = sorted(f"{n}={t}" for (l, n, t) in files - want_files)
                missing = sorted(f"{n}={t}" for (l, n, t) in want_files - files)
                viols.append((f"Persist[{label}{' data_filter' if filt else ''}]: files differ: unexpected {extra} missing {missing}",
                              f"history {hist}: files on disk {sorted(files - want_files)} not specified, specified {sorted(want_files - files)} not on disk"))
            if refs != want_refs:
                got_by = {(l, h, f): (k, l2, n) for (l, h, f, k, l2, n) in refs}
                want_by = {(l, h, f): (k, l2, n) for (l, h, f, k, l2, n) in want_refs}
                for key3 in sorted(set(got_by) | set(want_by)):
                    g, w = got_by.get(key3), want_by.get(key3)
                    if g == w:
                        continue
                    gk = g[0] if g else "missing"
                    wk = w[0] if w else "none"
                    same_kind = gk == wk
                    detail = "points to another file" if same_kind else f"is {_refword(gk)}, specified {_refword(wk)}"
                    prior_loaded = any(x["act"]["op"] in ("LoadResult", "LoadScheme") for x in path[:i])
                    viols.append((f"Persist[{label}{' data_filter' if filt else ''}]: {key3[1]} field {key3[2]}: stored reference {detail}"
                                  f"{' (object loaded from a file before)' if prior_loaded and not filt else ''}",
                                  f"history {hist}: {key3[0]}/{key3[1]} stores {key3[2]} = {_refstr(g)}, specified {_refstr(w)}"))
            if viols:
                break       # later steps would only repeat the consequence
            if act["op"] == "LoadResult":
                tok = e["loaded"]["data"]
                for field, diffs in W.result_diff(world.orig, world.result, tok).items():
                    viols.append((f"Persist[LoadResult]: {field} not equal to what was saved",
                                  f"history {hist}: {field}: " + "; ".join(diffs[:6]) + (f" (+{len(diffs) - 6} more)" if len(diffs) > 6 else "")))
                if os.path.normpath(str(world.result.source_path)) != os.path.normpath(world.target(act["loc"], act["kind"], "result.yml")):
                    viols.append(("Persist[LoadResult]: source_path of the loaded result is not the path it was loaded from",
                                  f"history {hist}: source_path {world.result.source_path!r}"))
            elif act["op"] == "LoadScheme":
                sch = world.loaded_scheme
                d = {"model": W.model_diff(world.ref_model, sch.model), "parameters": W.parameters_diff(world.ref_params, sch.parameters)}
                d["data"] = _data_diff(W, world.ref_dataset, sch.data["d1"], e["loaded"]["data"])
                for field, diffs in d.items():
                    if diffs:
                        viols.append((f"Persist[LoadScheme]: {field} not equal to what was saved" + (f" ({e['loaded']['data']})" if field == "data" else ""),
                                      f"history {hist}: {field}: " + "; ".join(diffs[:6])))
            elif act["op"] == "LoadModel":
                diffs = W.model_diff(world.ref_model, world.model)
                if diffs:
                    viols.append(("Persist[LoadModel]: model not equal to what was saved", f"history {hist}: " + "; ".join(diffs[:6])))
            elif act["op"] == "LoadDataset":
                tok = next(t for (l, n, t) in map(tuple, e["post"]["files"]) if l == act["loc"] and n == "data." + act["arg"])
                diffs = _data_diff(W, world.ref_dataset, world.dataset, tok)
                if diffs:
                    viols.append((f"Persist[LoadDataset {act['arg']}]: dataset not equal to what was saved", f"history {hist}: " + "; ".join(diffs[:6])))
            if viols:
                break
    finally:
        world.close()
    return viols, steps, len(path) - steps


def _refword(k):
    return {"rel": "relative inside the folder", "up": "relative, leaving the folder (../x/..)", "abs": "absolute", "none": "absent",
            "missing": "absent", "other": "an unexpected relative path", "nonposix": "not posix", "notastring": "not a path string"}.get(k, k)


def _refstr(r):
    if r is None:
        return "nothing"
    k, loc, name = r
    return {"rel": name, "up": f"../{loc}/{name}", "abs": f"<absolute>/{name}"}.get(k, f"{k}:{name}")


def _data_diff(W, want, got, token):
    if token == "data_nc":
        return W.dataset_diff(want, got)
    from .c17_content import ascii_diff
    return ascii_diff(want.data, got)


# ------------------------------------------------------------------------------------------------ workers
_ORIG = None


def _history_worker(args):
    family, paths = args
    global _ORIG
    from . import c17_world as W
    if family == "results" and _ORIG is None:
        _ORIG = W.make_result()
    res = []
    for idx, path in paths:
        viols, steps, skipped = replay_history(family, path, orig=_ORIG)
        res.append((idx, viols, steps, skipped))
    return res


def _pool_map(fn, jobs, procs):
    ctx = mp.get_context("fork")
    with ctx.Pool(max(1, procs)) as pool:       # always in child processes: the replay changes the working directory
        return pool.map(fn, jobs, chunksize=1)


def _chunks(seq, n):
    k = max(1, math.ceil(len(seq) / max(1, n)))
    return [seq[i:i + k] for i in range(0, len(seq), k)]


# ------------------------------------------------------------------------------------------------ run
def run(tier: str, replay=None) -> int:
    chk = Check("C17", tier)
    rng = random.Random(seed())
    chk.rule = ("histories: every transition of the TLC state graph of spec/Persist.tla (deduplicated on files, references, memory, "
                "working directory) is executed once at the end of a re-executed shortest history, all steps compared; "
                "evaluation = one executed step or one content case; non-trivial history = it contains a MoveFolder or a ChangeCwd; "
                "content cases are non-trivial by construction (every generated model has tuple keys, intervals and unset fields; "
                "datasets are non-square); distinct = distinct (source state, action) / distinct generated object")
    chk.assumptions = [
        "D9: after a model round trip sequences are compared as sequences (tuple = list); the meaning of an interval is checked through the objective",
        "D10: the target of a save is the path passed by the caller; sibling files of a result save are part of its output",
        "value equality is the harness's projection: parameters field by field (order, NaN = NaN, floats bit-equal), histories and "
        "statistics bit-equal, datasets variable by variable (dims, dtype, bits, coordinates, attributes other than source_path/loader)",
        "a component whose source path was spelled relative to an OLD working directory is not judged until it is saved or loaded again "
        "(ChangeCwd resets it in the specification): the property is silent there",
        "scheme files (s.yml) outside result folders are claimed by the property's title only (schemes survive persistence); their "
        "references may leave the folder (../x/file) but must resolve from the scheme file's folder whatever the working directory",
        "SavingOptions: data_filter in {None, [fitted_data, residual]} x report in {True, False}; data_format nc and parameter_format "
        "csv are the only values their Literal types admit",
        "ASCII: values compared to the written precision (%.10e -> 1e-9 relative, absolute 1e-10 of the largest magnitude), axes likewise",
        "objective equality: the penalty vector of glotaran.optimization.optimizer.Optimizer(scheme).objective_function at the initial "
        "parameters, bit-equal between the generated and the reloaded model on the same data",
        "trusted: TLC, CommunityModules Json, ruamel.yaml (used by the harness only to read the stored references), xarray/netCDF4 "
        "for reading files back, CPython",
    ]
    procs = max(1, min(12, (os.cpu_count() or 2) - 2))
    if replay:
        return _replay_one(chk, replay)

    from . import c17_world as W
    global _ORIG
    _ORIG = W.make_result()          # compiles the numba kernels once, before the workers fork
    from .c16 import Collector
    col = Collector()           # one representative (with replay dict) per key is handed to the Check first
    for c in CONFIGS[tier]:
        res = run_tlc("Persist", cfg(c), workers=procs, timeout=1500)
        need = ["SaveResult", "LoadResult", "ChangeCwd"] + (["MoveFolder"] if c["move"] else []) if c["family"] == "results" else \
               ["SaveModel", "LoadModel", "SaveDataset", "LoadDataset", "SaveScheme", "LoadScheme", "ChangeCwd"]
        require_actions(res, need)
        chk.add_tlc(res, f"Persist[{c['name']}]")
        em = run_tlc("PersistEmit", cfg(c, emit=True), workers=1, timeout=1500, coverage=False, heap="6g")
        raw = printed_json(em["stdout"], "EDGE")
        if len(raw) + 1 != em["generated"] or em["generated"] != res["generated"]:
            raise MachineryError(f"edge emission incomplete for {c['name']}: {len(raw)} edges parsed, TLC generated {em['generated']} / {res['generated']} states")
        paths, nstates = plan_paths(raw)
        chk.extra.setdefault("graphs", []).append({"config": c["name"], "tlc_transitions": len(raw), "distinct_transitions": len(paths), "view_states": nstates})
        order = list(range(len(paths)))
        rng.shuffle(order)
        if c.get("sample") and len(order) > c["sample"]:
            # the deepest graph is replayed on a seeded sample of its transitions (all its transitions are model-checked)
            order = order[:c["sample"]]
            chk.exhaustive = False
            chk.extra["graphs"][-1]["replayed_transitions"] = len(order)
        jobs = [(c["family"], [(i, paths[i]) for i in ch]) for ch in _chunks(order, procs * 3)]
        ekey = lambda e: (e["src"], json.dumps(e["act"], sort_keys=True))
        bad, cut = set(), set()
        for part in _pool_map(_history_worker, jobs, procs):
            for idx, viols, steps, skipped in part:
                path = paths[idx]
                chk.evaluations += steps
                chk.traces += 1
                if skipped:
                    # the history was cut at a prefix step that mismatched (a known finding, usually): its last transition is re-examined
                    # below at the end of a history that avoids the mismatching transitions
                    bad.add(ekey(path[steps - 1]))
                    cut.add(ekey(path[-1]))
                if any(e["act"]["op"] in ("MoveFolder", "ChangeCwd") for e in path):
                    chk.nontriv("h:" + c["family"] + json.dumps([e["act"] for e in path], sort_keys=True))
                for key, what in viols:
                    col.add(key, what, {"engine": "c17-history", "family": c["family"], "path": path})
        re_done = 0
        for _round in range(6):
            if not cut:
                break
            paths2, _ = plan_paths(raw, avoid=frozenset(bad), only=cut)
            unreachable = len(cut) - len(paths2)
            if unreachable:
                chk.skip(f"{c['name']}: transitions whose source state is reachable only through a mismatching transition (known finding)", unreachable)
            if not paths2:
                cut = set()
                break
            jobs2 = [(c["family"], [(i, paths2[i]) for i in ch]) for ch in _chunks(list(range(len(paths2))), procs * 3)]
            cut = set()
            for part in _pool_map(_history_worker, jobs2, procs):
                for idx, viols, steps, skipped in part:
                    path = paths2[idx]
                    chk.evaluations += steps
                    if skipped:
                        bad.add(ekey(path[steps - 1]))
                        cut.add(ekey(path[-1]))
                        continue          # the mismatch of the prefix step is already reported by that transition's own history
                    re_done += 1
                    for key, what in viols:
                        col.add(key, what, {"engine": "c17-history", "family": c["family"], "path": path})
        if cut:
            chk.skip(f"{c['name']}: transitions not examined after 6 rounds of alternative histories", len(cut))
        chk.extra["graphs"][-1]["re_examined_on_alternative_histories"] = re_done
        for i in (0, len(paths) // 2, len(paths) - 1):
            chk.sample({"config": c["name"], "history": [p["act"] for p in paths[i]], "specified_refs_after": paths[i][-1]["post"]["refs"][:4],
                        "specified_loaded": paths[i][-1]["loaded"]})
    import time
    chk.extra["histories_wall_s"] = round(time.time() - chk.t0, 1)
    chk.extra["histories_exhaustive"] = bool(chk.exhaustive and not chk.skipped)
    from . import c17_content
    c17_content.run(chk, tier, rng, procs, col)
    col.flush(chk)
    chk.exhaustive = False      # the state graphs are replayed completely (see histories_exhaustive); the generated models are a sample
    return chk.finish()


def _replay_one(chk: Check, rp: dict) -> int:
    r = rp["replay"]
    if r["engine"] == "c17-history":
        part = _pool_map(_history_worker, [(r["family"], [(0, r["path"])])], 1)
        for idx, viols, steps, skipped in part[0]:
            chk.evaluations += steps
            chk.traces += 1
            for key, what in viols:
                chk.violation(key, what, r)
    else:
        from . import c17_content
        c17_content.replay(chk, r)
    chk.sample({k: v for k, v in r.items() if k != "path"} | ({"history": [e["act"] for e in r["path"]]} if "path" in r else {}))
    return chk.finish()
