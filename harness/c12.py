"""C12 — expression parameters always equal their expression.

spec/ParamExpr.tla is model-checked (all definitions over a small grammar x every declaration
order, invariants Consistent / WellFormed, action properties Idempotent / PlainKept); the
design-level mutant "one pass in declaration order" must be refuted by TLC (the invariant can
reject).  Every transition TLC explores in the emission configurations (ParamExprEmit.tla,
partitioned over processes) is executed on the real glotaran.parameter.Parameters and the
values of ALL parameters are compared exactly after every step; random behaviours with 5-6
parameters come from tlc -simulate (ParamExprSim.tla).  code -> spec: real fits whose
parameters contain chains of expressions in adverse declaration orders; every history row is
checked against the driver's own expression ASTs through spec/FitTrace.tla (see c11_fits.py).
"""
from __future__ import annotations

import json
import os
import shutil
import tempfile
from collections import defaultdict, deque
from concurrent.futures import ProcessPoolExecutor
from multiprocessing import get_context
from pathlib import Path

from .core import Check, MachineryError, seed
from .tlc import printed_json, require_actions, run_tlc

ALL_UN = ["addc", "mulc", "sqrt", "sq"]
ALL_BIN = ["add", "sub", "mul", "max"]
ALL_BUILDERS = ["list", "dict", "yml_list", "yml_dict", "csv_list", "csv_dict", "df_perm"]
RUN_ACTIONS = ["Construct", "SetFree", "Update", "Arrays", "Copy", "SaveLoad"]


def _set(xs, quote=True):
    return "{" + ", ".join((f'"{x}"' if quote else str(x)) for x in xs) + "}"


def cfg(c: dict, mode: str, heads=None, tops=None, algo="spec", maxhist=None) -> str:
    n = c["N"]
    lines = ["SPECIFICATION " + ("SimSpec" if mode == "sim" else "Spec"), "CONSTANTS", f"  N = {n}",
             f"  PlainVals = {_set(c['plain'], False)}", f"  FreeVals = {_set(c['free'], False)}",
             f"  UnOps = {_set(c['un'])}", f"  BinOps = {_set(c['bin'])}", f"  Builders = {_set(c['builders'])}",
             f"  Formats = {_set(c['formats'])}", f'  Algo = "{algo}"',
             f"  OrderHeads = {_set(heads or range(1, n + 1), False)}",
             f"  TopOps = {_set(tops or (['plain'] + ALL_UN + ALL_BIN))}"]
    if mode == "sim":
        lines.append(f"  MaxHist = {maxhist}")
    lines.append("CHECK_DEADLOCK FALSE")
    if mode == "sim":
        lines += ["INVARIANT Consistent", "ACTION_CONSTRAINT EmitBehaviour"]
    elif mode == "emit":
        lines += ["VIEW View", "ACTION_CONSTRAINT Emit"]
    else:
        lines += ["VIEW View", "INVARIANT TypeOK", "INVARIANT Consistent", "INVARIANT WellFormed",
                  "PROPERTY PlainKept", "PROPERTY Idempotent"]
    return "\n".join(lines) + "\n"


# ------------------------------------------------------------------------- real-code side
def label(k: int, nested: bool) -> str:
    if not nested:
        return f"p{k}"
    return f"a{k}.x" if k % 2 else f"b{k}.c.y"


def expr_text(d, lab) -> str | None:
    op, a, b, _ = d
    if op == "plain":
        return None
    A = "$" + lab[a]
    B = "$" + lab[b] if b else ""
    return {"addc": f"{A} + 1", "mulc": f"2 * {A}", "sqrt": f"sqrt(square({A}))", "sq": f"{A}**2", "add": f"{A} + {B}", "sub": f"{A} - {B}",
            "mul": f"{A} * {B}", "max": f"maximum({A}, {B})"}[op]


def shape(defs) -> str:
    return ";".join("plain" if d[0] == "plain" else (f"{d[0]}({d[1]})" if not d[2] else f"{d[0]}({d[1]},{d[2]})") for d in defs)


def forward_expr_ref(defs, order) -> bool:
    """some expression references an expression parameter that is declared later"""
    pos = {p: i for i, p in enumerate(order)}
    for k, d in enumerate(defs, start=1):
        if d[0] == "plain":
            continue
        for r in (d[1], d[2]):
            if r and defs[r - 1][0] != "plain" and pos[r] > pos[k]:
                return True
    return False


def case_key(defs, order) -> str:
    kind = "forward-expr-ref" if forward_expr_ref(defs, order) else "no-forward-ref"
    return f"ParamExpr: {kind} shape=[{shape(defs)}] order={list(order)}"


class Real:
    """One parameter set (defs, order) on the real code."""

    def __init__(self, defs, order, tmp: Path):
        self.defs = [tuple(d) for d in defs]
        self.order = list(order)
        self.n = len(defs)
        self.tmp = tmp
        self.counter = 0
        self.nested = False
        self.lab = {}
        self.texts = {}
        self.p = None

    def _entries(self, nested: bool, with_value: bool):
        self.nested = nested
        self.lab = {k: label(k, nested) for k in range(1, self.n + 1)}
        self.texts = {k: expr_text(self.defs[k - 1], self.lab) for k in range(1, self.n + 1)}
        out = []
        for k in self.order:
            d = self.defs[k - 1]
            if d[0] == "plain":
                out.append((k, [float(d[3])]))
            elif with_value:
                out.append((k, [0.0, {"expr": self.texts[k]}]))
            else:
                out.append((k, [{"expr": self.texts[k]}]))
        return out

    def _list_spec(self, with_value):
        return [[self.lab[k], *rest] for k, rest in self._entries(False, with_value)]

    def _dict_spec(self, with_value):
        spec: dict = {}
        for k, rest in self._entries(True, with_value):
            parts = self.lab[k].split(".")
            node = spec
            for part in parts[:-2]:
                node = node.setdefault(part, {})
            node.setdefault(parts[-2], []).append([parts[-1], *rest])
        return spec

    def _file(self, ext):
        self.counter += 1
        return str(self.tmp / f"p{os.getpid()}_{self.counter}.{ext}")

    def construct(self, builder: str):
        from glotaran.io import load_parameters, save_parameters
        from glotaran.parameter import Parameters
        if builder == "list":
            self.p = Parameters.from_list(self._list_spec(False))
        elif builder == "dict":
            self.p = Parameters.from_dict(self._dict_spec(True))
        elif builder == "yml_list":
            self.p = load_parameters(json.dumps(self._list_spec(True)), format_name="yml_str")
        elif builder == "yml_dict":
            self.p = load_parameters(json.dumps(self._dict_spec(False)), format_name="yml_str")
        elif builder in ("csv_list", "csv_dict"):
            q = Parameters.from_list(self._list_spec(False)) if builder == "csv_list" else Parameters.from_dict(self._dict_spec(False))
            f = self._file("csv")
            save_parameters(q, f, format_name="csv")
            self.p = load_parameters(f, format_name="csv")
            os.unlink(f)
        elif builder == "df_perm":
            # a table whose rows were re-ordered by the user (sort / reverse / sample keep the index labels): rows are positional
            saved = self.order
            self.order = list(reversed(saved))
            try:
                q = Parameters.from_list(self._list_spec(False))
            finally:
                self.order = saved
            self.p = Parameters.from_dataframe(q.to_dataframe().iloc[::-1])
        else:
            raise MachineryError(f"unknown builder {builder}")

    # -------------------------------------------------------------- observation / fork
    def values(self):
        return [self.p.get(self.lab[k]).value for k in range(1, self.n + 1)]

    def restore(self, obj, vals):
        self.p = obj
        for k in range(1, self.n + 1):
            obj.get(self.lab[k]).value = vals[k - 1]

    def plain_in_order(self):
        return [k for k in self.order if self.defs[k - 1][0] == "plain"]

    def definitions_ok(self):
        for k in range(1, self.n + 1):
            par = self.p.get(self.lab[k])
            if par.expression != self.texts[k]:
                return f"parameter {self.lab[k]}: expression is {par.expression!r}, declared {self.texts[k]!r}"
            if self.texts[k] is not None and par.vary:
                return f"expression parameter {self.lab[k]} has vary=True"
        got = [q.label for q in self.p.all()]
        want = [self.lab[k] for k in self.order]
        if got != want:
            return f"declaration order changed: {got}, declared {want}"
        return None

    def execute(self, op: str, arg: str, post):
        """returns a list of mismatch descriptions other than the parameter values (compared by the caller)"""
        import numpy as np
        from glotaran.io import load_parameters, save_parameters
        bad = []
        if op == "construct":
            self.construct(arg)
        elif op == "setfree":
            ks = self.plain_in_order()
            self.p.set_from_label_and_value_arrays([self.lab[k] for k in ks], np.array([float(post[k - 1]) for k in ks]))
        elif op == "update":
            self.p.update_parameter_expression()
        elif op == "arrays":
            labels, vals, _, _ = self.p.get_label_value_and_bounds_arrays()
            want_l = [self.lab[k] for k in self.order]
            want_v = [float(post[k - 1]) for k in self.order]
            if list(labels) != want_l or not _same(list(vals), want_v):
                bad.append(f"get_label_value_and_bounds_arrays() returned {list(labels)} {[float(v) for v in vals]}, specification says {want_l} {want_v}")
            l2, v2, _, _ = self.p.get_label_value_and_bounds_arrays(exclude_non_vary=True)
            ks = self.plain_in_order()
            if list(l2) != [self.lab[k] for k in ks] or not _same(list(v2), [float(post[k - 1]) for k in ks]):
                bad.append(f"get_label_value_and_bounds_arrays(exclude_non_vary=True) returned {list(l2)} {[float(v) for v in v2]}, "
                           f"specification says {[self.lab[k] for k in ks]} {[float(post[k - 1]) for k in ks]}")
        elif op == "copy":
            # the copy continues; a sibling copy is moved to other free values, which must change neither the original nor the first copy
            orig = self.p
            self.p = orig.copy()
            sib = orig.copy()
            ks = self.plain_in_order()
            if ks:
                sib.set_from_label_and_value_arrays([self.lab[k] for k in ks], np.array([float(post[k - 1]) + 2.0 for k in ks]))
            got = [orig.get(self.lab[k]).value for k in range(1, self.n + 1)]
            if not _same(got, [float(x) for x in post]):
                bad.append(f"updating a copy changed the values of the object it was copied from: {[float(g) for g in got]}, specification says {[float(x) for x in post]}")
        elif op == "saveload":
            f = self._file(arg)
            save_parameters(self.p, f, format_name=arg)
            self.p = load_parameters(f, format_name=arg)
            os.unlink(f)
        else:
            raise MachineryError(f"unknown operation {op}")
        d = self.definitions_ok()
        if d:
            bad.append(d)
        return bad


def _same(got, want) -> bool:
    return len(got) == len(want) and all(float(g) == float(w) for g, w in zip(got, want))


class Outcome:
    """Picklable result of one shard."""

    def __init__(self):
        self.evaluations = 0
        self.edges = 0
        self.cases = 0
        self.nontriv: set = set()
        self.violations: list = []
        self.nviol = 0
        self.skipped = 0
        self.samples: list = []
        self.tlc: list = []

    def violation(self, key, what, replay):
        self.nviol += 1
        if len(self.violations) < 400:
            self.violations.append((key, what, replay if len(self.violations) < 8 else None))


def run_edge(real: Real, out: Outcome, defs, order, path, e) -> bool:
    """execute edge e = [op, arg, pre, post] on real (already in state pre); compare; True iff conforming"""
    op, arg, pre, post = e
    out.evaluations += 1
    out.edges += 1
    key = f"{case_key(defs, order)} at {op}"
    rep = {"engine": "c12-edge", "defs": [list(d) for d in defs], "order": list(order), "path": path, "edge": e}
    try:
        bad = real.execute(op, arg, post)
        got = real.values()
    except MachineryError:
        raise
    except Exception as ex:  # noqa: BLE001
        out.violation(key, f"{op}({arg}) raised {type(ex).__name__}: {ex}", rep)
        return False
    ok = True
    if not _same(got, post):
        lab = [real.lab[k] for k in range(1, real.n + 1)]
        decl = [[real.lab[k], real.texts[k] or float(defs[k - 1][3])] for k in order]
        out.violation(key, f"after {op}({arg}) from values {list(pre)}: parameters {lab} have values {[float(g) for g in got]}, every expression "
                      f"evaluated on the current values gives {[float(x) for x in post]}; declared (in this order) {decl}", rep)
        ok = False
    for b in bad:
        out.violation(key + " [api]", f"after {op}({arg}): {b}", rep)
        ok = False
    return ok


def replay_case(out: Outcome, defs, order, edges, rot: int, tmp: Path):
    """edges of one (defs, order): constructs first (every builder), then BFS over value states with one live object"""
    out.cases += 1
    ck = case_key(defs, order)
    if forward_expr_ref(defs, order):
        out.nontriv.add(ck + " plain=" + ",".join(str(d[3]) for d in defs if d[0] == "plain"))
    cons = [e for e in edges if e[0] == "construct"]
    cons = cons[rot % len(cons):] + cons[:rot % len(cons)]
    by_src = defaultdict(list)
    for e in edges:
        if e[0] != "construct":
            by_src[tuple(e[2])].append(e)
    live = None
    for e in cons:
        real = Real(defs, order, tmp)
        if run_edge(real, out, defs, order, [], e) and live is None:
            live = (real, e)
    nrun = sum(len(v) for v in by_src.values())
    if live is None:
        out.skipped += nrun
        return
    real, first = live
    obj = real.p
    s0 = tuple(first[3])
    snaps = {s0: (real.values(), [first])}
    queue = deque([s0])
    done = 0
    while queue:
        s = queue.popleft()
        vals, path = snaps[s]
        for e in by_src.get(s, ()):
            real.restore(obj, vals)
            ok = run_edge(real, out, defs, order, path, e)
            done += 1
            dst = tuple(e[3])
            if ok and dst not in snaps and e[0] in ("setfree", "update", "arrays"):
                snaps[dst] = (real.values(), path + [e])
                queue.append(dst)
        if out.cases % 397 == 1 and len(out.samples) < 2 and by_src.get(s) and s != s0:
            e = by_src[s][-1]
            out.samples.append({"declared_in_order": [[real.lab[k], real.texts[k] or float(defs[k - 1][3])] for k in order],
                                "built_by": first[1], "values_before": list(e[2]), "operation": e[0] + (f"({e[1]})" if e[1] else ""),
                                "values_after": list(e[3])})
    out.skipped += nrun - done


def group_cases(raw):
    cases: dict = {}
    for defs, order, op, arg, pre, post in raw:
        k = (json.dumps(defs), tuple(order))
        cases.setdefault(k, []).append([op, arg, pre, post])
    return [(json.loads(k[0]), list(k[1]), v) for k, v in cases.items()]


def shard(args) -> Outcome:
    """One partition: TLC emission run (single worker) + replay of every emitted edge."""
    c, heads, tops, idx = args
    out = Outcome()
    em = run_tlc("ParamExprEmit", cfg(c, "emit", heads, tops), workers=1, timeout=3000, coverage=False, heap="2g")
    raw = printed_json(em["stdout"], "E")
    out.tlc.append({"generated": em["generated"], "distinct": em["distinct"], "wall_s": em["wall_s"], "edges": len(raw)})
    del em
    tmp = Path(tempfile.mkdtemp(prefix="verif_c12_"))
    try:
        for i, (defs, order, edges) in enumerate(group_cases(raw)):
            replay_case(out, defs, order, edges, i + idx, tmp)
    finally:
        shutil.rmtree(tmp, ignore_errors=True)
    return out


def partitions(c, nedges: int):
    """split the enumeration by first element of the declaration order and, for large spaces, by the operator of rank N"""
    n = c["N"]
    tops = [["plain"]] + [[o] for o in c["un"] + c["bin"]]
    if nedges <= 60000 * n:
        return [([h], None) for h in range(1, n + 1)]
    return [([h], t) for h in range(1, n + 1) for t in tops]


def merge(chk: Check, outs, name: str, viol_total: dict):
    tot = Outcome()
    for o in outs:
        chk.evaluations += o.evaluations
        chk.traces += o.edges
        tot.edges += o.edges
        tot.cases += o.cases
        tot.skipped += o.skipped
        for k in o.nontriv:
            chk.nontriv(k)
        for key, what, rep in o.violations:
            chk.violation(key, what, rep)
        viol_total[name] = viol_total.get(name, 0) + o.nviol
        for s in o.samples:
            chk.sample(s, limit=4)
    if tot.skipped:
        chk.skip(f"{name}: edges not executed because the construction (or an earlier step) already mismatched", tot.skipped)
        chk.exhaustive = False
    return tot


def explore(chk: Check, c: dict, name: str, procs: int, viol_total: dict, check_workers=16):
    """model-check config c, then emit + replay all its run-phase edges, partitioned over processes"""
    res = run_tlc("ParamExpr", cfg(c, "check"), workers=check_workers, timeout=3000)
    need = ["Define", "Declare"] + [a for a in RUN_ACTIONS if a != "SaveLoad" or c["formats"]]
    require_actions(res, need)
    chk.add_tlc(res, f"ParamExpr[{name}]")
    want = sum(res["actions"].get(a, [0, 0])[1] for a in RUN_ACTIONS)
    parts = [(c, h, t, i) for i, (h, t) in enumerate(partitions(c, want))]
    if procs > 1 and len(parts) > 1:
        with ProcessPoolExecutor(max_workers=min(procs, len(parts)), mp_context=get_context("fork")) as ex:
            outs = list(ex.map(shard, parts))
    else:
        outs = [shard(p) for p in parts]
    tot = merge(chk, outs, name, viol_total)
    emitted = sum(t["edges"] for o in outs for t in o.tlc)
    if emitted != want:
        raise MachineryError(f"ParamExpr[{name}]: {emitted} edges emitted by the partitions, the unpartitioned run generated {want}")
    if tot.edges + tot.skipped != emitted:
        raise MachineryError(f"ParamExpr[{name}]: {tot.edges} edges replayed + {tot.skipped} skipped != {emitted} emitted")
    chk.extra.setdefault("replay", {})[name] = {"cases": tot.cases, "edges_emitted": emitted, "edges_replayed": tot.edges,
                                                 "edges_skipped_after_mismatch": tot.skipped,
                                                 "emission_wall_s": round(sum(t["wall_s"] for o in outs for t in o.tlc), 1)}


def refute_mutant(chk: Check):
    """the invariant must be able to reject: one pass in declaration order is refuted at the model level"""
    c = dict(N=3, plain=[1, 2, 3], free=[1, 3], un=["addc", "mulc"], bin=["add", "sub"], builders=["list"], formats=[])
    res = run_tlc("ParamExpr", cfg(c, "check", algo="onepass"), workers=4, timeout=600, allow_violation=True)
    if res["violated"] != "Consistent":
        raise MachineryError(f"design-level mutant 'one pass in declaration order' was not refuted by Consistent (violated={res['violated']})")
    chk.extra["model_level_mutant"] = "Algo=onepass (single pass in declaration order) refuted by invariant Consistent"


def simulate(chk: Check, n: int, num: int, viol_total: dict, formats):
    c = dict(N=n, plain=[1, 2, 3], free=[1, 3], un=ALL_UN, bin=ALL_BIN, builders=ALL_BUILDERS, formats=formats)
    maxhist = 4
    res = run_tlc("ParamExprSim", cfg(c, "sim", maxhist=maxhist), workers=1, timeout=1500, simulate=f"num={num}", depth=2 * n + 1 + maxhist,
                  seed=seed() + n, coverage=False)
    raw = printed_json(res["stdout"], "B")
    if not raw:
        raise MachineryError("ParamExprSim printed no behaviour")
    m = __import__("re").search(r"The number of states generated: (\d+)", res["stdout"])
    res["generated"] = res["distinct"] = int(m.group(1)) if m else 0
    chk.add_tlc(res, f"ParamExprSim[N={n},num={num}]")
    out = Outcome()
    tmp = Path(tempfile.mkdtemp(prefix="verif_c12_"))
    seen = set()
    try:
        for defs, order, hist in raw:
            k = json.dumps([defs, order, hist])
            if k in seen:
                continue
            seen.add(k)
            replay_behaviour(out, defs, order, hist, tmp)
    finally:
        shutil.rmtree(tmp, ignore_errors=True)
    name = f"simulate N={n}"
    merge(chk, [out], name, viol_total)
    chk.extra.setdefault("replay", {})[name] = {"behaviours": len(seen), "steps_replayed": out.edges, "steps_skipped_after_mismatch": out.skipped}


def replay_behaviour(out: Outcome, defs, order, hist, tmp):
    out.cases += 1
    if forward_expr_ref(defs, order):
        out.nontriv.add(case_key(defs, order) + " plain=" + ",".join(str(d[3]) for d in defs if d[0] == "plain"))
    real = Real(defs, order, tmp)
    pre: list = []
    path: list = []
    for i, (op, arg, post) in enumerate(hist):
        e = [op, arg, pre, post]
        if not run_edge(real, out, defs, order, list(path), e):
            out.skipped += len(hist) - i - 1
            return
        path.append(e)
        pre = post
    if out.cases % 500 == 1 and len(out.samples) < 1:
        out.samples.append({"declared_in_order": [[real.lab[k], real.texts[k] or float(defs[k - 1][3])] for k in order],
                            "behaviour": [[op + (f"({arg})" if arg else ""), post] for op, arg, post in hist]})


# ------------------------------------------------------------------------- entry points
def run(tier: str, replay=None) -> int:
    chk = Check("C12", tier)
    chk.rule = ("ParamExpr.tla enumerates every definition vector over the grammar {plain c, $a+1, 2*$a, sqrt(square($a)), $a**2, $a+$b, $a-$b, $a*$b, maximum($a,$b)} "
                "(rank-ordered references => all labelled DAGs with in-degree <= 2) x every declaration order; every transition of the emission "
                "configurations (Construct by each builder, SetFree to every value vector, Update, Arrays, Copy, SaveLoad) is executed on real Parameters "
                "and all values compared exactly; distinct = (definitions incl. plain values, declaration order); non-trivial = some expression references "
                "an expression parameter that is declared later (forward-expr-ref)")
    chk.assumptions = [
        "topological rank fixed to the identity (relabelling symmetry); only the declaration order ranges over all permutations",
        "function symbols by integer image: sqrt(square(x)) = |x|, maximum(x, y) = max(x, y); values are small integers, exact in float64",
        "the real object's state is the vector of parameter values (definitions are immutable): states are forked by assigning Parameter.value on one live object",
        "expression parameters are declared without a value (list, yml_dict, csv builders) or with 0 (dict, yml_list builders); the property does not depend on it",
        "SaveLoad formats: csv (quick: N=3), csv and tsv (thorough: N=3; csv in the 5-6 parameter simulations); yml has no save_parameters",
        "trusted: TLC, CommunityModules Json, the 60-line realisation of definitions as expression strings in harness/c12.py",
    ]
    if replay:
        return _replay_one(chk, replay)
    viol_total: dict = {}
    procs = int(os.environ.get("VERIF_PROCS", "8" if tier == "quick" else "12"))
    refute_mutant(chk)
    if tier == "quick":
        a = dict(N=3, plain=[1, 2, 3], free=[1, 3], un=ALL_UN, bin=ALL_BIN, builders=ALL_BUILDERS, formats=["csv"])
        b = dict(N=4, plain=[2], free=[1, 3], un=["addc", "sq"], bin=["sub", "mul"], builders=["list", "dict"], formats=[])
        big = dict(N=4, plain=[1, 3], free=[1, 3], un=ALL_UN, bin=ALL_BIN, builders=["list"], formats=["csv"])
        explore(chk, a, "N=3 full grammar", procs, viol_total)
        explore(chk, b, "N=4 {$a+1,$a**2,$a-$b,$a*$b}", procs, viol_total)
        res = run_tlc("ParamExpr", cfg(big, "check"), workers=16, timeout=1500)
        require_actions(res, ["Define", "Declare"] + RUN_ACTIONS)
        chk.add_tlc(res, "ParamExpr[N=4 full grammar, model level only]")
    else:
        a = dict(N=3, plain=[1, 2, 3], free=[1, 2, 3], un=ALL_UN, bin=ALL_BIN, builders=ALL_BUILDERS, formats=["csv", "tsv"])
        b = dict(N=4, plain=[2], free=[1, 3], un=ALL_UN, bin=ALL_BIN, builders=ALL_BUILDERS, formats=[])
        big = dict(N=4, plain=[1, 2, 3], free=[1, 2, 3], un=ALL_UN, bin=ALL_BIN, builders=["list"], formats=["csv"])
        explore(chk, a, "N=3 full grammar", procs, viol_total)
        explore(chk, b, "N=4 full grammar, plain value 2", procs, viol_total)
        res = run_tlc("ParamExpr", cfg(big, "check"), workers=16, timeout=3000)
        require_actions(res, ["Define", "Declare"] + RUN_ACTIONS)
        chk.add_tlc(res, "ParamExpr[N=4 full grammar, model level only]")
        simulate(chk, 5, 1000, viol_total, ["csv"])
        simulate(chk, 6, 1000, viol_total, ["csv"])
    from . import c11_fits
    c11_fits.run_expression_fits(chk, tier)
    chk.extra["violating_edges_by_configuration"] = viol_total
    return chk.finish()


def _replay_one(chk: Check, rp) -> int:
    r = rp["replay"]
    if r.get("engine") == "c12-edge":
        # the model-level side of the replayed case: the smallest configuration that contains it (n <= 4), else the mutant refutation
        defs = r["defs"]
        if len(defs) <= 4:
            vals = sorted({v for e in r["path"] + [r["edge"]] for v in e[3] if 1 <= v <= 3} | {1})
            c = dict(N=len(defs), plain=sorted({d[3] for d in defs if d[0] == "plain"}), free=vals, un=sorted({d[0] for d in defs if d[0] in ALL_UN}),
                     bin=sorted({d[0] for d in defs if d[0] in ALL_BIN}), builders=["list"], formats=[])
            chk.add_tlc(run_tlc("ParamExpr", cfg(c, "check"), workers=4, timeout=900), "ParamExpr[configuration of the replayed case]")
        else:
            refute_mutant(chk)
        out = Outcome()
        tmp = Path(tempfile.mkdtemp(prefix="verif_c12_"))
        try:
            real = Real(r["defs"], r["order"], tmp)
            for e in r["path"]:
                real.execute(e[0], e[1], e[3])
            run_edge(real, out, r["defs"], r["order"], r["path"], r["edge"])
        finally:
            shutil.rmtree(tmp, ignore_errors=True)
        merge(chk, [out], "replay", {})
    else:
        from . import c11_fits
        c11_fits.replay(chk, r)
    return chk.finish()
