"""X01 (growth beyond the listed properties) — preprocessing pipeline (glotaran/io/preprocessor).

spec/Pipeline.tla: pipelines of <= 3 actions built with the persistent builder; MeanZero, Compositional, Persistent,
ValuesCommute checked by TLC; every pipeline emitted with its exact result and replayed on the real
PreProcessingPipeline (builder persistence, original data untouched, result values).
Not tied to a listed property: it has no MANIFEST check entry; run with ./check X01.
"""
from __future__ import annotations

from fractions import Fraction

from .core import Check, MachineryError
from .tlc import printed_json, require_actions, run_tlc


def run(tier: str, replay=None) -> int:
    import numpy as np
    import xarray as xr
    from glotaran.io.preprocessor.pipeline import PreProcessingPipeline
    chk = Check("X01", tier)
    chk.rule = "every pipeline of <= 3 (4 in thorough) actions over 2 baseline values x 4 selections x 3 exclusions; non-trivial = contains an average correction on a strict sub-region"
    n = 3 if tier == "quick" else 4
    cfg = f"SPECIFICATION Spec\nCONSTANTS\n  MaxActions = {n}\nCHECK_DEADLOCK FALSE\n"
    res = run_tlc("Pipeline", cfg + "INVARIANT MeanZero\nINVARIANT Compositional\nINVARIANT Persistent\nINVARIANT ValuesCommute\n", workers=8, timeout=1800)
    require_actions(res, ["Extend"])
    chk.add_tlc(res, "Pipeline")
    em = run_tlc("PipelineEmit", cfg + "CONSTRAINT Emit\n", workers=1, timeout=1800, coverage=False)
    cases = printed_json(em["stdout"], "PIPE")
    if len(cases) != res["distinct"]:
        raise MachineryError(f"PipelineEmit: {len(cases)} pipelines for {res['distinct']} states")
    sel = {"none": None, "time0": {"time": 0.0}, "spec01": {"spectral": slice(0.0, 1.0)}, "spec02": {"spectral": [0.0, 2.0]}}
    exc = {"none": None, "spec1": {"spectral": 1.0}, "time1": {"time": [1.0]}}
    data0 = np.array([[1.0, 4.0, 2.0], [3.0, 0.0, 5.0]])
    for c in cases:
        chk.evaluations += 1
        original = xr.DataArray(data0.copy(), coords=[("time", [0.0, 1.0]), ("spectral", [0.0, 1.0, 2.0])])
        p = PreProcessingPipeline()
        stages = [p]
        for a in c["pipe"]:
            q = p.correct_baseline_value(a["v"]) if a["kind"] == "value" else p.correct_baseline_average(select=sel[a["sel"]], exclude=exc[a["exc"]])
            stages.append(q)
            p = q
        key = "Pipeline: " + " ; ".join(f"{a['kind']}({a['v']})" if a["kind"] == "value" else f"average(select={a['sel']},exclude={a['exc']})" for a in c["pipe"])
        rep = {"engine": "x01", "case": c}
        for k, st in enumerate(stages):
            if len(st.actions) != k:
                chk.violation(key + " [builder not persistent]", f"pipeline built at step {k} now has {len(st.actions)} actions", rep)
        try:
            out = p.apply(original)
        except Exception as ex:  # noqa: BLE001
            chk.violation(key + f" [raises {type(ex).__name__}]", str(ex)[:200], rep)
            continue
        if not np.array_equal(original.values, data0):
            chk.violation(key + " [original modified]", "apply() changed the data it was given", rep)
        got = out.transpose("time", "spectral").values
        if c["den"] == 0:
            if not np.all(np.isnan(got)):
                chk.violation(key + " [empty region]", f"average over an empty region: expected NaN everywhere, got {got.tolist()}", rep)
        else:
            want = np.array([[float(Fraction(v, c["den"])) for v in row] for row in c["num"]])
            if got.shape != want.shape or not np.allclose(got, want, rtol=1e-12, atol=1e-12):
                chk.violation(key, f"result {got.tolist()}, specification {want.tolist()}", rep)
        chk.traces += 1
        if any(a["kind"] == "average" and (a["sel"] != "none" or a["exc"] != "none") for a in c["pipe"]):
            chk.nontriv(key)
    chk.sample(cases[len(cases) // 2])
    return chk.finish()
