"""Driver for the ReduceTrace acceptor: seeded lattice schemes (relations, zero/only constraints with interval lists, linked and
unlinked groups, full models, weights) moved to real-valued coordinates x -> 600.5 + x/4 (exact in binary), evaluated once with
hooks on so that every matrix provider emits a "prepared" or "stacked" event.  Usage: python -m harness.drivers_reduce <seed> <n>"""
from __future__ import annotations

import random
import sys
import warnings


def remap(case):
    f = lambda x: x if isinstance(x, str) else 600.5 + x / 4
    fiv = lambda ivs: [[f(b) for b in iv] for iv in ivs]
    for d in case["datasets"]:
        d["axis"] = [f(x) for x in d["axis"]]
    for key in ("relations", "constraints"):
        for it in case[key]:
            it["ivs"] = fiv(it["ivs"])
    for w in case["weights"]:
        w["givs"] = fiv(w["givs"])
    if "tol" in case:
        case["tol"] = case["tol"] / 4
    return case


def main():
    sd, n = int(sys.argv[1]), int(sys.argv[2])
    rng = random.Random(sd)
    from glotaran.optimization.data_provider import AlignDatasetError
    from glotaran.utils import verif_trace
    from .lattice import build, objective
    from .objective import gen_case
    done = 0
    for _ in range(n):
        case = remap(gen_case(rng, penalties=False))
        try:
            with warnings.catch_warnings():
                warnings.simplefilter("ignore")
                # only the matrix stage: rank-deficient / fully constrained schemes of the generator cannot be SOLVED (outside C01's premise)
                # but their matrices, reductions and stacks are well defined
                from glotaran.optimization.optimizer import Optimizer
                o = Optimizer(build(case), verbose=False, raise_exception=True)
                for group in o._optimization_groups:
                    group._dataset_group.set_parameters(o._parameters)
                    group._matrix_provider.calculate()
            done += 1
        except AlignDatasetError:
            pass
        except Exception as ex:  # noqa: BLE001 - judged by the acceptor's harness
            verif_trace.emit("driver_error", error=f"{type(ex).__name__}: {str(ex)[:200]}")
    print("evaluated", done)


if __name__ == "__main__":
    main()
