"""C14 (3): builtin megacomplex combinations enumerated by spec/ModelCombos.tla, instantiated with float parameters."""
from __future__ import annotations

import json
import warnings

from .core import MachineryError
from .tlc import printed_json, require_actions, run_tlc


def build_combo(c, seed_):
    """-> (model, true_parameters, data dict, expected clp per dataset (xr.DataArray divided by scale), scales)"""
    import numpy as np
    import xarray as xr
    from glotaran.builtin.megacomplexes.baseline import BaselineMegacomplex
    from glotaran.builtin.megacomplexes.coherent_artifact import CoherentArtifactMegacomplex
    from glotaran.builtin.megacomplexes.damped_oscillation import DampedOscillationMegacomplex
    from glotaran.builtin.megacomplexes.decay import DecayMegacomplex, DecayParallelMegacomplex, DecaySequentialMegacomplex
    from glotaran.builtin.megacomplexes.spectral import SpectralMegacomplex
    from glotaran.model import Model
    from glotaran.parameter import Parameters
    from glotaran.simulation import simulate
    rs = np.random.RandomState(seed_)
    M = Model.create_class_from_megacomplexes([DecayMegacomplex, DecayParallelMegacomplex, DecaySequentialMegacomplex, BaselineMegacomplex,
                                               CoherentArtifactMegacomplex, DampedOscillationMegacomplex, SpectralMegacomplex])
    comps = ["s1", "s2"]
    md = {"megacomplex": {}, "dataset": {}}
    par = {"k": [["1", 0.8], ["2", 0.15]], "fix": [["one", 1.0, {"vary": False}], ["zero", 0.0, {"vary": False}]]}
    mcs = ["mdecay"]
    if c["decay"] == "sequential":
        md["megacomplex"]["mdecay"] = {"type": "decay-sequential", "compartments": comps, "rates": ["k.1", "k.2"]}
    elif c["decay"] == "parallel":
        md["megacomplex"]["mdecay"] = {"type": "decay-parallel", "compartments": comps, "rates": ["k.1", "k.2"]}
    else:
        md["megacomplex"]["mdecay"] = {"type": "decay", "k_matrix": ["km"]}
        md["k_matrix"] = {"km": {"matrix": {("s2", "s1"): "k.1", ("s2", "s2"): "k.2"}}}
        md["initial_concentration"] = {"j": {"compartments": comps, "parameters": ["fix.one", "fix.zero"]}}
    if c["irf"] != "none":
        irf = {"type": "gaussian", "center": "irf.center", "width": "irf.width"}
        par["irf"] = [["center", 0.4], ["width", 0.2]]
        if c["irf"] in ("dispersed", "mixed"):
            irf = {"type": "spectral-gaussian", "center": "irf.center", "width": "irf.width", "dispersion_center": "irf.dc",
                   "center_dispersion_coefficients": ["irf.d1"]}
            par["irf"] += [["dc", 620.0, {"vary": False}], ["d1", 0.05]]
        md["irf"] = {"irf1": irf}
        if c["irf"] == "mixed":
            # the LAST dataset of the (linked) group has an index-independent matrix, the earlier ones an index-dependent one
            md["irf"]["irf2"] = {"type": "gaussian", "center": "irf.center", "width": "irf.width"}
    if c["baseline"] == "yes":
        md["megacomplex"]["mbase"] = {"type": "baseline", "dimension": "time"}
        mcs.append("mbase")
    if c["osc"] == "yes":
        md["megacomplex"]["mosc"] = {"type": "damped-oscillation", "labels": ["osc1"], "frequencies": ["osc.freq"], "rates": ["osc.rate"]}
        par["osc"] = [["freq", 12.0], ["rate", 0.3]]
        mcs.append("mosc")
    if c["artifact"] == "yes":
        md["megacomplex"]["mart"] = {"type": "coherent-artifact", "order": 2}
        mcs.append("mart")
    nds = int(c["nds"])
    scales = []
    for i in range(nds):
        dm = {"megacomplex": list(mcs)}
        if c["irf"] != "none":
            dm["irf"] = "irf2" if c["irf"] == "mixed" and i == nds - 1 else "irf1"
        if c["decay"] == "general":
            dm["initial_concentration"] = "j"
        if c["scale"] == "yes":
            # "free": the scale of every dataset but the first is a free parameter (identifiable in a linked group)
            par.setdefault("sc", []).append([str(i), 2.0 + i, {"vary": bool(c.get("free_scale")) and i > 0}])
            dm["scale"] = f"sc.{i}"
            scales.append(2.0 + i)
        else:
            scales.append(1.0)
        md["dataset"][f"ds{i}"] = dm
    spectral_model = c["glob"] == "spectral"
    if spectral_model:
        # the global labels come in ANOTHER order than the species and there is one more of them (a shape no species pairs with): the
        # clp matrix (global label x species) of the truth is neither symmetric nor square
        md["megacomplex"]["mspec"] = {"type": "spectral", "shape": {"sx": "sh3", "s2": "sh2", "s1": "sh1"}}
        md["shape"] = {"sh1": {"type": "gaussian", "amplitude": "shp.a1", "location": "shp.l1", "width": "shp.w1"},
                       "sh2": {"type": "gaussian", "amplitude": "shp.a2", "location": "shp.l2", "width": "shp.w2"},
                       "sh3": {"type": "gaussian", "amplitude": "shp.a3", "location": "shp.l3", "width": "shp.w3"}}
        par["shp"] = [["a1", 3.0, {"vary": False}], ["l1", 610.0, {"vary": False}], ["w1", 30.0, {"vary": False}],
                      ["a2", 2.0, {"vary": False}], ["l2", 640.0, {"vary": False}], ["w2", 25.0, {"vary": False}],
                      ["a3", 1.5, {"vary": False}], ["l3", 655.0, {"vary": False}], ["w3", 12.0, {"vary": False}]]
        md["dataset"]["ds0"]["global_megacomplex"] = ["mspec"]
    model = M(**md)
    true = Parameters.from_dict(par)
    time = np.round(np.arange(-1.0, 8.0, 0.1), 10)
    data = {}
    expected = {}
    base = {}
    for i in range(nds):
        spectral = np.array([600.0, 620.0, 640.0, 660.0]) + 20.0 * i
        label = f"ds{i}"
        if spectral_model:
            ds = simulate(model, label, true, {"time": time, "spectral": spectral})
            expected[label] = None
        else:
            from glotaran.model.item import fill_item
            from glotaran.optimization.matrix_provider import MatrixProvider
            labs = MatrixProvider.calculate_dataset_matrix(fill_item(model.dataset[label], model, true), spectral, time).clp_labels
            vals = np.zeros((spectral.size, len(labs)))
            for a, x in enumerate(spectral):
                for b, l in enumerate(labs):
                    key = (float(x), l if not l.endswith("_baseline") else f"{label}:{l}")
                    base.setdefault(key, 0.5 + rs.random_sample() * 2)
                    vals[a, b] = base[key]
            common = xr.DataArray(vals, coords=[("spectral", spectral), ("clp_label", labs)])
            ds = simulate(model, label, true, {"time": time, "spectral": spectral}, common * scales[i])
            expected[label] = common
        data[label] = ds
    return model, true, data, expected, scales


def check_combo(chk, c, seed_, recover):
    import numpy as np
    from glotaran.optimization.optimize import optimize
    from glotaran.optimization.optimizer import Optimizer
    from glotaran.project import Scheme
    key_c = ",".join(f"{k}={c[k]}" for k in sorted(c))
    rep = {"engine": "c14-combo", "combo": c, "seed": seed_, "recover": recover}
    chk.evaluations += 1
    with warnings.catch_warnings():
        warnings.simplefilter("ignore")
        try:
            model, true, data, expected, scales = build_combo(c, seed_)
            scheme = Scheme(model=model, parameters=true, data=data, maximum_number_function_evaluations=25)
            o = Optimizer(scheme, verbose=False, raise_exception=True)
            labels, x0, _, _ = true.get_label_value_and_bounds_arrays(exclude_non_vary=True)
            o._free_parameter_labels = labels
            pen = np.asarray(o.objective_function(x0))
        except Exception as ex:  # noqa: BLE001
            chk.violation(f"Combos[raises {type(ex).__name__}]: {key_c}", f"building / evaluating the combination raised {type(ex).__name__}: {str(ex)[:300]}", rep)
            return
        norm = float(np.sqrt(sum(float((d.data ** 2).sum()) for d in data.values())))
        if not np.all(np.isfinite(pen)) or float(np.abs(pen).max()) > 1e-9 * max(1.0, norm):
            chk.violation(f"Combos[objective not zero at truth]: {key_c}", f"objective at the generating parameters: max |entry| {np.abs(pen).max()} with data norm {norm}", rep)
            return
        res = optimize(scheme, verbose=False, raise_exception=True)
        for lab in labels:
            a, b = res.optimized_parameters.get(lab).value, true.get(lab).value
            if not (abs(a - b) <= 1e-6 * max(1.0, abs(b))):      # NaN-safe
                chk.violation(f"Combos[optimiser moves away from truth]: {key_c}", f"parameter {lab}: {b} -> {a}", rep)
                return
        for label, exp in expected.items():
            if exp is None:
                # full model: the estimated clp of the pair (global label, species) is 1 for equal labels and 0 otherwise
                clp = res.data[label].clp
                if "global_clp_label" in clp.dims:
                    for g_ in clp.coords["global_clp_label"].values:
                        for l in clp.coords["clp_label"].values:
                            got = float(clp.sel(global_clp_label=g_, clp_label=l))
                            want = 1.0 if str(g_) == str(l) else 0.0       # simulation and fit of a full model pair equal labels with weight one
                            if not (abs(got - want) <= 1e-6):
                                chk.violation(f"Combos[estimated full-model clp]: {key_c}", f"{label} clp[{g_},{l}] = {got}, generating value {want}", rep)
                                return
                continue
            clp = res.data[label].clp
            for x in exp.coords["spectral"].values:
                for l in exp.coords["clp_label"].values:
                    got = float(clp.sel(spectral=x, clp_label=l))
                    want = float(exp.sel(spectral=x, clp_label=l))
                    if not (abs(got - want) <= 1e-7 * max(1.0, abs(want))):      # NaN-safe
                        chk.violation(f"Combos[estimated clp]: {key_c}", f"{label} clp[{l}] at {x} = {got}, generating clp / dataset scale = {want}", rep)
                        return
        chk.traces += 1
        if recover:
            import copy
            start = true.copy()
            rs = np.random.RandomState(seed_ + 7)
            for lab in labels:
                p = start.get(lab)
                p.value = p.value * (1 + 0.1 * (1 if rs.random_sample() < 0.5 else -1))
            scheme2 = Scheme(model=model, parameters=start, data=data, maximum_number_function_evaluations=60)
            res2 = optimize(scheme2, verbose=False, raise_exception=True)
            # the rates of a decay scheme with free amplitudes are identifiable only up to a permutation (the concentrations span the same
            # space when two rates are exchanged): the rates are compared as a multiset, everything else label by label
            got_v = {lab: res2.optimized_parameters.get(lab).value for lab in labels}
            want_v = {lab: true.get(lab).value for lab in labels}
            rates = sorted(lab for lab in labels if lab.startswith("k."))
            off = [(lab, a, b) for lab, a, b in [(lab, got_v[lab], want_v[lab]) for lab in labels if lab not in rates] +
                   [("rates (sorted)", a, b) for a, b in zip(sorted(got_v[r] for r in rates), sorted(want_v[r] for r in rates))]
                   if abs(a - b) > 1e-4 * max(1.0, abs(b))]
            if off:
                # "an identifiable model returns": judged only where that is decidable.  A run that used up its evaluation budget has not
                # terminated; a run that reached zero residual at other parameters shows the combination is not identifiable (flat direction).
                zero = float(res2.cost) <= 1e-18 * max(1.0, norm * norm)
                spent = int(res2.number_of_function_evaluations) >= 60
                if zero:
                    chk.skip("recovery: zero residual reached at other parameters (combination not identifiable)", 1)
                elif spent:
                    chk.skip("recovery: evaluation budget used up before convergence", 1)
                else:
                    lab, a, b = off[0]
                    chk.violation(f"Combos[not recovered from 10% perturbation]: {key_c}",
                                  f"the optimiser terminated ({res2.termination_reason}) at cost {float(res2.cost):.3g} with parameter {lab}: truth {b}, recovered {a}", rep)
                    return
    if int(c["nds"]) > 1 or sum(c[k] == "yes" for k in ("baseline", "osc", "artifact")) >= 1 or c["glob"] == "spectral":
        chk.nontriv("combo:" + key_c)


RECOVER = [{"decay": "parallel", "irf": "gaussian", "glob": "clp", "baseline": "no", "osc": "no", "artifact": "no", "nds": "2", "scale": "yes", "free_scale": True},
           {"decay": "sequential", "irf": "gaussian", "glob": "clp", "baseline": "no", "osc": "no", "artifact": "no", "nds": "1", "scale": "no"},
           {"decay": "parallel", "irf": "none", "glob": "clp", "baseline": "yes", "osc": "no", "artifact": "no", "nds": "2", "scale": "yes"},
           {"decay": "sequential", "irf": "gaussian", "glob": "spectral", "baseline": "no", "osc": "no", "artifact": "no", "nds": "1", "scale": "no"}]


def run(chk, tier, rng):
    cfg = "SPECIFICATION Spec\nINVARIANT TypeOK\nCONSTRAINT Emit\nCHECK_DEADLOCK FALSE\n"
    res = run_tlc("ModelCombos", cfg, workers=1, timeout=600)
    require_actions(res, ["Choose"])
    chk.add_tlc(res, "ModelCombos")
    combos = [x["combo"] for x in printed_json(res["stdout"], "COMBO")]
    if len(combos) < 100:
        raise MachineryError(f"ModelCombos emitted only {len(combos)} combinations")
    chk.extra["builtin_combinations_total"] = len(combos)
    n = 12 if tier == "quick" else len(combos)
    pick = combos if n >= len(combos) else rng.sample(combos, n)
    # always: a full model whose model matrix is index dependent (dispersed IRF) and one that is not; linked groups that mix index-dependent
    # and index-independent datasets
    fixed = [{"decay": "sequential", "irf": "dispersed", "glob": "spectral", "baseline": "no", "osc": "no", "artifact": "no", "nds": "1", "scale": "no"},
             {"decay": "parallel", "irf": "gaussian", "glob": "spectral", "baseline": "no", "osc": "no", "artifact": "no", "nds": "1", "scale": "yes"},
             {"decay": "parallel", "irf": "mixed", "glob": "clp", "baseline": "no", "osc": "no", "artifact": "no", "nds": "2", "scale": "no"},
             {"decay": "sequential", "irf": "mixed", "glob": "clp", "baseline": "yes", "osc": "no", "artifact": "no", "nds": "3", "scale": "yes"}]
    for i, c in enumerate(fixed + pick):
        check_combo(chk, c, 1000 + i, recover=False)
    # recovery from a 10 % perturbation is asserted for combinations whose objective has a single basin there: a 10 % change of an
    # oscillation frequency moves the phase by several pi over the time window (the sum of squares of a sinusoid fit is multi-modal in the
    # frequency), so combinations with a damped oscillation are not judged for recovery (seen in the thorough tier: termination by ftol in
    # a local minimum at cost 0.64)
    unimodal = [c for c in combos if c.get("osc") != "yes"]
    for i, c in enumerate(RECOVER[:2] if tier == "quick" else RECOVER + rng.sample(unimodal, min(20, len(unimodal)))):
        check_combo(chk, c, 5000 + i, recover=True)
    chk.sample({"builtin_combo": pick[0]})


def replay(chk, r):
    check_combo(chk, r["combo"], r["seed"], r.get("recover", False))
