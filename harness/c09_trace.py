"""C09 code -> spec: "aligned" events of real linked data providers validated against spec/ClpLinkTrace.tla."""
from __future__ import annotations

import json
import re
import tempfile
from fractions import Fraction
from pathlib import Path

from .core import REPO, Check, MachineryError, seed
from .tlc import run_tlc
from .trace import py, pytest_cmd, record

MAX_POINTS = 260          # recursion depth of SortedSeq in TLC
SCALES = [1, 2, 4, 5, 8, 10, 20, 40, 100, 200, 1000, 10000]


def to_trace(e: dict):
    """Scale a recorded event to the integer grid of the specification; returns (trace, None) or (None, reason)."""
    labels = e["labels"]
    vals = [v for l in labels for v in e["axes"][l]] + [e["tolerance"]] + list(e["aligned_axis"])
    if any(v != v or abs(v) == float("inf") for v in vals):
        return None, "non-finite coordinate"
    # exact scaling if the coordinates are binary fractions; otherwise snap to a decimal grid, which is sound only if no decision of the
    # specification sits on a rounding boundary (checked below): distinct floats stay distinct, and |q-p| = tol on the grid agrees with floats
    sc = next((s for s in SCALES if all(abs(v * s - round(v * s)) <= 1e-6 for v in vals)), None)
    if sc is None:
        return None, "coordinates not on a common decimal grid (integer scaling impossible)"
    I = lambda v: int(round(v * sc))
    flat = sorted({v for l in labels for v in e["axes"][l]})
    if len({I(v) for v in flat}) != len(flat):
        return None, "distinct coordinates closer than the grid"
    T = I(e["tolerance"])
    per = [[(v, I(v)) for v in e["axes"][l]] for l in labels]
    for a in range(len(per)):
        for b in range(a):
            for (p, ip) in per[a]:
                for (q, iq) in per[b]:
                    if abs(iq - ip) == T and (abs(q - p) <= e["tolerance"]) is not True:
                        return None, "a distance equals the tolerance up to floating point rounding"
    axes = [[I(v) for v in e["axes"][l]] for l in labels]
    if sum(len(a) for a in axes) > MAX_POINTS:
        return None, f"more than {MAX_POINTS} points"
    if any(abs(v) >= 2 ** 30 for a in axes for v in a):
        return None, "coordinate exceeds TLC integers"
    if e["method"] not in ("nearest", "forward", "backward"):
        return None, "unknown method"
    num = {l: i + 1 for i, l in enumerate(labels)}
    order = sorted(range(len(e["aligned_axis"])), key=lambda i: e["aligned_axis"][i])      # specification lists the aligned axis ascending
    aligned = [I(e["aligned_axis"][i]) for i in order]
    members = [[[num[l], j + 1] for l, j in e["members"][i]] for i in order]
    sizes = [e["data_sizes"][i] for i in order]
    assign = [[None] * len(a) for a in axes]
    for q, mem in zip(aligned, members):
        for n, j in mem:
            if not (1 <= j <= len(assign[n - 1])) or assign[n - 1][j - 1] is not None:
                return {"bad": "a dataset column is stacked twice or out of range"}, None
            assign[n - 1][j - 1] = q
    if any(v is None for a in assign for v in a):
        return {"bad": "a dataset column is not stacked at any aligned point"}, None
    return {"axes": axes, "tol": I(e["tolerance"]), "method": e["method"], "outcome": "done", "assign": assign, "aligned_axis": aligned,
            "members": members, "data_sizes": sizes, "model_sizes": [e["model_sizes"][l] for l in labels], "scale": sc, "labels": labels}, None


def validate(traces: list[dict], timeout=1800):
    cfg = "\n".join(["SPECIFICATION TraceSpec", "CONSTANTS", "  Positions = {}", "  MaxLen = 0", "  NDatasets = 0", "  Tols = {}", "  Methods = {}",
                     "CONSTRAINT Mark", "POSTCONDITION Accepted", "CHECK_DEADLOCK FALSE",
                     "INVARIANT ExactlyOne", "INVARIANT ItselfOrAligned", "INVARIANT Nearest", "INVARIANT MergedWhenPossible", "INVARIANT EveryColumnOnce"]) + "\n"
    with tempfile.TemporaryDirectory(prefix="verif_c09t_") as td:
        f = Path(td) / "traces.json"
        f.write_text(json.dumps({"traces": [{k: t[k] for k in ("axes", "tol", "method", "outcome", "assign", "aligned_axis", "members", "data_sizes", "model_sizes")} for t in traces]}))
        res = run_tlc("ClpLinkTrace", cfg, workers=1, timeout=timeout, env={"TRACE_FILE": str(f)}, coverage=False, allow_violation=True)
    m = re.search(r'<<\s*"VERDICT",\s*<<(.*?)>>\s*>>', res["stdout"], re.S)
    if not m:
        raise MachineryError("ClpLinkTrace: no VERDICT line\n" + res["stdout"][-3000:])
    body = m.group(1).strip()
    verdict = [int(x) for x in body.split(",")] if body else []
    if len(verdict) != len(traces):
        raise MachineryError("ClpLinkTrace: verdict length mismatch")
    return verdict, res


def check_events(chk: Check, name: str, events: list[dict], must_have=True):
    evs = [e for e in events if e.get("ev") == "aligned"]
    for e in events:
        if e.get("ev") == "driver_error":
            chk.violation(f"ClpLinkTrace[{name}]: evaluation raises {e['error'].split(':')[0]} method={e['method']}",
                          f"evaluating a linked scheme (axes x2 = {e['axes']}, tolerance x2 = {e['tol']}, datasets {e['labels']}) raised {e['error']}",
                          {"engine": "c09-trace", "events": [e]})
    if must_have and not evs:
        raise MachineryError(f"C09 trace source {name}: no aligned events (hook not active?)")
    traces, skipped = [], {}
    seen = set()
    for e in evs:
        sig = json.dumps({k: e[k] for k in ("labels", "axes", "tolerance", "method", "aligned_axis", "members", "data_sizes", "model_sizes")}, sort_keys=True)
        if sig in seen:
            continue
        seen.add(sig)
        t, why = to_trace(e)
        if t is None:
            skipped[why] = skipped.get(why, 0) + 1
            continue
        if "bad" in t:
            chk.violation(f"ClpLinkTrace[{name}]: {t['bad']}", f"recorded stack composition is not a partition of the dataset columns: {t['bad']}: {sig[:500]}",
                          {"engine": "c09-trace", "events": [e]})
            continue
        t["event"] = e
        traces.append(t)
    chk.extra.setdefault("trace_skipped", {})[name] = skipped
    if not traces:
        return 0
    verdict, res = validate(traces)
    chk.add_tlc(res, f"ClpLinkTrace[{name}]")
    for t, v in zip(traces, verdict):
        chk.traces += 1
        chk.evaluations += sum(len(a) for a in t["axes"])
        if t["assign"] != t["axes"]:
            chk.nontriv(("trace", name, json.dumps(t["axes"]), t["tol"], t["method"]))
        if v != 0:
            chk.violation(f"ClpLinkTrace[{name}]: method={t['method']} axes={t['axes']} tol={t['tol']} (x1/{t['scale']})",
                          f"recorded alignment/stack is not a behaviour of ClpLink.tla: assign={t['assign']} members={t['members']} data_sizes={t['data_sizes']} model_sizes={t['model_sizes']}",
                          {"engine": "c09-trace", "events": [t["event"]]})
    t = traces[len(traces) // 2]
    chk.sample({"trace_source": name, "axes": t["axes"], "tol": t["tol"], "method": t["method"], "assign": t["assign"], "scale": t["scale"]})
    return len(traces)


def run(chk: Check, tier: str):
    n = 150 if tier == "quick" else 3000
    ev = record(py("-m", "harness.drivers_align", str(seed()), str(n)))
    check_events(chk, "driver", ev)
    tests = ["glotaran/optimization/test/test_data_provider.py", "glotaran/optimization/test/test_multiple_goups.py", "glotaran/optimization/test/test_estimation_provider.py",
             "glotaran/optimization/test/test_matrix_provider.py"]
    if tier == "thorough":
        tests = ["glotaran/optimization/test", "glotaran/builtin/megacomplexes", "glotaran/project/test"]
    ev2 = record(pytest_cmd(*tests), cwd=str(REPO), must_succeed=False)
    check_events(chk, "repo-tests", ev2)
    # binding self-test: a column moved to a different aligned point must be rejected
    good = [t for t in (to_trace(e)[0] for e in ev if e.get("ev") == "aligned") if t and "bad" not in t and t["assign"] != t["axes"]][:5]
    if not good:
        raise MachineryError("C09 trace binding self-test: no merging alignment recorded")
    bad = json.loads(json.dumps(good))
    for t in bad:
        n_, j_ = next((n, j) for n in range(len(t["axes"])) for j in range(len(t["axes"][n])) if t["assign"][n][j] != t["axes"][n][j])
        q_old = t["assign"][n_][j_]
        t["assign"][n_][j_] = t["axes"][n_][j_]            # "the point was not merged"
        i_old = t["aligned_axis"].index(q_old)
        t["members"][i_old] = [m for m in t["members"][i_old] if m != [n_ + 1, j_ + 1]]
        t["data_sizes"][i_old] -= t["model_sizes"][n_]
        if t["axes"][n_][j_] not in t["aligned_axis"]:
            t["aligned_axis"] = sorted(t["aligned_axis"] + [t["axes"][n_][j_]])
            i_new = t["aligned_axis"].index(t["axes"][n_][j_])
            t["members"].insert(i_new, [[n_ + 1, j_ + 1]])
            t["data_sizes"].insert(i_new, t["model_sizes"][n_])
        else:
            i_new = t["aligned_axis"].index(t["axes"][n_][j_])
            t["members"][i_new] = sorted(t["members"][i_new] + [[n_ + 1, j_ + 1]])
            t["data_sizes"][i_new] += t["model_sizes"][n_]
    verdict, _ = validate(bad)
    if any(v == 0 for v in verdict):
        raise MachineryError("C09 trace binding self-test failed: a corrupted alignment (a mergeable point left unmerged) was accepted")
    chk.extra["trace_binding_selftest"] = f"{len(bad)} corrupted alignments rejected"


def replay(chk: Check, r):
    check_events(chk, "replay", r["events"])
