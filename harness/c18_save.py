"""spec -> code for SaveProtocol.tla: every call TLC enumerates is executed on the real glotaran.io.save_*.

For each (function, format, target state, allow_overwrite, format given|inferred) TLC emits the set of terminal
states the specification allows; the real call is made on a fresh temp tree and its observable outcome (exception
class, what happened to every pre-existing file - bytes and mtime -, what appeared) must be one of them.
"""
from __future__ import annotations

import json
import shutil
import tempfile
import warnings
from collections import Counter
from pathlib import Path

from .c18_fixtures import objects, snapshot
from .core import Check, MachineryError
from .tlc import printed_json, require_actions, run_tlc

DATA_FNS = ["save_dataset"]
PROJECT_FNS = ["save_model", "save_parameters", "save_scheme", "save_result"]
UNKNOWN = "verif_unknown"
FAILING = "verif_failing"
TSTATES = ["absent", "file", "emptydir", "nonemptydir", "subdironly", "noparent"]
INVARIANTS = ["TypeOK", "Refusal", "RefusalFirst", "RefusedOnlyWhenDue", "OverwriteOnlyIfAsked", "PreexistingUntouched",
              "UnrelatedUntouched", "UnknownFormat", "SourcePathOnlyOnSuccess"]
PROPERTIES = ["NoWriteBeforeCheck"]
OBJ_OF = {"save_dataset": "dataset", "save_model": "model", "save_parameters": "parameters", "save_scheme": "scheme", "save_result": "result"}


def _s(xs):
    return "{" + ", ".join(json.dumps(x) for x in xs) + "}"


def cfg(data_formats, project_formats, emit=False, tstates=TSTATES):
    lines = ["SPECIFICATION Spec", "CONSTANTS", f"  DataFns = {_s(DATA_FNS)}", f"  ProjectFns = {_s(PROJECT_FNS)}",
             f"  DataFormats = {_s(data_formats)}", f"  ProjectFormats = {_s(project_formats)}",
             f"  Unknown = {json.dumps(UNKNOWN)}", f"  Failing = {json.dumps(FAILING)}", f"  TStates = {_s(tstates)}",
             "CHECK_DEADLOCK FALSE"]
    if emit:
        lines.append("CONSTRAINT Emit")
    else:
        lines += [f"INVARIANT {i}" for i in INVARIANTS] + [f"PROPERTY {p}" for p in PROPERTIES]
    return "\n".join(lines) + "\n"


def registered_formats():
    """Format names of the unmodified registries (the quantifier 'every registered format')."""
    from glotaran.plugin_system.data_io_registration import known_data_formats
    from glotaran.plugin_system.project_io_registration import known_project_formats
    return sorted(known_data_formats()), sorted(known_project_formats())


# ------------------------------------------------------------------------------ spec side
def spec_outcome(rec) -> tuple:
    """Projection of one terminal state of the specification onto what the harness can observe."""
    fs0, fs = rec["fs0"], rec["fs"]
    child = "none"
    if fs0["child"]["kind"] != "absent":
        child = "absent" if fs["child"]["kind"] == "absent" else ("same" if fs["child"] == fs0["child"] else "changed")
    return (rec["exc"], fs["target"]["kind"], fs["target"] == fs0["target"], child, fs["sibling"] == fs0["sibling"], fs["out"]["kind"] == "file")


def call_key(c) -> tuple:
    return (c["fn"], c["fmt"], c["ts"], bool(c["allow"]), bool(c["infer"]))


def cases_from_tlc(chk: Check, tier: str):
    data_formats, project_formats = registered_formats()
    res = run_tlc("SaveProtocol", cfg(data_formats, project_formats), workers=8, timeout=600)
    require_actions(res, ["Call", "Protect", "Lookup", "WriteNotImplemented", "WriteOk", "WriteFail", "UpdateSourcePath"])
    chk.add_tlc(res, "SaveProtocol")
    em = run_tlc("SaveProtocolEmit", cfg(data_formats, project_formats, emit=True), workers=1, timeout=600, coverage=False)
    recs = printed_json(em["stdout"], "CASE")
    allowed: dict = {}
    for r in recs:
        allowed.setdefault(call_key(r["call"]), set()).add(spec_outcome(r))
    n_calls = (len(DATA_FNS) * (len(data_formats) + 2) + len(PROJECT_FNS) * (len(project_formats) + 2)) * len(TSTATES) * 4
    if len(allowed) != n_calls:
        raise MachineryError(f"SaveProtocolEmit: {len(allowed)} calls emitted, {n_calls} expected")
    return [{"call": dict(zip(("fn", "fmt", "ts", "allow", "infer"), k)), "allowed": sorted(map(list, v), key=json.dumps)} for k, v in sorted(allowed.items())]


# ------------------------------------------------------------------------------ real side
PLUGIN_CALLS: list = []


def _partial(path: str):
    p = Path(path)
    if p.is_dir():
        (p / "partial.out").write_bytes(b"partial")
    else:
        p.write_bytes(b"partial")


def register_failing_plugins():
    """Plugins that write half of their output and raise; registered through the public decorators."""
    from glotaran.io import register_data_io, register_project_io
    from glotaran.io.interface import DataIoInterface, ProjectIoInterface

    class VerifFailingDataIo(DataIoInterface):
        def save_dataset(self, dataset, file_name, **kwargs):
            PLUGIN_CALLS.append(("save_dataset", file_name))
            _partial(file_name)
            raise RuntimeError("verif: data plugin fails midway")

    class VerifFailingProjectIo(ProjectIoInterface):
        def _fail(self, what, file_name):
            PLUGIN_CALLS.append((what, file_name))
            _partial(file_name)
            raise RuntimeError("verif: project plugin fails midway")

        def save_model(self, model, file_name, **kwargs):
            self._fail("save_model", file_name)

        def save_parameters(self, parameters, file_name, **kwargs):
            self._fail("save_parameters", file_name)

        def save_scheme(self, scheme, file_name, **kwargs):
            self._fail("save_scheme", file_name)

        def save_result(self, result, result_path, **kwargs):
            self._fail("save_result", result_path)

    register_data_io(FAILING)(VerifFailingDataIo)
    register_project_io(FAILING)(VerifFailingProjectIo)


def build_tree(root: Path, call) -> Path:
    """root/keep.me, root/p/keep2.me (when the parent exists) and the target in the requested state."""
    root.mkdir(parents=True)
    (root / "keep.me").write_bytes(b"unrelated file next to the parent\n")
    parent = root / "p"
    ts = call["ts"]
    target = parent / f"target.{call['fmt']}"
    if ts in ("emptydir", "nonemptydir", "subdironly") and not call["infer"] and (call["fn"] == "save_result" or call.get("n", 0) % 2):
        # a folder is usually named without an extension (save_result(result, "results/run1", format_name="yml")): every second call with a
        # given format uses such a name
        target = parent / "target_folder"
    if ts != "noparent":
        parent.mkdir()
        (parent / "keep2.me").write_bytes(b"unrelated file next to the target\n")
    if ts == "file":
        target.write_bytes(b"old content of the target\n")
    elif ts in ("emptydir", "nonemptydir", "subdironly"):
        target.mkdir()
        if ts == "nonemptydir":
            (target / "old.dat").write_bytes(b"old content inside the target folder\n")
        if ts == "subdironly":         # nothing but a sub folder (an archived older result, a plots folder) with content deeper down
            (target / "old.dat").mkdir()
            (target / "old.dat" / "deep.dat").write_bytes(b"old content two levels below the target folder\n")
    return target


def exc_class(ex) -> str:
    if ex is None:
        return ""
    if isinstance(ex, FileExistsError):
        return "FileExistsError"
    if isinstance(ex, ValueError):
        return "ValueError"
    return "PluginError"


def observe(root: Path, target: Path, before: dict, ex) -> tuple:
    after = snapshot(root)
    trel = target.relative_to(root).as_posix()
    crel = trel + "/old.dat"
    tb, ta = before.get(trel), after.get(trel)
    kind = ta[0] if ta else "absent"
    same = (tb == ta) if (tb is None or tb[0] == "file" or ta is None) else (ta[0] == "dir")
    child = "none"
    if crel in before:
        deep = crel + "/deep.dat"          # the sub-folder-only state: the child is a folder whose content counts as well
        child = "absent" if crel not in after else \
            ("same" if after[crel] == before[crel] and (deep not in before or after.get(deep) == before[deep]) else "changed")
    unrelated = [r for r in before if r.endswith(".me")]
    sibling_same = all(after.get(r) == before[r] for r in unrelated)
    new = [r for r in after if r not in before and r not in (trel, "p")]
    return (exc_class(ex), kind, same, child, sibling_same, bool(new)), sorted(new), after


def execute_case(chk: Check, case, base: Path, n: int, stats: Counter | None = None) -> bool:
    import glotaran.io as gio
    call = case["call"]
    allowed = {tuple(a) for a in case["allowed"]}
    root = base / f"case{n}"
    target = build_tree(root, {**call, "n": n})
    before = snapshot(root)
    obj = objects("save")[OBJ_OF[call["fn"]]]
    PLUGIN_CALLS.clear()
    ex = None
    with warnings.catch_warnings():
        warnings.simplefilter("ignore")
        try:
            getattr(gio, call["fn"])(obj, target, format_name=None if call["infer"] else call["fmt"], allow_overwrite=call["allow"])
        except Exception as e:  # noqa: BLE001
            ex = e
    obs, new, after = observe(root, target, before, ex)
    shutil.rmtree(root, ignore_errors=True)
    chk.evaluations += 1
    chk.traces += 1
    occupied = call["ts"] in ("file", "nonemptydir", "subdironly")
    how = "format inferred" if call["infer"] else "format given"
    desc = f"{call['fn']} format={call['fmt']} allow_overwrite={call['allow']} target={call['ts']}"
    if occupied:
        chk.nontriv(("save", call_key(call)))
    if stats is not None:
        stats[f"{call['fn']}:{obs[0] or 'ok'}"] += 1
        if obs[0] == "" and call["ts"] == "file" and call["allow"] and not obs[2]:
            stats[f"overwritten:{call['fn']}"] += 1
    if n % 131 == 7:
        chk.sample({"engine": "SaveProtocol", "call": call, "observed": {"exc": obs[0], "target_after": obs[1], "target_unchanged": obs[2], "child": obs[3],
                                                                     "unrelated_unchanged": obs[4], "new_files": new[:4]}, "allowed_outcomes": len(allowed)})
    if obs in allowed:
        return True
    changed = sorted(r for r in before if before[r][0] == "file" and after.get(r) != before[r])
    got = f"{type(ex).__name__ if ex is not None else 'no exception'}"
    if occupied and not call["allow"]:
        why = "Refusal: the target is occupied and allow_overwrite is not set, so FileExistsError and an untouched tree are required"
    elif obs[0] == "FileExistsError":
        why = ("RefusedOnlyWhenDue: FileExistsError although " + ("the caller passed allow_overwrite=True" if call["allow"] else "the target is not occupied"))
    elif changed and not call["allow"]:
        why = "PreexistingUntouched: a pre-existing file changed without allow_overwrite"
    elif not obs[4]:
        why = "UnrelatedUntouched: a file that is neither the target nor inside it changed"
    else:
        why = "outcome is not a terminal state of SaveProtocol for this call"
    key = f"SaveProtocol: {desc} -> {got}" + (f", changed {changed}" if changed else "") + (f", created {new[:3]}" if new and occupied and not call["allow"] else "") + f" ({how})"
    what = (f"{why}; observed exc={got}{': ' + str(ex)[:160] if ex is not None else ''}, target after={obs[1]} unchanged={obs[2]}, child={obs[3]}, "
            f"changed pre-existing files={changed}, new files={new[:5]}, plugin calls={len(PLUGIN_CALLS)}; allowed={sorted(allowed)[:6]}")
    chk.violation(key, what, {"engine": "c18-save", "case": case})
    return False


def replay_cases(chk: Check, cases) -> Counter:
    from glotaran.testing.plugin_system import monkeypatch_plugin_registry
    stats: Counter = Counter()
    base = Path(tempfile.mkdtemp(prefix="verif_c18s_"))
    try:
        objects("save")
        with monkeypatch_plugin_registry(test_data_io={}, test_project_io={}):
            register_failing_plugins()
            for n, case in enumerate(cases):
                execute_case(chk, case, base, n, stats)
    finally:
        shutil.rmtree(base, ignore_errors=True)
    return stats


def run(chk: Check, tier: str):
    cases = cases_from_tlc(chk, tier)
    stats = replay_cases(chk, cases)
    # binding vacuity: every function must have really written at least once, and really overwritten when asked
    for fn in DATA_FNS + PROJECT_FNS:
        if not stats.get(f"{fn}:ok"):
            raise MachineryError(f"C18 binding vacuous: no successful real {fn} among the replayed cases")
        if not stats.get(f"overwritten:{fn}"):
            raise MachineryError(f"C18 binding vacuous: no real {fn} replaced an existing file with allow_overwrite=True")
    chk.extra["save_protocol"] = {"calls_replayed": len(cases), "outcomes": dict(sorted(stats.items()))}
    return cases


def replay(chk: Check, r):
    replay_cases(chk, [r["case"]])
