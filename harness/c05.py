"""C05 — Gaussian IRF convolution, for every index of a dispersed or shifted IRF (decidable part, DESIGN §5/§6).

spec/IrfIndex.tla: Effective(i) (broadcasting, centre - shift_i, dispersion polynomial in either variable, widths,
scales, normalisation divisor, IsIndexDependent) as exact rationals; TLC enumerates the configuration space by fan-out
and checks PerIndex / Broadcast / Linear / IndexDependence / Asymptote as algebraic facts; spec/IrfIndexEmit.tla prints
every configuration with the exact Effective(i) and every asymptote-lattice case with region and exponent.

Binding (every emitted case is replayed on the real code):
 (a) irf.parameter(i, axis): centres - shift, widths, scales == Effective(i)                       (1e-12)
 (b) DecayMegacomplex index-dependent matrix at i == the implementation's OWN index-independent matrix of a dataset whose
     IRF is the plain Gaussian Effective(i)                                   (the property's second sentence)
 (c) Linear: that matrix == SUM_g weight_g Single(centre_g, width_g) with the implementation's single-Gaussian matrices
 (d) Asymptote: t - c >= 7w + k w^2  => column == exp(-k(t-c) + k^2 w^2/2) (1e-9 rel);  t - c <= -40 w => 0
     (normalisation of the kernel read from decay_matrix_gaussian_irf.py: scale * 0.5 * exp(alpha(alpha-2beta)) (1+erf),
      alpha = k w/sqrt2, beta = (t-c)/(w sqrt2), i.e. the convolution with the AREA-normalised Gaussian; the division by
      SUM scales happens in util.py only when irf.normalize)
 (e) Result: matrix == calculate_matrix, irf_center_location, irf_shift
NOT decided (DESIGN §6): equality of the erf/erfcx closed form with the convolution integral for |t - c| < ~7w, the branch
switch, under/overflow regimes, backsweep values.
"""
from __future__ import annotations

import json
import multiprocessing as mp
import threading

from .core import Check, MachineryError, seed
from .tlc import require_actions, run_tlc

INVARIANTS = ["TypeOK", "Broadcast", "PerIndex", "IndexDependence", "Linear", "Asymptote"]
TIMES = [-50.0, -1.0, -0.25, 0.0, 0.125, 0.25, 0.5, 1.0, 2.0, 5.0, 20.0, 100.0]
# with the periodic-excitation term the signal is defined within a period around the pulse (the library refuses non-finite values far outside)
TIMES_BS = [-1.0, -0.5, -0.25, 0.0, 0.125, 0.25, 0.5, 1.0, 2.0, 3.0, 5.0, 7.0]      # as many points as TIMES (degrees of freedom of the result replays, D11)


def times_of(bs: bool):
    return TIMES_BS if bs else TIMES


def constants(tier: str) -> dict:
    if tier == "quick":
        return dict(GaussCounts=[1, 2, 3], ValVars=[1, 2], ScaleOpts=[True, False], ShiftVars=[0, 1], COrders=[0, 1, 2, 3],
                    WOrders=[0, 1, 2, 3], WOrderCap=1, NormOpts=[True, False], BacksweepOpts=[False, True], AxisVars=[1, 2], WithErrors=True, WithAsym=True)
    return dict(GaussCounts=[1, 2, 3], ValVars=[1, 2, 3], ScaleOpts=[True, False], ShiftVars=[0, 1, 2], COrders=[0, 1, 2, 3],
                WOrders=[0, 1, 2, 3], WOrderCap=3, NormOpts=[True, False], BacksweepOpts=[False, True], AxisVars=[1, 2, 3], WithErrors=True, WithAsym=True)


def _tla(v):
    if isinstance(v, bool):
        return "TRUE" if v else "FALSE"
    if isinstance(v, list):
        return "{" + ", ".join(_tla(x) for x in v) + "}"
    if isinstance(v, str):
        return f'"{v}"'
    return str(v)


def cfg_text(consts: dict, emit: bool, spec="ISpec", invariants=INVARIANTS) -> str:
    lines = [f"SPECIFICATION {spec}", "CONSTANTS"] + [f"  {k} = {_tla(v)}" for k, v in consts.items()] + ["CHECK_DEADLOCK FALSE"]
    lines += ["CONSTRAINT Emit"] if emit else [f"INVARIANT {i}" for i in invariants]
    return "\n".join(lines) + "\n"


def expected_counts(c: dict) -> tuple[int, int]:
    """Number of complete configurations / asymptote cases, computed independently of TLC (completeness of the emission)."""
    shapes = sum(2 if n == 1 else 3 for n in c["GaussCounts"]) + (2 if c["WithErrors"] else 0)
    disp = (1 if (0 in c["COrders"] and 0 in c["WOrders"]) else 0)
    disp += 2 * sum(1 for co in c["COrders"] for wo in c["WOrders"] if wo <= c["WOrderCap"] or co == wo)
    # per (shift variant, axis variant): the axis must be long enough for the shift table; backsweep TRUE only with the first axis
    n_axes = len(c["AxisVars"]) + (1 if (True in c.get("BacksweepOpts", [False]) and 1 in c["AxisVars"]) else 0) * (1 if False in c.get("BacksweepOpts", [False]) else 0)
    if c.get("BacksweepOpts", [False]) == [True]:
        n_axes = 1 if 1 in c["AxisVars"] else 0
    n = shapes * len(c["ValVars"]) * len(c["ScaleOpts"]) * len(c["ShiftVars"]) * disp * len(c["NormOpts"]) * n_axes
    return n, (13 * 3 * 6 if c["WithAsym"] else 0)


def run_both(module: str, emit_module: str, check_cfg: str, emit_cfg: str, workers=12, timeout=1500):
    """Checking run (many workers, invariants) and emission run (one worker) side by side."""
    box: dict = {}

    def go(name, *a, **kw):
        try:
            box[name] = run_tlc(*a, **kw)
        except BaseException as e:  # noqa: BLE001
            box[name] = e

    t1 = threading.Thread(target=go, args=("check", module, check_cfg), kwargs=dict(workers=workers, timeout=timeout, heap="4g"))
    t2 = threading.Thread(target=go, args=("emit", emit_module, emit_cfg), kwargs=dict(workers=1, timeout=timeout, coverage=False, heap="4g"))
    t1.start(); t2.start(); t1.join(); t2.join()
    for k in ("check", "emit"):
        if isinstance(box[k], BaseException):
            raise box[k]
    return box["check"], box["emit"]


# --------------------------------------------------------------------------------------- replay (worker side)
_CACHE: dict = {}


def case_id(cfg: dict) -> str:
    return json.dumps([cfg["nc"], cfg["nw"], cfg["scalar"], cfg["valVar"], cfg["hasScale"], cfg["shiftVar"], cfg["spectral"], cfg["wn"],
                       len(cfg["cdisp"]), len(cfg["wdisp"]), cfg["normalize"], cfg["axisVar"]])


def key_of(clause: str, cfg: dict) -> str:
    """One key per clause and distinguishing IRF feature (not per number): stable across tiers and table variants."""
    from .drivers_irf import feature_class
    ng = max(cfg["nc"], cfg["nw"])
    if clause == "Linear":
        return f"C05.Linear[{ng} Gaussian(s), scale {'given' if cfg['hasScale'] else 'omitted'}, normalize={cfg['normalize']}]"
    if clause == "ShapeError":
        return f"C05.ShapeError[{cfg['nc']} centres, {cfg['nw']} widths]"
    fc = feature_class(cfg)
    if fc == "irf with dispersion":
        fc += f" in {'wavenumber' if cfg['wn'] else 'wavelength'}"
    if clause.startswith("Effective") or clause == "IsIndexDependent":
        fc += f", {cfg['nc']} centre(s) x {cfg['nw']} width(s)"
    return f"C05.{clause}[{fc}]"


def _plain(eff_i: dict, cfg: dict):
    """Implementation's own index-independent matrix for the plain Gaussian IRF Effective(i)."""
    from . import drivers_irf as D
    bs = bool(cfg.get("backsweep"))
    k = ("plain", json.dumps([eff_i["centres"], eff_i["widths"], eff_i["scales"] if cfg["hasScale"] else None, cfg["normalize"], cfg["scalar"], bs]))
    if k not in _CACHE:
        item, pars = D.plain_irf_items(D.frs(eff_i["centres"]), D.frs(eff_i["widths"]), D.frs(eff_i["scales"]) if cfg["hasScale"] else None,
                                       cfg["normalize"], cfg["scalar"], backsweep=bs)
        _, m = D.decay_matrix(item, pars, [0.0], times_of(bs))
        if m.ndim != 2:
            raise MachineryError("plain Gaussian IRF produced an index-dependent matrix")
        _CACHE[k] = m
    return _CACHE[k]


def _single(c, w, bs=False):
    from . import drivers_irf as D
    k = ("single", json.dumps([c, w, bs]))
    if k not in _CACHE:
        item, pars = D.plain_irf_items([D.fr(c)], [D.fr(w)], None, True, True, backsweep=bs)
        _, m = D.decay_matrix(item, pars, [0.0], times_of(bs))
        _CACHE[k] = m
    return _CACHE[k]


def replay_case(case: dict) -> dict:
    """Replays one emitted configuration.  Returns counters and violations (key, what)."""
    import numpy as np

    from . import drivers_irf as D
    cfg = case["cfg"]
    res = {"evals": 0, "nontriv": [], "viol": [], "skip": {}, "cid": case_id(cfg)}

    def viol(clause, what):
        res["viol"].append((key_of(clause, cfg), what))

    axis = [float(x) for x in cfg["axis"]]
    item, pars = D.irf_items(cfg, case["shifts"])
    mega, extra, dsx, dpars, comps = D.decay_parts()
    try:
        dm, mc, _, _ = D.build(mega, item, {**dpars, **pars}, extra, dsx)
    except Exception as e:  # noqa: BLE001
        if case["error"]:
            res["evals"] += 1
            return res
        raise
    gax = np.asarray(axis)
    # ---- error shapes: both > 1 and unequal
    if case["error"]:
        res["evals"] += 1
        try:
            dm.irf.parameter(0, gax)
            mc.calculate_matrix(dm, gax, np.asarray(TIMES))
            viol("ShapeError", f"{cfg['nc']} centres and {cfg['nw']} widths accepted without error")
        except Exception:  # noqa: BLE001  (ModelError in the unchanged code; any refusal is a refusal)
            pass
        return res
    ng = max(cfg["nc"], cfg["nw"])
    if cfg["hasScale"] and case["eff"][0]["scales"] != D.SCALE_TAB[:ng]:
        raise MachineryError("harness scale table differs from IrfIndex!ScaleTab")
    # ---- (a) parameters per index
    for i, eff in enumerate(case["eff"]):
        res["evals"] += 1
        cen, wid, sca, shift, _, _ = dm.irf.parameter(i, gax)
        cen = np.asarray(cen, dtype=float) - float(shift)
        wid = np.asarray(wid, dtype=float)
        sca = np.asarray(sca, dtype=float)
        ec, ew, es = D.frs(eff["centres"]), D.frs(eff["widths"]), D.frs(eff["scales"])
        if not (len(cen) == len(wid) == len(sca) == ng):
            viol("Effective.shape", f"index {i}: {len(cen)} centres, {len(wid)} widths, {len(sca)} scales returned, specification says {ng} each")
            continue
        for g in range(ng):
            if not D.close(cen[g], ec[g], max(1.0, abs(ec[g])), 1e-12):
                viol("Effective.centre", f"index {i} (axis {axis[i]}), Gaussian {g + 1}: centre - shift = {float(cen[g])!r}, specification {eff['centres'][g]} = {ec[g]!r}")
            if not D.close(wid[g], ew[g], max(1.0, abs(ew[g])), 1e-12):
                viol("Effective.width", f"index {i} (axis {axis[i]}), Gaussian {g + 1}: width = {float(wid[g])!r}, specification {eff['widths'][g]} = {ew[g]!r}")
            if not D.close(sca[g], es[g], max(1.0, abs(es[g])), 1e-12):
                viol("Effective.scale", f"index {i}, Gaussian {g + 1}: scale = {float(sca[g])!r}, specification {es[g]!r}")
        if any(eff["centres"][g] != cfg["centres"][0 if cfg["nc"] == 1 else g] for g in range(ng)):
            res["nontriv"].append(f"{res['cid']}#{i}")
    if case["varies"] and not dm.irf.is_index_dependent():
        viol("IsIndexDependent", "Effective(i) varies with i but irf.is_index_dependent() is False")
    if not case["widthsPositive"]:
        res["skip"]["effective width <= 0 at some index: matrices not compared"] = 1
        return res
    # ---- (b) per index: own index-independent matrix at Effective(i);  (c) Linear
    TIMES_ = times_of(bool(cfg.get("backsweep")))
    labels, full = mc.calculate_matrix(dm, gax, np.asarray(TIMES_))
    full = D.by_label(labels, full, comps)
    for i, eff in enumerate(case["eff"]):
        res["evals"] += 1
        mi = full[i] if full.ndim == 3 else full
        pl = _plain(eff, cfg)
        d = np.abs(mi - pl)
        tol = 1e-12 * np.maximum(1.0, np.abs(pl))
        if not np.all(d <= tol):
            a = np.unravel_index(np.argmax(d - tol), d.shape)
            viol("PerIndex", f"index {i} (axis {axis[i]}): matrix[t={TIMES_[a[0]]}, rate={D.RATES[a[1]]}] = {float(mi[a])!r}; the index-independent matrix with "
                             f"the plain Gaussian Effective({i}) = centres {eff['centres']}, widths {eff['widths']} gives {float(pl[a])!r}")
        lin = sum(D.fr(eff["weights"][g]) * _single(eff["centres"][g], eff["widths"][g], bool(cfg.get("backsweep"))) for g in range(ng))
        d = np.abs(pl - lin)
        tol = 1e-12 * np.maximum(1.0, np.abs(lin))
        if not np.all(d <= tol):
            a = np.unravel_index(np.argmax(d - tol), d.shape)
            viol("Linear", f"index {i}: multi-Gaussian column[t={TIMES_[a[0]]}, rate={D.RATES[a[1]]}] = {float(pl[a])!r}, SUM_g weight_g Single_g = {float(lin[a])!r} "
                           f"(weights {eff['weights']}, divisor {eff['divisor']})")
    return res


def replay_asym(case: dict) -> dict:
    """(d) single-Gaussian asymptotes with the elementary interpreter."""
    import numpy as np

    from . import drivers_irf as D
    res = {"evals": 1, "nontriv": [], "viol": [], "skip": {}, "cid": "asym"}
    k, w, c, t = D.fr(case["k"]), D.fr(case["w"]), D.fr(case["c"]), D.fr(case["t"])
    item, pars = D.plain_irf_items([c], [w], None, True, True)
    _, m = D.decay_matrix(item, pars, [0.0], [t], rates=[k])
    v = float(np.asarray(m).reshape(-1)[0])
    key = f"C05.Asymptote[{case['region']}]: rate {case['k']}, width {case['w']}"
    if case["region"] == "after":
        e = D.decay_tail(D.fr(case["exponent"]))
        if not abs(v - e) <= 1e-9 * e + 1e-300:
            res["viol"].append((key, f"column = {v!r}, exp(-k(t-c) + k^2 w^2/2) = exp({case['exponent']}) = {e!r}"))
        res["nontriv"].append(f"asym:{case['k']}:{case['w']}:{case['c']}:{case['m']}")
    elif case["region"] == "before":
        if not abs(v) <= 1e-300:
            res["viol"].append((key, f"column = {v!r} at t - c = {case['m']} w, specification: 0"))
    else:
        res["skip"]["inside the pulse: undecided (special functions)"] = 1
    return res


def replay_regularity(case: dict) -> dict:
    """(f) rigorous elementary bounds that follow from the convolution definition f(t) = int_0^inf exp(-k u) g(t - u) du with the
    area-normalised Gaussian g (f' = g - k f): finiteness, 0 <= f <= min(1, g_max / k), |f(t2) - f(t1)| <= 2 g_max |t2 - t1|,
    and f(t) >= exp(-k d) d min(g(t - d), g(t)).  They hold at ALL times, in particular across the switch between the two
    numerical branches inside the pulse, where the equality itself is not decided."""
    import math

    import numpy as np

    from . import drivers_irf as D
    res = {"evals": 1, "nontriv": [], "viol": [], "skip": {}, "cid": "regularity"}
    k, w, c = float(case["k"]), float(case["w"]), 0.75
    times = c + w * np.linspace(-8.0, 8.0, 1601)
    item, pars = D.plain_irf_items([c], [w], None, True, True)
    _, m = D.decay_matrix(item, pars, [0.0], times, rates=[k])
    f = np.asarray(m, dtype=float).reshape(-1)
    key = f"C05.Regularity: rate x width = {k * w:g}"
    gmax = 1.0 / (w * math.sqrt(2 * math.pi))

    def g(t):
        return gmax * math.exp(-0.5 * ((t - c) / w) ** 2)
    if not np.all(np.isfinite(f)):
        res["viol"].append((key + " [finite]", f"non-finite column entries at t - c = {((times[~np.isfinite(f)][:3] - c) / w).tolist()} widths"))
        return res
    ub = min(1.0, gmax / k)
    if f.min() < -1e-12 or f.max() > ub * (1 + 1e-9):
        res["viol"].append((key + " [range]", f"column range [{f.min()!r}, {f.max()!r}] outside [0, min(1, g_max/k) = {ub!r}]"))
    df = np.abs(np.diff(f))
    lip = 2 * gmax * (times[1] - times[0]) * (1 + 1e-6)
    if df.max() > lip:
        i = int(df.argmax())
        res["viol"].append((key + " [lipschitz]", f"jump of {df.max()!r} between t - c = {(times[i] - c) / w:.3f} w and the next grid point ({f[i]!r} -> {f[i + 1]!r}); the convolution cannot change by more than 2 g_max dt = {lip!r}"))
    d = min(w, 1.0 / k)
    for i in range(0, len(times), 40):
        t = times[i]
        lb = math.exp(-k * d) * d * min(g(t - d), g(t))
        if lb > 1e-280 and f[i] < 0.5 * lb:
            res["viol"].append((key + " [lower bound]", f"column = {f[i]!r} at t - c = {(t - c) / w:.2f} w; the convolution is at least {lb!r}"))
            break
    res["nontriv"].append(f"regularity:{k}:{w}")
    return res


def replay_reported(case: dict) -> dict:
    """(e) through optimize(): Result.data matrix, irf_center_location, irf_shift."""
    import numpy as np
    import xarray as xr
    from glotaran.optimization.optimize import optimize
    from glotaran.project import Scheme
    from glotaran.simulation import simulate

    from . import drivers_irf as D
    cfg = case["cfg"]
    res = {"evals": 1, "nontriv": [], "viol": [], "skip": {}, "cid": case_id(cfg)}
    axis = [float(x) for x in cfg["axis"]]
    item, pars = D.irf_items(cfg, case["shifts"])
    mega, extra, dsx, dpars, comps = D.decay_parts()
    dm, mc, model, parameters = D.build(mega, item, {**dpars, **pars}, extra, dsx)
    times = np.asarray(times_of(bool(cfg.get("backsweep"))))
    gax = np.asarray(axis)
    clp = xr.DataArray(np.ones((len(axis), len(comps))), coords={"spectral": axis, "clp_label": comps}, dims=("spectral", "clp_label"))
    ds = simulate(model, "d", parameters, {"time": times, "spectral": gax}, clp)
    scheme = Scheme(model=model, parameters=parameters, data={"d": ds}, maximum_number_function_evaluations=1)
    result = optimize(scheme, verbose=False, raise_exception=True)
    rd = result.data["d"]
    labels, full = mc.calculate_matrix(dm, gax, times)
    full = D.by_label(labels, full, comps)
    got = rd.matrix.sel(clp_label=comps)
    got = got.transpose("spectral", "time", "clp_label").values if "spectral" in got.dims else got.transpose("time", "clp_label").values
    if got.shape != full.shape or not np.allclose(got, full, rtol=1e-12, atol=1e-14):
        res["viol"].append((key_of("Result.matrix", cfg), "Result.data matrix differs from megacomplex.calculate_matrix at the same parameters"))
    ng = max(cfg["nc"], cfg["nw"])
    if "irf_center_location" in rd:
        loc = rd.irf_center_location.transpose("irf_nr", "spectral").values
        for i, eff in enumerate(case["eff"]):
            sh = D.fr(case["shifts"][i])
            for g in range(ng):
                e = D.fr(eff["centres"][g])
                # the property does not say whether the reported location includes the shift: either is accepted
                if not (D.close(loc[g, i], e, max(1, abs(e)), 1e-12) or D.close(loc[g, i], e + sh, max(1, abs(e + sh)), 1e-12)):
                    res["viol"].append((key_of("Result.irf_center_location", cfg),
                                        f"irf_center_location[{g},{i}] = {float(loc[g, i])!r}; effective centre {e!r} (without shift {e + sh!r})"))
        res["nontriv"].append("loc:" + res["cid"])
    elif cfg["spectral"]:
        res["viol"].append((key_of("Result.irf_center_location", cfg), "spectral IRF but no irf_center_location in the result"))
    if cfg["shiftVar"] != 0:
        if "irf_shift" not in rd:
            res["viol"].append((key_of("Result.irf_shift", cfg), "IRF with shift but no irf_shift in the result"))
        else:
            c0 = D.fr(cfg["centres"][0])
            for i in range(len(axis)):
                sh = D.fr(case["shifts"][i])
                v = float(rd.irf_shift.values[i])
                # silent in the property: the shift itself or the shifted first centre are both accepted
                if not (D.close(v, sh, max(1, abs(sh)), 1e-12) or D.close(v, c0 - sh, max(1, abs(c0 - sh)), 1e-12)):
                    res["viol"].append((key_of("Result.irf_shift", cfg), f"irf_shift[{i}] = {v!r}; shift {sh!r}, centre - shift {c0 - sh!r}"))
        res["nontriv"].append("shift:" + res["cid"])
    return res


def _work(job):
    kind, case = job
    try:
        if kind == "case":
            return kind, case, replay_case(case)
        if kind == "asym":
            return kind, case, replay_asym(case)
        if kind == "regularity":
            return kind, case, replay_regularity(case)
        return kind, case, replay_reported(case)
    except MachineryError as e:
        return kind, case, {"machinery": str(e)}
    except Exception as e:  # noqa: BLE001
        import traceback
        from .core import raised_by_implementation
        site = raised_by_implementation(e)
        if site is not None:
            # the library raised on a configuration the specification counts as legal: a verdict, not a breakdown of the harness
            return kind, case, {"evals": 1, "nontriv": [], "skip": {}, "cid": "", "viol": [(f"IrfIndex[{kind}]: the model raises {type(e).__name__} in {site}",
                                f"evaluating a legal configuration raised {type(e).__name__}: {str(e)[:200]} (in {site})")]}
        return kind, case, {"machinery": f"{type(e).__name__}: {e}\n{traceback.format_exc()[-1500:]}"}


def collect(chk: Check, engine: str, results, sample_every=997):
    n = 0
    for kind, case, r in results:
        if "machinery" in r:
            raise MachineryError(f"{engine} replay of a {kind} case failed in the harness/real code: {r['machinery']}\ncase: {json.dumps(case)[:600]}")
        n += 1
        chk.evaluations += r["evals"]
        chk.traces += 1
        for k in r["nontriv"]:
            chk.nontriv(k)
        for reason, c in r["skip"].items():
            chk.skip(reason, c)
        for key, what in r["viol"]:
            chk.violation(key, what, {"engine": engine, "kind": kind, "case": case})
        if n % sample_every == 1:
            chk.sample({"kind": kind, "case": _brief(case)})
    return n


def _brief(case):
    c = dict(case)
    if "eff" in c and len(json.dumps(c)) > 1800:
        c["eff"] = c["eff"][:1]
    return c


def pool_map(jobs, procs=8, chunk=40):
    if len(jobs) <= 4:
        return [_work(j) for j in jobs]
    ctx = mp.get_context("fork")
    with ctx.Pool(processes=procs) as pool:
        return pool.map(_work, jobs, chunksize=chunk)


def run(tier: str, replay=None) -> int:
    import random
    chk = Check("C05", tier)
    chk.rule = ("every configuration TLC enumerates for spec/IrfIndex.tla (Gaussians x broadcast shape x scale x shift x centre/width "
                "dispersion order x dispersion variable x normalise x axis, plus the illegal shapes) is replayed on irf.parameter and on "
                "DecayMegacomplex.calculate_matrix; every case of the asymptote lattice (rate, width, centre, t - c in widths) on a "
                "single-Gaussian decay; evaluations = (index, clause) comparisons; non-trivial = a (configuration, index) whose effective "
                "centre differs from the nominal centre, an asymptote case after the pulse, or a result with reported irf location/shift")
    chk.assumptions = [
        "decided: per-index parameters, shift sign, dispersion in either variable, broadcasting, linearity in the scales, normalisation, "
        "asymptotes (t-c >= 7w + k w^2 and t-c <= -40w). NOT decided: equality with the convolution integral for |t-c| < ~7w, the "
        "erf/erfcx branch switch, under/overflow regimes, backsweep values (special functions; DESIGN §6)",
        "clause (b)/(c) use the implementation's own index-independent / single-Gaussian kernels as primitive (differential checks); "
        "only clause (d) evaluates exp() on the oracle side",
        "dispersion formula as documented in irf.py: dist = (l - l_c)/100 or 1e3/l - 1e3/l_c, centre + SUM coef_k dist^k (k >= 1); widths likewise",
        "kernel normalisation read from decay_matrix_gaussian_irf.py: convolution with the area-normalised Gaussian times scale; division by "
        "SUM scales only when irf.normalize",
        "the property does not define the reported irf_center_location / irf_shift: location with or without the shift, and shift_i or "
        "centre - shift_i, are both accepted",
        "time axis and rates of the matrix comparisons are fixed in the harness: times " + str(TIMES) + ", rates [1/16, 1, 8]",
        "NUMBA_NUM_THREADS defaults to 2 in the replay workers (thread count is C10's subject)",
        "trusted: TLC, CommunityModules Json, CPython/numpy exp",
    ]
    if replay:
        r = replay["replay"]
        collect(chk, "c05", [_work((r["kind"], r["case"]))], sample_every=1)
        return chk.finish()
    consts = constants(tier)
    check, emit = run_both("IrfIndex", "IrfIndexEmit", cfg_text(consts, False), cfg_text(consts, True), workers=12, timeout=1500)
    require_actions(check, ["ChooseValues", "ChooseShift", "ChooseDispersion", "ChooseNormAxis", "ChooseAsym"])
    chk.add_tlc(check, f"IrfIndex[{tier}]")
    chk.extra["emit_run"] = {"spec": "IrfIndexEmit", "states": emit.get("distinct"), "wall_s": emit.get("wall_s")}
    from .drivers_irf import parse_emitted
    out = parse_emitted(emit["stdout"])
    cases, asyms = out.get("CASE", []), out.get("ASYM", [])
    ne, na = expected_counts(consts)
    if (len(cases), len(asyms)) != (ne, na):
        raise MachineryError(f"emission incomplete: {len(cases)} configurations / {len(asyms)} asymptote cases parsed, expected {ne} / {na}")
    jobs = [("case", c) for c in cases] + [("asym", a) for a in asyms]
    jobs += [("regularity", {"k": p / w, "w": w}) for w in (0.125, 1.0) for p in (0.0625, 1.0, 4.0, 6.0, 8.0, 12.0, 20.0, 30.0)]
    rng = random.Random(seed())
    legal = [c for c in cases if not c["error"] and c["widthsPositive"] and (c["cfg"]["spectral"] or c["cfg"]["shiftVar"])]
    jobs += [("reported", c) for c in rng.sample(legal, min(len(legal), 16 if tier == "quick" else 160))]
    results = pool_map(jobs, procs=8 if tier == "quick" else 12)
    n = collect(chk, "c05", results)
    chk.extra["cases_replayed"] = {"configurations": len(cases), "asymptote_cases": len(asyms), "results_through_optimize": n - len(cases) - len(asyms)}
    return chk.finish()
