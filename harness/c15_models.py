"""Harness-side megacomplexes and scheme builders shared by C15 and C10.

Everything here goes through the public plugin API only (`glotaran.model.megacomplex` decorator,
`Model.create_class_from_megacomplexes`): the same route a third-party plugin takes, so everything
between the megacomplex and the `Result` is the code under test.

* FaultMegacomplex (type "verif-fault"): exponential decays exp(-k_i t); the n-th call of
  `calculate_matrix` (counted process-wide in FAULT) raises `InjectedFault` / returns a NaN matrix.
  Every call is logged (rates, whether sys.stdout is a TeeContext at the time, outcome).
* LatMegacomplex (type "verif-lat"): integer columns `cols[j] + par[j] * dcols[j]` (exact for integer
  parameters, non-linear in the parameters for the projected residual).
"""
from __future__ import annotations

import hashlib
import sys

import numpy as np
import xarray as xr

from glotaran.model import Megacomplex
from glotaran.model import Model
from glotaran.model import ParameterType
from glotaran.model import megacomplex


class InjectedFault(RuntimeError):
    """The exception injected by the fault megacomplex."""


class FaultPlan:
    """Process-wide fault plan and call log of the fault megacomplex."""

    def __init__(self):
        self.reset()

    def reset(self, k: int = 0, kind: str = "exception", persistent: bool = False):
        self.k = k                  # 1-based index of the faulty call; 0 = never
        self.kind = kind            # "exception" | "nan"
        self.persistent = persistent
        self.calls = 0
        self.log: list[dict] = []   # one entry per call
        self.exc: InjectedFault | None = None

    # ------------------------------------------------------------------
    def on_call(self, rates: tuple, dataset: str):
        self.calls += 1
        in_tee = type(sys.stdout).__name__ == "TeeContext"
        fire = self.k and (self.calls == self.k or (self.persistent and self.calls >= self.k))
        entry = {"n": self.calls, "rates": rates, "in_tee": in_tee, "dataset": dataset,
                 "fault": (self.kind if fire else "")}
        self.log.append(entry)
        return bool(fire)


FAULT = FaultPlan()


@megacomplex()
class FaultMegacomplex(Megacomplex):
    type: str = "verif-fault"
    dimension: str = "time"
    rates: list[ParameterType]

    def calculate_matrix(self, dataset_model, global_axis, model_axis, **kwargs):
        rates = tuple(float(r) for r in self.rates)
        fire = FAULT.on_call(rates, dataset_model.label)
        labels = [f"s{i + 1}" for i in range(len(rates))]
        matrix = np.exp(-np.outer(np.asarray(model_axis, dtype=float), np.asarray(rates)))
        if fire:
            if FAULT.kind in ("exception", "exception_swap"):
                if FAULT.kind == "exception_swap":
                    # a model that redirects sys.stdout (without try/finally) and fails while its own stream is installed
                    import io
                    sys.stdout = io.StringIO()
                # messages as real exceptions have them: one line, none at all (a bare `raise NotImplementedError`), several lines
                text = f"injected fault at calculate_matrix call {FAULT.calls}"
                form = FAULT.calls % 3
                FAULT.exc = InjectedFault(text) if form == 0 else (InjectedFault() if form == 1 else InjectedFault(text + "\ndetails: second line of the message"))
                raise FAULT.exc
            matrix = np.full_like(matrix, np.nan)
        return labels, matrix

    def finalize_data(self, dataset_model, dataset, is_full_model=False, as_global=False):
        pass


@megacomplex()
class LatMegacomplex(Megacomplex):
    type: str = "verif-lat"
    dimension: str = "time"
    labels: list[str]
    cols: list[list[float]]
    dcols: list[list[float]]
    par: list[ParameterType]

    def calculate_matrix(self, dataset_model, global_axis, model_axis, **kwargs):
        base = np.array(self.cols, dtype=float).T
        delta = np.array(self.dcols, dtype=float).T
        par = np.asarray([float(p) for p in self.par])
        return list(self.labels), base + delta * par[None, :]

    def finalize_data(self, dataset_model, dataset, is_full_model=False, as_global=False):
        pass


@megacomplex()
class LatIndexMegacomplex(Megacomplex):
    """Index dependent variant: the matrix of global index i is cols + (par + i) * dcols."""

    type: str = "verif-lat-idx"
    dimension: str = "time"
    labels: list[str]
    cols: list[list[float]]
    dcols: list[list[float]]
    par: list[ParameterType]

    def calculate_matrix(self, dataset_model, global_axis, model_axis, **kwargs):
        base = np.array(self.cols, dtype=float).T
        delta = np.array(self.dcols, dtype=float).T
        par = np.asarray([float(p) for p in self.par])
        return list(self.labels), np.array([base + delta * (par[None, :] + i) for i in range(len(global_axis))])

    def finalize_data(self, dataset_model, dataset, is_full_model=False, as_global=False):
        pass


_MODEL_CLASS = None


def model_class():
    global _MODEL_CLASS
    if _MODEL_CLASS is None:
        from glotaran.builtin.megacomplexes.decay import DecayMegacomplex
        from glotaran.builtin.megacomplexes.decay import DecayParallelMegacomplex
        from glotaran.builtin.megacomplexes.decay import DecaySequentialMegacomplex
        _MODEL_CLASS = Model.create_class_from_megacomplexes(
            [FaultMegacomplex, LatMegacomplex, LatIndexMegacomplex, DecaySequentialMegacomplex, DecayParallelMegacomplex, DecayMegacomplex]
        )
    return _MODEL_CLASS


def digest(a) -> str:
    """Short content digest of an array (bytes of the float64 representation)."""
    arr = np.ascontiguousarray(np.asarray(a, dtype=np.float64))
    return hashlib.blake2b(arr.tobytes(), digest_size=6).hexdigest()


def dataset(values, time, spectral, weight=None) -> xr.Dataset:
    ds = xr.Dataset({"data": (("time", "spectral"), np.asarray(values, dtype=float))},
                    coords={"time": np.asarray(time, dtype=float), "spectral": np.asarray(spectral, dtype=float)})
    if weight is not None:
        ds["weight"] = (("time", "spectral"), np.asarray(weight, dtype=float))
    return ds


# ------------------------------------------------------------------------------ fault schemes
FAULT_TIME = np.arange(0.0, 6.0, 0.5)
FAULT_SPECTRAL = np.array([0.0, 1.0, 2.0])


def fault_data(rates=(0.4, 1.5), ndatasets=1, seed=7):
    """Deterministic data: two decays with fixed spectra plus a fixed integer-derived perturbation."""
    rng = np.random.RandomState(seed)
    res = {}
    for d in range(ndatasets):
        m = np.exp(-np.outer(FAULT_TIME, np.asarray(rates)))
        spectra = np.array([[3.0, 1.0, 2.0], [1.0, 4.0, 2.0]]) + d
        noise = rng.randint(-3, 4, size=(FAULT_TIME.size, FAULT_SPECTRAL.size)) * 0.004
        res[f"d{d + 1}"] = dataset(m @ spectra + noise, FAULT_TIME, FAULT_SPECTRAL)
    return res


def fault_model(ndatasets=1, residual_function="variable_projection", link_clp=None):
    M = model_class()
    spec = {
        "megacomplex": {"mf": {"type": "verif-fault", "rates": ["k.1", "k.2"]}},
        "dataset": {f"d{d + 1}": {"megacomplex": ["mf"]} for d in range(ndatasets)},
        "dataset_groups": {"default": {"residual_function": residual_function, "link_clp": link_clp}},
    }
    return M(**spec)


def fault_parameters(start=(0.55, 1.1), nonneg=False):
    from glotaran.parameter import Parameters
    # nonneg: the second rate is optimised as its logarithm (the history then holds log-values that must be mapped back)
    # x.dbl: a parameter defined by an expression of a free parameter (no model item uses it).  The working copy of an optimisation
    # rewrites its value at every evaluation; the caller's object must keep the value it had
    p = Parameters.from_dict({"k": [["1", start[0]], ["2", start[1], {"non-negative": bool(nonneg)}]], "x": [["dbl", {"expr": "$k.1 * 2"}]]})
    # start values as a refit has them (result.get_scheme()): they carry the standard errors of the earlier fit, which belong to the caller
    for i, q in enumerate(p.all()):
        q.standard_error = 0.01 * (i + 1)
    return p


def fault_scheme(method="TrustRegionReflection", ndatasets=1, residual_function="variable_projection", link_clp=None,
                 max_nfev=None, tol=1e-8, start=(0.55, 1.1), nonneg=False):
    from glotaran.project import Scheme
    return Scheme(model=fault_model(ndatasets, residual_function, link_clp), parameters=fault_parameters(start, nonneg),
                  data=fault_data(ndatasets=ndatasets), optimization_method=method,
                  maximum_number_function_evaluations=max_nfev, ftol=tol, gtol=tol, xtol=tol)
