"""Lattice megacomplexes and scheme builder (harness side; uses only the public plugin API).

A *case* (JSON-able dict) describes one dataset group set exactly:
 {"groups": [{"label","link": true|false|null,"residual_function","datasets":[label,...]}],
  "datasets": [{"label","group","axis":[ints],"maxis":[ints] (optional model axis coords),
                "data":[[int]*n_global]*n_model, "scale": int (1 = unset), "weight": [[..]] or [],
                "mcs":[{"scale": int (1 = unset), "labels":[..], "idx": bool, "cols": per label column (or per global index such a list)}],
                "gmcs": [...] (optional global megacomplexes, columns over the global axis),
                "transposed": bool (data stored (global, model))}],
  "relations":[{"source","target","param","ivs"}], "constraints":[{"type","target","ivs"}],
  "penalties":[{"source","sivs","target","tivs","param","weight"}], "weights":[{"datasets","givs","mivs","value"}],
  "tol": number, "method": "nearest"|...}
Intervals ivs: [] = no interval; otherwise a list of [lo, hi] (a single pair is passed as one tuple when "single": true).
Infinite bounds are the strings "inf" / "-inf".
"""
from __future__ import annotations

import math

import numpy as np
import xarray as xr

from glotaran.model import DatasetModel  # noqa: F401
from glotaran.model import Megacomplex
from glotaran.model import Model
from glotaran.model import ParameterType
from glotaran.model import megacomplex
from glotaran.parameter import Parameters
from glotaran.project import Scheme

MODEL_DIM = "time"
GLOBAL_DIM = "spectral"


@megacomplex()
class LatticeMegacomplex(Megacomplex):
    type: str = "verif-lattice"
    dimension: str = MODEL_DIM
    labels: list[str]
    flat: list[float]
    shape: list[int]          # (n_model, n_labels) or (n_global, n_model, n_labels)
    factor: ParameterType | None = None

    def calculate_matrix(self, dataset_model, global_axis, model_axis, **kwargs):
        m = np.array(self.flat, dtype=np.float64).reshape(tuple(self.shape))
        if self.factor is not None:
            m = m * float(self.factor)
        return list(self.labels), m.copy()

    def finalize_data(self, dataset_model, dataset, is_full_model=False, as_global=False):
        pass


@megacomplex()
class LatticeGlobalMegacomplex(Megacomplex):
    type: str = "verif-lattice-global"
    dimension: str = GLOBAL_DIM
    labels: list[str]
    flat: list[float]
    shape: list[int]          # (n_global, n_labels)

    def calculate_matrix(self, dataset_model, global_axis, model_axis, **kwargs):
        m = np.array(self.flat, dtype=np.float64).reshape(tuple(self.shape))
        return list(self.labels), m.copy()

    def finalize_data(self, dataset_model, dataset, is_full_model=False, as_global=False):
        pass


LatticeModel = Model.create_class_from_megacomplexes([LatticeMegacomplex, LatticeGlobalMegacomplex])


def _b(v):
    if v == "inf":
        return math.inf
    if v == "-inf":
        return -math.inf
    return v


def _ivs(ivs, single=False):
    if not ivs:
        return None
    t = [(_b(a), _b(b)) for a, b in ivs]
    if single and len(t) == 1:
        return t[0]
    return t


def mc_array(mc, n_model, n_global):
    """cols -> ndarray: (n_model, n_labels) or (n_global, n_model, n_labels)."""
    if mc.get("idx"):
        return np.array([[[mc["cols"][g][l][i] for l in range(len(mc["labels"]))] for i in range(n_model)] for g in range(n_global)], dtype=float)
    return np.array([[mc["cols"][l][i] for l in range(len(mc["labels"]))] for i in range(n_model)], dtype=float)


def build(case, *, extra_free=True, max_nfev=None, method="TrustRegionReflection", free_model_params=False):
    """Return (scheme, info). Every integer of the case enters through a (fixed) parameter where the model takes parameters."""
    params = {"free": [["unused", 1.0, {"vary": True}]]} if extra_free else {}
    fixed = []

    def P(name, value):
        fixed.append([name, float(value), {"vary": bool(free_model_params)}])
        return f"c.{name}"

    md = {"megacomplex": {}, "dataset": {}, "dataset_groups": {}}
    for g in case["groups"]:
        md["dataset_groups"][g["label"]] = {"residual_function": g.get("residual_function", "variable_projection"), "link_clp": g.get("link")}
    data = {}
    for di, d in enumerate(case["datasets"]):
        n_model = len(d["data"])
        n_global = len(d["axis"])
        names = []
        scales = []
        for k, mc in enumerate(d["mcs"]):
            name = f"m{di}_{k}"
            arr = mc_array(mc, n_model, n_global)
            md["megacomplex"][name] = {"type": "verif-lattice", "labels": list(mc["labels"]), "flat": arr.flatten().tolist(), "shape": list(arr.shape)}
            names.append(name)
            scales.append(mc.get("scale", 1))
        dm = {"group": d["group"], "megacomplex": names}
        if any(s != 1 for s in scales):
            dm["megacomplex_scale"] = [P(f"ms{di}_{k}", s) for k, s in enumerate(scales)]
        if d.get("scale", 1) != 1:
            dm["scale"] = P(f"ds{di}", d["scale"])
        if d.get("gmcs"):
            gnames = []
            gscales = []
            for k, mc in enumerate(d["gmcs"]):
                name = f"g{di}_{k}"
                arr = np.array([[mc["cols"][l][i] for l in range(len(mc["labels"]))] for i in range(n_global)], dtype=float)
                md["megacomplex"][name] = {"type": "verif-lattice-global", "labels": list(mc["labels"]), "flat": arr.flatten().tolist(), "shape": list(arr.shape)}
                gnames.append(name)
                gscales.append(mc.get("scale", 1))
            dm["global_megacomplex"] = gnames
            if any(s != 1 for s in gscales):
                dm["global_megacomplex_scale"] = [P(f"gs{di}_{k}", s) for k, s in enumerate(gscales)]
        md["dataset"][d["label"]] = dm
        maxis = d.get("maxis") or list(range(n_model))
        arr = np.array(d["data"], dtype=float)
        if d.get("transposed"):
            ds = xr.DataArray(arr.T.copy(), coords=[(GLOBAL_DIM, np.array(d["axis"], dtype=float)), (MODEL_DIM, np.array(maxis, dtype=float))]).to_dataset(name="data")
        else:
            ds = xr.DataArray(arr, coords=[(MODEL_DIM, np.array(maxis, dtype=float)), (GLOBAL_DIM, np.array(d["axis"], dtype=float))]).to_dataset(name="data")
        if d.get("weight"):
            w = np.array(d["weight"], dtype=float)
            ds["weight"] = (ds.data.dims, w.T.copy() if d.get("transposed") else w)
        data[d["label"]] = ds
    if case.get("constraints"):
        md["clp_constraints"] = [{"type": c["type"], "target": c["target"], "interval": _ivs(c["ivs"], c.get("single"))} for c in case["constraints"]]
    if case.get("relations"):
        md["clp_relations"] = [{"source": r["source"], "target": r["target"], "parameter": P(f"rel{k}", r["param"]), "interval": _ivs(r["ivs"], r.get("single"))}
                               for k, r in enumerate(case["relations"])]
    if case.get("penalties"):
        md["clp_penalties"] = [{"type": "equal_area", "source": p["source"], "source_intervals": _ivs(p["sivs"]) or [(-math.inf, math.inf)],
                                "target": p["target"], "target_intervals": _ivs(p["tivs"]) or [(-math.inf, math.inf)],
                                "parameter": P(f"pen{k}", p["param"]), "weight": p["weight"]} for k, p in enumerate(case["penalties"])]
    if case.get("weights"):
        md["weights"] = [{"datasets": w["datasets"], "global_interval": _ivs(w.get("givs"), True), "model_interval": _ivs(w.get("mivs"), True), "value": w["value"]}
                         for w in case["weights"]]
    if fixed:
        params["c"] = fixed
    model = LatticeModel(**md)
    parameters = Parameters.from_dict(params)
    kw = {}
    if "tol" in case:
        kw["clp_link_tolerance"] = case["tol"]
    if "method" in case:
        kw["clp_link_method"] = case["method"]
    scheme = Scheme(model=model, parameters=parameters, data=data, maximum_number_function_evaluations=max_nfev,
                    optimization_method=method, **kw)
    return scheme


def objective(scheme):
    """Penalty vector at the initial parameters, and the optimizer (for access to the groups)."""
    from glotaran.optimization.optimizer import Optimizer
    o = Optimizer(scheme, verbose=False, raise_exception=True)
    labels, x0, _, _ = scheme.parameters.get_label_value_and_bounds_arrays(exclude_non_vary=True)
    o._free_parameter_labels = labels
    o._verif_x0 = x0
    return np.asarray(o.objective_function(x0)), o


def variant(case):
    """The same scheme at another value of its non-linear (model) parameters: scales, relation and penalty parameters changed."""
    import copy
    c = copy.deepcopy(case)
    changed = False
    for d in c["datasets"]:
        if d.get("scale", 1) != 1:
            d["scale"] = d["scale"] + 1 if d["scale"] < 3 else 2
            changed = True
        if any(m.get("scale", 1) != 1 for m in d["mcs"]):
            for m in d["mcs"]:
                if m.get("scale", 1) != 1:
                    m["scale"] = m["scale"] + 1      # stays != 1, so the set of parameters is unchanged
            changed = True
    for r in c.get("relations", []):
        r["param"] = 3 - r["param"]
        changed = True
    for p in c.get("penalties", []):
        p["param"] = 3 - p["param"]
        changed = True
    return c if changed else None


def x_of(case):
    scheme = build(case, free_model_params=True)
    labels, x, _, _ = scheme.parameters.get_label_value_and_bounds_arrays(exclude_non_vary=True)
    return labels, x
