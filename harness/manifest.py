"""Generates /verif/MANIFEST.json from the table below (python -m harness.manifest)."""
from __future__ import annotations

import json
import subprocess

from .core import REPO, VERIF

GUARD = "GLOTARAN_VERIF_TRACE"

BASELINE_OFF = ("cd /repo && env -u GLOTARAN_VERIF_TRACE /venv/bin/python -m pytest -ra -q -p no:cacheprovider --timeout=900 "
                "--continue-on-collection-errors --junitxml=/tmp/verif_baseline.junit.xml")

# id -> dict(engine, technique, text, note, design)
CLAIMED: dict[str, dict] = {}
NOT_YET: dict[str, str] = {}


def claim(pid, engine, technique, text, note, design, category="model_checking"):
    CLAIMED[pid] = dict(engine=engine, technique=technique, text=text, note=note, design=design, category=category)


claim("C19", "Registry",
      "TLA+ spec Registry.tla model-checked by TLC (exhaustive, invariants + action properties); every TLC transition replayed on the real registry functions (base and public API, load/save dispatch); recorded traces of the real code validated by RegistryTrace.tla",
      "Exhaustive TLC exploration of all register/set/lookup histories up to a bounded length over 2 short names, 1 dotted name, 2-3 classes, for class and instance registries; every explored transition is executed against the real code and the projected registry, error and warning compared after every step; executions of the real code (random drivers, the repository's plugin-system tests) are accepted step by step by the trace specification.",
      "Plugin identity abstracted to (class full name, format). Histories longer than the bound are covered by simulation and trace validation only. Trusted: TLC, CommunityModules Json, CPython.",
      "DESIGN.md §5 C19")

claim("C01", "LeastSquares",
      "TLA+ spec LeastSquares.tla: exact integer VP/NNLS oracle with orthogonality, KKT, uniqueness and minimality checked by TLC on every enumerated instance; every emitted instance replayed on residual_variable_projection / residual_nnls and on EstimationProvider.calculate_residual (C/F order, float and integer dtypes, 2^k-scaled data, 2^e-scaled columns)",
      "TLC enumerates all integer instances (A, y) of a bounded lattice (plus a kinetic catalogue of nearly collinear integer columns), proves on each that the exact solution satisfies the optimality certificates the property names, and emits the exact clp and residual; the real functions must reproduce them to 1e-9 relative, also for data scaled by 2^-300..2^300 and for columns scaled by powers of two with a spread of up to 2^33 (condition numbers up to 1e10 with an exact oracle).",
      "Decides the property on exact lattice instances; ill-conditioning beyond ~1e4 that is not a column scaling is floating-point error analysis and is not decided (DESIGN §6). Trusted: TLC, Fraction division.",
      "DESIGN.md §5 C01")

claim("C09", "ClpLink",
      "TLA+ spec ClpLink.tla (one action per point / per dataset, nondeterministic ties) model-checked exhaustively by TLC with the property's clauses as invariants; every terminal state emitted; the real alignment code must land in the allowed set (unit level exhaustive, end-to-end sample through real schemes and optimize); recorded `aligned` events of real providers (random driver beyond the bounds, repository tests) accepted by ClpLinkTrace.tla",
      "Exhaustive exploration of all axis sets of 2 datasets (3 in thorough) with up to 3-4 points on a half-step grid, tolerances 0/below/at/above the spacing, all three methods; the implementation's assignment, stacked data/indices/weights, clp sharing in results and AlignDatasetError are compared with the specification's allowed outcomes.",
      "Ties may be resolved either way (D3). Axes strictly increasing. Unit level sets the provider's axes directly. Larger axes only in thorough/simulate. Trusted: TLC, Json module.",
      "DESIGN.md §5 C09")

claim("C02", "Objective",
      "TLA+ spec Objective.tla: the objective as a staged exact pipeline over integer lattice schemes; the property's clauses (every point once, best fit per index, reduced labels, shared iff same aligned point) checked by TLC as invariants on every case; exact expected penalty vector emitted and compared entry for entry with Optimizer.objective_function",
      "For thousands of seeded lattice schemes covering the full feature product, TLC evaluates the documented pipeline in exact integer arithmetic (an independent oracle with a different evaluation model) and checks the property's statement on it; the real penalty vector (length, order, values), additional penalties, reduced label sets per index, clp count, link decision and independence of groups must agree.",
      "Sampled (seeded), not exhaustive, over the feature product; lattice sizes bounded by 32-bit exactness; D1, D2, D6, D7, D8, D13 of DESIGN §4. Trusted: TLC, Fraction arithmetic for sums of per-block rationals.",
      "DESIGN.md §5 C02")

claim("C03", "Objective",
      "TLA+ spec Objective.tla: exact per-block residuals/clps emitted by TLC; expected result arrays derived as functions of coordinates and labels; real optimize() results (one evaluation, x = x0) compared by .sel lookups",
      "Seeded lattice schemes incl. adversarial dataset labels (prefixes, substrings, coinciding concatenations), non-square shapes, both storage orders, noisy data and linked groups with single-dataset indices; every result variable (data, residual, fitted_data, weight, weighted_residual, clp, matrix, global_matrix) is looked up by coordinate value and label and compared with the exact value; constrained clps == 0.0, relation targets to 4 ulp.",
      "Sampled not exhaustive; D8, D11, D13; max_nfev=1 keeps x at x0. Trusted: TLC, Fraction arithmetic.",
      "DESIGN.md §5 C03")
claim("C13", "Objective",
      "TLA+ spec Objective.tla counters (points, penalties, reduced clps) and exact penalty vector checked by TLC; Result statistics of lattice optimisations compared exactly; spec-derived monitor (bound to TLC on every lattice case) applied to real noisy multi-iteration fits incl. covariance / standard-error relations and cost = objective at the optimum",
      "Counters exact and chi-square/cost/reduced chi-square/rmse to 1e-9 on seeded lattice schemes; the same relations plus pseudo-inverse identities, standard errors, additional_penalty and cost re-evaluated at the optimised parameters on seeded real fits with all three methods.",
      "Pseudo-inverse identities are floating-point relations evaluated by the monitor, not by TLC (DESIGN §6); D11. Trusted: TLC, Fraction, numpy svd/eigvalsh in the monitor.",
      "DESIGN.md §5 C13")

claim("C14", "Objective",
      "TLA+ specs ObjectiveSim.tla (exact simulation + ZeroAtTruth invariant on the objective pipeline), SimSeed.tla (global RNG state machine, Reproducible invariant, every history replayed) and ModelCombos.tla (combination space of builtin megacomplexes); real simulate()/objective/optimize compared with the emitted data, clps and histories",
      "Lattice: simulate() must equal the exactly computed integer data for every case and the fit side must have zero objective and clps = generating clps / dataset scale (TLC proves this on the model for each case); RNG histories up to a bound are replayed exhaustively; every enumerated builtin combination (thorough; a sample in quick) is simulated at physically meaningful parameters and must be reproduced, not moved by the optimiser, with clps recovered.",
      "Convergence from perturbed starts is exercised on a fixed list, not modelled (DESIGN §6). Builtin combinations use one parameter point each. Trusted: TLC, numpy RandomState for drivers.",
      "DESIGN.md §5 C14")

claim("C08", "Intervals",
      "TLA+ spec Intervals.tla: Must/May envelope of interval semantics enumerated exhaustively by TLC (axis x interval pairs on a half-step grid incl. infinite/reversed/degenerate/outside, interval lists) with closedness, union, complement, order-insensitivity, infinite-bound and monotonicity invariants; every emitted case replayed on applies()/get_axis_slice_from_interval/_get_area (Must <= Aff <= May, implementation monotonicity over all interval pairs) and a sample end to end through optimize()",
      "Exhaustive over the bounded grid at unit level for zero / only / relation / weight slice / penalty area; end-to-end sample checks the zero pattern of constrained clps, related clps, number_of_clps, reported weights and the equal-area penalty value in linked and unlinked groups; applied weight = reported weight and solved reduction = selected reduction by normal-equation certificates; weight precedence (dataset weight wins, warning); recorded `prepared` / `stacked` events of real matrix providers accepted block by block by ReduceTrace.tla (Objective!ReduceLabels).",
      "D2: any affected set between Must and May is accepted for slices/areas; multiplicity of overlapping penalty intervals is not judged. Trusted: TLC, Json module.",
      "DESIGN.md §5 C08")

claim("C06", "Labels",
      "TLA+ specs Labels.tla (combination of megacomplex matrices as a function label -> column; Equivariant / SharedAdd / DistinctSeparate / MixedDims invariants checked exhaustively by TLC; every case replayed on MatrixProvider.calculate_dataset_matrix) and LabelPerms.tla (declaration-order permutation space of the builtin types; real models built in identity and permuted order, every labelled output compared by label, objective unchanged)",
      "Exhaustive over 1-3 lattice megacomplexes x label sequences x index dependence x scale at the matrix-combination level; for decay, decay-parallel, damped-oscillation, pfid and spectral every permutation of 2-4 declared labels (thorough; a stratified sample in quick) with/without IRF, alone, with a baseline and with a label-sharing second megacomplex, also with the megacomplex list reversed.",
      "Label order itself is not judged. decay-sequential order is semantic and not permuted. One parameter point per type. Trusted: TLC, xarray reindex_like for by-label alignment.",
      "DESIGN.md §5 C06")

claim("C10", "Optimizer",
      "TLA+ spec Optimizer.tla (purity part: memo x -> penalty, provider shapes, snapshot of the caller's inputs; Pure / ShapesStable / InputsUntouched; design-level mutant without 'clear' must violate Pure) explored by TLC; every edge and simulated walks drive the real Optimizer.objective_function on lattice, kinetic and fault schemes, in-process and in subprocesses with NUMBA_NUM_THREADS 1/2/4/16 and a fresh process; event traces validated by OptimizerTrace.tla",
      "All evaluation sequences of the small graph (with repeats, returns and failing evaluations) plus walks of length 30 are replayed; penalty vectors must be bit-identical for equal x across histories, thread counts and processes; optimize twice gives identical results; the caller's parameters, model and data are compared before/after.",
      "Content digests identify vectors. Five scheme families. Trusted: TLC, sha digests, hooks (add-only).",
      "DESIGN.md §5 C10")
claim("C11", "ParamTransform",
      "TLA+ specs ParamTransform.tla (class combinations of 1-4 parameters: RoundTrip / NeverHandedOver / OrderConsistent / BoundsPreserved checked by TLC, every set concretised and pushed through the real conversion) and Fit.tla/FitTrace.tla (trace acceptor: bounds at every record, fixed/expression parameters never handed over, one column ordering) validating rank-encoded traces of real fits with all three methods",
      "Every class combination (vary, expression, non-negative, min/max classes, value classes incl. exactly 1, at bounds, tiny, huge) is replayed on get_label_value_and_bounds_arrays / set_from_label_and_value_arrays; real fits are turned into traces (decoded history rows and the values the model was evaluated with) and accepted step by step by TLC; a corrupted trace must be rejected on every run.",
      "Floats in traces are replaced by dense order ranks. Column identity observed by forward differences. Trusted: TLC, Json module.",
      "DESIGN.md §5 C11")
claim("C12", "ParamExpr",
      "TLA+ spec ParamExpr.tla: all acyclic expression graphs over N parameters in every declaration order (fan-out), actions Construct / SetFree / Update / Arrays / Copy / SaveLoad, invariants Consistent / Idempotent / PlainKept checked by TLC (the one-pass algorithm is refuted as a design-level mutant); every emitted transition replayed on real Parameters (from_list, from_dict, yml, csv/tsv round trips, copy); 5-6 parameters by simulation; fits validated by FitTrace.tla",
      "Exhaustive for 3-4 parameters (grammar of 8 operators), simulated behaviours for 5-6; values compared exactly after every step; the values the model is actually evaluated with during fits are checked against the expressions.",
      "Function symbols enter as operators with exact integer images. Trusted: TLC.",
      "DESIGN.md §5 C12")
claim("C15", "Optimizer",
      "TLA+ spec Optimizer.tla (life-cycle with faults: Reject / Construct / EnterTee / Eval / EvalFail / EvalNaN / SciPyReturns / Swallow / Propagate / ExitTee / Fallback / FinalEval / ResultCalc / BuildResult; invariants StdoutRestored, Contained, Transparent, RejectedBeforeEval, HistoryShape, ResultFromEvaluated, SchemeUntouched; liveness under fairness) model-checked; every fault plan TLC enumerates is run on the real optimize() with a fault megacomplex and the observed outcome must be one of the emitted terminal states; event traces validated by OptimizerTrace.tla",
      "A fault (exception or non-finite matrix) at every evaluation k = 1..N+1 of the fault-free run incl. the evaluations made while creating the result, three methods, verbose, raise_exception, every kind of invalid scheme, sys.stdout swapped between construction and optimisation.",
      "Fault is one-shot (the property quantifies over a fault at one evaluation). One recorded finding (NaN inside Levenberg-Marquardt). Trusted: TLC, hooks (add-only).",
      "DESIGN.md §5 C15")
claim("C18", "SaveProtocol",
      "TLA+ specs SaveProtocol.tla (Protect -> Lookup -> PluginWrite -> UpdateSourcePath over an abstract file system; Refusal / OverwriteOnlyIfAsked / PreexistingUntouched / NoWriteBeforeCheck) and ProjectRuns.tla (Optimize / Remove / Latest / Get / ItemOp; FreshIncreasing / EarlierRunsUnchanged / LatestIsOwnMax / GetIsExact) model-checked exhaustively; every emitted save call and every edge of the run graph replayed on the real save_* functions and a real Project in temp folders; traces of drivers and of the repository's own tests validated by SaveProtocolTrace / ProjectRunsTrace",
      "Every save function x registered format (+ unknown, + failing plugin) x target state x allow_overwrite x format given/inferred with byte and mtime comparison of all pre-existing files; all histories of <= 4-6 operations over result names sharing prefixes / containing _run_ / containing dots, incl. real Project.optimize runs.",
      "D4, D10. Trusted: TLC, file-system digests, hooks (add-only).",
      "DESIGN.md §5 C18")
claim("C20", "Validation",
      "TLA+ spec Validation.tla: hand-written reference schema of every builtin item type; mutants (misspell / drop / delete item / delete parameter / rename / duplicate unique / combine exclusive / shorten label list) enumerated by fan-out from 10 base models; invariants SoundAndComplete (Must = {} <=> AllResolve), ValidFills, GeneratedParametersSuffice, InjectedFaultFound checked by TLC; every mutant built as a real Model and the projected SET of issues compared (Must <= got <= May) on get_issues / validate / valid / Scheme.validate, fill_item and one objective evaluation for valid pairs",
      "Single and double mutations of 10 base models covering all builtin item types, dict / list / scalar / aliased / nested references; exceptions other than the documented ModelError are violations.",
      "The hand-written schema is trusted base (cross-checked against introspection as a warning only). Trusted: TLC, Json module.",
      "DESIGN.md §5 C20")

claim("C05", "IrfIndex",
      "TLA+ spec IrfIndex.tla: Effective(i) (broadcasting, centre - shift_i, dispersion polynomials in either variable, widths, scales, normalisation) as exact rationals enumerated by fan-out with Broadcast / IndexDependence / Linear / PerIndex / Asymptote invariants; every configuration replayed: irf.parameter vs Effective(i), index-dependent decay matrix vs the implementation's own index-independent matrix at Effective(i), linearity in the Gaussians, asymptotes before/after the pulse",
      "Decides the per-index clause of the property (its second sentence) exhaustively over 1-3 Gaussians x broadcast shapes x shift x centre/width dispersion order 0-3 x dispersion variable x normalise, plus linearity, normalisation and the asymptotic regime.",
      "NOT decided: equality with the convolution integral for |t - c| <~ 7w, the branch switch and under/overflow regimes (special functions; DESIGN §6). Trusted: TLC, elementary-function interpreter (exp only).",
      "DESIGN.md §5 C05")
claim("C07", "Basis",
      "TLA+ spec Basis.tla (extends IrfIndex): oscillation / PFID / artifact / spectral-shape case space with OscFacts, RegionFacts, SharedPosition, ArtifactFacts, ShapeFacts invariants; every case replayed with an elementary-function interpreter (exp, cos, sin, log): quadrature columns, zero/tail regions with one constant, shared effective IRF position (differential against the implementation's own plain-IRF matrices), artifact derivatives, shape facts and continuity in skewness",
      "Decides quadrature pairing and sign, before/after-pulse behaviour, the shared effective position of decay / artifact / oscillation / PFID per index, artifact closed forms, spectral shape facts incl. theta <= 0 and skewness -> 0.",
      "NOT decided: proportionality to the convolution inside the pulse (complex error function; DESIGN §6). Two recorded findings (frequency folding, NaN inside the pulse). Trusted: TLC, elementary-function interpreter.",
      "DESIGN.md §5 C07")

claim("C16", "ParamTable",
      "TLA+ specs ParamTable.tla (tables as rows of cell classes; Save / Load / SaveAgain with a schema-driven Load; RoundTrip, OrderPreserved, ExprNotVaried, Idempotent) and ParamFromSpec.tla (containers x default blocks x item forms; NumbersArePositions, OwnOptionsWin, DefaultsApply) model-checked; every enumerated table concretised and pushed through save_parameters/load_parameters for csv, tsv, xlsx, ods (field-by-field, NaN-aware, bit-equal floats, label order, second cycle identical) and every specification loaded as python / yml_str / yml file",
      "All tables of 1-3 rows in which up to two columns deviate from the default column in every homogeneous or mixed way (the reader's type inference depends on the column's composition), four formats, two cycles; all list/dict specification forms incl. scientific-notation strings and expressions.",
      "Float equality is the harness's projection (bit-equal after text round trip). Recorded findings: xlsx 16-digit floats and float-max. Trusted: TLC, Json module.",
      "DESIGN.md §5 C16")
claim("C17", "Persist",
      "TLA+ spec Persist.tla (files: Loc x Name -> Token, references as none/rel/up/abs, in-memory source paths, cwd; SaveResult(options) / LoadResult / MoveFolder / ChangeCwd / SaveModel / LoadModel / SaveDataset / LoadDataset / SaveScheme / LoadScheme; RefsRelative, LoadAfterMove, LoadSaveIdentity, NoAbsoluteRefs) model-checked; every transition replayed at the end of a re-executed shortest history on the real save_*/load_* functions in temp trees; model generator (every item type) round trips with equal as_dict() and equal objective; netCDF bit-equality; ASCII formats on non-square data in both dim orders; real optimisation results through TLC-emitted save/move/load behaviours",
      "All histories of <= 3 (quick) / 4-5 (thorough) operations over absolute/relative file/dir spellings and SavingOptions; stored references must be relative, posix, inside the result folder; loaded objects equal what was saved (parameters, histories, statistics, bit-equal datasets).",
      "Value equality is the harness's projection. One recorded finding (standalone scheme files with cwd-relative source paths). Trusted: TLC, Json module.",
      "DESIGN.md §5 C17")

claim("C04", "Compartments",
      "TLA+ spec Compartments.tla: K-matrices (one or two combined, later entries override) with integer rates, declaration orders, initial concentrations with exclusion, built by fan-out; integer spectrum search, amplitudes by the spectral projector (adjugate) in exact arithmetic; invariants SumsToJ, EigenEq (c' = Kc solved), Conserved, PermutationEquivariance, SeqEquiv, ParEquiv, SequentialShortcutAdmissible/Sound checked by TLC on every accepted instance; every instance replayed on KMatrix (rates, a_matrix, full/reduced matrix), on the decay / decay-sequential / decay-parallel matrices (column of compartment s = sum_l A_l[s] exp(-lambda_l t)) and a sample through optimize() (rates, lifetimes, a_matrix, k_matrix, species_concentration, DAS = SAS x A^T)",
      "Exhaustive over compartmental schemes with up to 3 (thorough: 4) compartments with rational spectrum: all entry sets over rates {1,2,3,5}, all declaration orders, initial concentrations e_i / uniform / mixed with and without exclude_from_normalize, two combined K-matrices, sequential and parallel definitions.",
      "NOT decided: irrational spectra and six-decade rate spreads (conditioning of eig; DESIGN §6). Instances without n distinct integer eigenvalues are counted and skipped. Trusted: TLC, elementary-function interpreter (exp).",
      "DESIGN.md §5 C04")

ENGINES = [
    {"name": "DatasetNames", "path": "spec/DatasetNames.tla", "serves_properties": [], "kind_free_text": "growth beyond the listed properties: labels of a scheme's datasets (load_datasets / DatasetMapping.loader over sequences and mappings of files and datasets); LaterWins, MappingKeepsAll, LostOnlyByCollision; NoDatasetLost refuted by TLC (named deviation CollisionLoses) + DatasetNamesEmit; harness/x05.py (./check X05)"},
    {"name": "ParamHistory", "path": "spec/ParamHistory.tla", "serves_properties": ["C17"], "kind_free_text": "growth beyond the listed properties: parameter history and restore (append / restore / save-load over two label tuples; AppendOnly, LabelsFixed, ErrorsArePure, RestoreIsRecord, OriginUnobservable) + ParamHistoryEmit; harness/x04.py (./check X04) replays every transition on a real ParameterHistory + Parameters pair"},
    {"name": "ReduceTrace", "path": "spec/ReduceTrace.tla", "serves_properties": ["C08", "C02"], "kind_free_text": "trace acceptor over prepared/stacked events of real matrix providers (Objective!ReduceLabels block by block); harness/reduce_trace.py, run by ./check C08"},
    {"name": "ClpLinkTrace", "path": "spec/ClpLinkTrace.tla", "serves_properties": ["C09"], "kind_free_text": "trace acceptor over aligned events of real linked data providers (ClpLink actions from the recorded axes; stack composition); harness/c09_trace.py, run by ./check C09"},
    {"name": "ProjectItems", "path": "spec/ProjectItems.tla", "serves_properties": [], "kind_free_text": "growth beyond the listed properties: name resolution of project item registries (short names, ambiguity, shadowing) + ProjectItemsEmit; harness/x03.py (./check X03)"},
    {"name": "OptHistory", "path": "spec/OptHistory.tla", "serves_properties": [], "kind_free_text": "growth beyond the listed properties: optimisation history parsed from scipy's verbose output (line-kind state machine) + OptHistoryEmit; harness/x02.py (./check X02)"},
    {"name": "Pipeline", "path": "spec/Pipeline.tla", "serves_properties": [], "kind_free_text": "growth beyond the listed properties: preprocessing pipeline (persistent builder, composition, mean-zero) + PipelineEmit; harness/x01.py (./check X01)"},
    {"name": "Compartments", "path": "spec/Compartments.tla", "serves_properties": ["C04"], "kind_free_text": "TLA+ Compartments.tla (exact compartmental algebra, emission built in); harness/c04.py"},
    {"name": "ParamTable", "path": "spec/ParamTable.tla", "serves_properties": ["C16"], "kind_free_text": "TLA+ ParamTable(+Emit), ParamFromSpec(+Emit); harness/c16.py"},
    {"name": "Persist", "path": "spec/Persist.tla", "serves_properties": ["C17"], "kind_free_text": "TLA+ Persist(+Emit); harness/c17.py, c17_world.py, c17_content.py"},
    {"name": "IrfIndex", "path": "spec/IrfIndex.tla", "serves_properties": ["C05", "C07"], "kind_free_text": "TLA+ IrfIndex.tla(+Emit), Basis.tla(+Emit); harness/c05.py, c07.py, drivers_irf.py"},
    {"name": "Optimizer", "path": "spec/Optimizer.tla", "serves_properties": ["C10", "C15"], "kind_free_text": "TLA+ life-cycle + purity state machine, OptimizerEmit, OptimizerWalk, OptimizerTrace; harness/c10*.py, c15*.py"},
    {"name": "ParamTransform", "path": "spec/ParamTransform.tla", "serves_properties": ["C11"], "kind_free_text": "TLA+ ParamTransform.tla, Fit.tla, FitTrace.tla; harness/c11*.py"},
    {"name": "ParamExpr", "path": "spec/ParamExpr.tla", "serves_properties": ["C12"], "kind_free_text": "TLA+ ParamExpr.tla, ParamExprEmit, ParamExprSim; harness/c12.py"},
    {"name": "SaveProtocol", "path": "spec/SaveProtocol.tla", "serves_properties": ["C18"], "kind_free_text": "TLA+ SaveProtocol(+Emit,+Trace), ProjectRuns(+Emit,+Trace); harness/c18*.py"},
    {"name": "Validation", "path": "spec/Validation.tla", "serves_properties": ["C20"], "kind_free_text": "TLA+ Validation.tla, ValidationEmit; harness/c20*.py"},
    {"name": "Labels", "path": "spec/Labels.tla", "serves_properties": ["C06"], "kind_free_text": "TLA+ Labels.tla + LabelsEmit, LabelPerms.tla; harness/c06.py"},
    {"name": "Intervals", "path": "spec/Intervals.tla", "serves_properties": ["C08"], "kind_free_text": "TLA+ interval envelope (Must/May) + IntervalsEmit; harness/c08.py"},
    {"name": "Objective", "path": "spec/Objective.tla", "serves_properties": ["C02", "C03", "C13", "C14"], "kind_free_text": "TLA+ staged exact pipeline (Objective.tla, ObjectiveCases.tla) over LinAlg.tla; harness/objective.py, lattice.py, c02.py, c03.py, c13.py, c14.py"},
    {"name": "ClpLink", "path": "spec/ClpLink.tla", "serves_properties": ["C09", "C02"], "kind_free_text": "TLA+ alignment state machine + ClpLinkEmit; harness/c09.py, harness/lattice.py"},
    {"name": "LeastSquares", "path": "spec/LeastSquares.tla", "serves_properties": ["C01"], "kind_free_text": "TLA+ exact oracle over fraction-free integer linear algebra (LinAlg.tla) + LeastSquaresEmit; harness/c01.py"},
    {"name": "Registry", "path": "spec/Registry.tla", "serves_properties": ["C19"], "kind_free_text": "TLA+ state machine + RegistryEmit (edge emission) + RegistryTrace (trace acceptor); harness/c19.py"},
]


def build():
    props = [json.loads(l) for l in (VERIF / "properties.jsonl").read_text().splitlines() if l.strip()]
    try:
        commits = subprocess.run(["git", "-C", str(REPO), "log", "--format=%H %s"], capture_output=True, text=True).stdout.splitlines()
        hook_commits = [c.split()[0] for c in commits if " verif-hook:" in c or c.split(" ", 1)[1].startswith("hook:")]
    except Exception:  # noqa: BLE001
        hook_commits = []
    checks = []
    for p in props:
        pid = p["id"]
        if pid not in CLAIMED:
            continue
        c = CLAIMED[pid]
        checks.append({
            "property_id": pid,
            "quick_cmd": f"./check {pid} --tier quick",
            "thorough_cmd": f"./check {pid} --tier thorough",
            "evidence_file": f"evidence/{pid}.json",
            "replay_cmd_template": f"./check {pid} --replay {{path}}",
            "engine": c["engine"],
            "level_claimed": {"category": c["category"], "text": c["text"], "design_ref": c["design"]},
            "level_note": c["note"],
            "technique": c["technique"],
        })
    na = [{"property_id": p["id"], "reason": NOT_YET.get(p["id"], "check not built yet in this round (planned: TLA+ spec + conformance, see DESIGN.md §5); nothing is claimed")}
          for p in props if p["id"] not in CLAIMED]
    man = {
        "version": 1,
        "setup_cmd": "./check setup",
        "hooks": {
            "guard": GUARD,
            "enable": f"export {GUARD}=<path of an ndjson trace file> (checks set it themselves for the subprocesses they trace)",
            "baseline_off_cmd": BASELINE_OFF,
            "source_commits": hook_commits,
            "add_only": True,
        },
        "engines": ENGINES,
        "checks": checks,
        "notes": "All checks: TLA+ specification checked by TLC, bound to the implementation by replaying TLC behaviours into the real code and/or validating recorded traces against the specification. exit 0 held / 1 violation / 2 machinery failure. known_findings.json lists recorded and fixed defects.",
        "not_applicable": na,
    }
    return man


if __name__ == "__main__":
    m = build()
    (VERIF / "MANIFEST.json").write_text(json.dumps(m, indent=1) + "\n")
    import jsonschema
    jsonschema.validate(m, json.loads(open("/root/.vp/MANIFEST.schema.json").read()))
    print("MANIFEST.json written:", len(m["checks"]), "checks,", len(m["not_applicable"]), "not applicable")
