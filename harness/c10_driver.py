"""Executes evaluation walks / repeated optimisations on the C10 schemes (in-process or as a traced subprocess).

python -m harness.c10_driver jobs.json     (hooks on: every walk / optimisation is bracketed by call_begin / call_end)
job = {"scheme": name, "walks": [[[op, point], ...], ...], "failkind": "exception" | "nan"}
    | {"scheme": name, "optimize": method, "max_nfev": n}
"""
from __future__ import annotations

import json
import sys
import warnings

import numpy as np

from .c10_schemes import build
from .c15_driver import _h
from .c15_driver import snapshot
from .c15_driver import snapshot_diff
from .c15_models import FAULT
from .c15_models import digest


def lens_of(optimizer) -> dict:
    from glotaran.utils import verif_trace as vt
    return vt.optimizer_lengths(optimizer)


class Walker:
    """One real Optimizer driven through direct objective_function calls."""

    def __init__(self, scheme, labels, points, failkind="exception"):
        from glotaran.optimization.optimizer import Optimizer
        self.scheme, self.labels, self.points, self.failkind = scheme, labels, points, failkind
        self.opt = Optimizer(scheme, verbose=False)
        self.opt._free_parameter_labels = labels      # what Optimizer.optimize() does before handing objective_function to scipy

    def step(self, op: str, point: int, emit=None) -> dict:
        x = self.points[point - 1]
        if op == "eval":
            FAULT.k = 0
            try:
                pen = self.opt.objective_function(x.copy())
            except Exception as e:  # noqa: BLE001  - judged by the caller: an evaluation without injected fault must not raise
                return {"op": op, "point": point, "pen": "", "finite": False, "size": 0, "err": f"raised:{type(e).__name__}: {str(e)[:120]}",
                        "lens": lens_of(self.opt)}
            arr = np.asarray(pen)
            return {"op": op, "point": point, "pen": digest(arr), "finite": bool(np.all(np.isfinite(arr))), "size": int(arr.size), "err": "",
                    "lens": lens_of(self.opt)}
        FAULT.k, FAULT.kind, FAULT.persistent = FAULT.calls + 1, self.failkind, False
        calls_before = FAULT.calls
        try:
            pen = self.opt.objective_function(x.copy())
        except Exception as e:  # noqa: BLE001
            FAULT.k = 0
            ln = lens_of(self.opt)
            if emit:
                emit("walk_fail", opt=str(id(self.opt)), err=type(e).__name__, **ln)
            return {"op": op, "point": point, "pen": "", "finite": False, "size": 0, "err": type(e).__name__, "lens": ln}
        FAULT.k = 0
        arr = np.asarray(pen)
        # "cached": the model was not called at all (an implementation may answer a repeated point from a cache; then nothing can raise and
        # the answer is judged like an ordinary evaluation); "no-exception": the model was called, raised, and a penalty came back all the same
        return {"op": op, "point": point, "pen": digest(arr), "finite": bool(np.all(np.isfinite(arr))), "size": int(arr.size),
                "err": "cached" if FAULT.calls == calls_before else "no-exception", "lens": lens_of(self.opt)}


def run_walk(name: str, walk: list, failkind="exception", emit=None, run=0, built=None) -> dict:
    FAULT.reset()
    scheme, (labels, points) = built if built is not None else build(name)
    before = snapshot(scheme)
    if emit:
        emit("call_begin", run=run, stdout=str(id(sys.stdout)), invalid=[], raise_exception=False, verbose=False)
    w = Walker(scheme, labels, points, failkind)
    steps = []
    with warnings.catch_warnings():
        warnings.simplefilter("ignore")
        for op, point in walk:
            steps.append(w.step(op, int(point), emit))
    changed = snapshot_diff(before, snapshot(scheme))
    obs = {"scheme": name, "steps": steps, "changed": changed, "failkind": failkind}
    if emit:
        emit("call_end", run=run, exc="", original=False, stdout=str(id(sys.stdout)), fault_msg="", obs=obs, plan={"scheme": {"name": name}, "walk": walk})
    return obs


def result_digests(result) -> dict:
    d = {
        "success": str(bool(result.success)),
        "termination_reason": str(result.termination_reason),
        "nfev": str(result.number_of_function_evaluations),
        "optimized": _h(json.dumps([(p.label, repr(float(p.value)), repr(p.standard_error)) for p in result.optimized_parameters.all()]).encode()),
        "history": _h(np.ascontiguousarray(np.asarray(result.parameter_history.parameters, dtype=float)).tobytes()),
        "cost": repr(float(result.cost)),
    }
    for attr in ("chi_square", "reduced_chi_square", "root_mean_square_error", "optimality", "number_of_jacobian_evaluations", "degrees_of_freedom"):
        d[attr] = repr(getattr(result, attr, None))
    for attr in ("jacobian", "covariance_matrix"):
        v = getattr(result, attr, None)
        d[attr] = "None" if v is None else _h(np.ascontiguousarray(np.asarray(v, dtype=float)).tobytes())
    d["additional_penalty"] = repr([[float(x) for x in g] for g in result.additional_penalty])
    for label in sorted(result.data):
        ds = result.data[label]
        for var in ("residual", "clp", "fitted_data", "matrix"):
            if var in ds:
                d[f"data[{label}].{var}"] = _h(np.ascontiguousarray(ds[var].values).tobytes())
    return d


def run_optimize(name: str, method: str, max_nfev=None, emit=None, run=0, built=None) -> dict:
    from glotaran.optimization.optimize import optimize
    FAULT.reset()
    scheme, _ = built if built is not None else build(name)
    scheme.optimization_method = method
    scheme.maximum_number_function_evaluations = max_nfev
    before = snapshot(scheme)
    if emit:
        emit("call_begin", run=run, stdout=str(id(sys.stdout)), invalid=[], raise_exception=False, verbose=False)
    res = []
    changed = []
    with warnings.catch_warnings():
        warnings.simplefilter("ignore")
        error = ""
        for _ in range(2):
            try:
                r = optimize(scheme, verbose=False)
                res.append(result_digests(r))
            except Exception as e:  # noqa: BLE001
                error = f"{type(e).__name__}: {str(e)[:150]}"
                res.append({"error": error})
            changed.append(snapshot_diff(before, snapshot(scheme)))
    obs = {"scheme": name, "method": method, "results": res, "changed": changed, "error": error}
    if emit:
        emit("call_end", run=run, exc="", original=False, stdout=str(id(sys.stdout)), fault_msg="", obs=obs,
             plan={"scheme": {"name": name}, "optimize": method, "max_nfev": max_nfev})
    return obs


def main(path: str):
    from glotaran.utils import verif_trace as vt
    jobs = json.loads(open(path).read())
    run = 0
    for job in jobs:
        if "walks" in job:
            for walk in job["walks"]:
                run_walk(job["scheme"], walk, job.get("failkind", "exception"), emit=vt.emit, run=run)
                run += 1
        else:
            run_optimize(job["scheme"], job["optimize"], job.get("max_nfev"), emit=vt.emit, run=run)
            run += 1


if __name__ == "__main__":
    main(sys.argv[1])
