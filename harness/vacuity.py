"""./check vacuity : reachability witnesses for the antecedents of implication-shaped properties.

For every W_x of spec/Witness_<Spec>.tla (the negation of a state that must be reachable) TLC is run on the configuration the
property's check uses in its quick tier with `INVARIANT W_x`, and must REFUTE it.  A witness TLC cannot refute means the property
guarded by that antecedent was checked vacuously in that configuration: exit 1.  Writes evidence/vacuity.json.
"""
from __future__ import annotations

import json
import re
import sys
import time
from concurrent.futures import ThreadPoolExecutor

from .core import EVIDENCE, VERIF
from .tlc import run_tlc


def _strip(cfg_text: str) -> str:
    return "\n".join(l for l in cfg_text.splitlines() if not re.match(r"\s*(INVARIANT|PROPERTY|POSTCONDITION)\b", l)) + "\n"


def plans():
    from . import c09, c15, c18_project, c18_save, c19
    out = []
    out.append(("Registry", "class registry", _strip(c19.cfg(["a", "A"], ["x.y", "m.C1"], ["m.C1", "m.C2"], False, 5))))
    out.append(("Registry", "instance registry", _strip(c19.cfg(["a", "A"], ["x.y", "m.C1"], ["m.C1", "m.C2"], True, 3))))
    out.append(("ClpLink", "3 datasets", _strip(c09.cfg(list(range(5)), 2, 3, [0, 1, 2], ["nearest", "forward", "backward"]))))
    d, p = c18_save.registered_formats()
    out.append(("SaveProtocol", "all registered formats", _strip(c18_save.cfg(d, p))))
    out.append(("ProjectRuns", "runs<=3,remove<=1", _strip(c18_project.cfg(["a", "a_run_b", "a_run"], [], 3, 0, 1, True))))
    out.append(("ProjectRuns", "partial runs", _strip(c18_project.cfg(["a", "a_run_b"], [], 4, 0, 0, True, max_fails=2))))
    out.append(("Optimizer", "life-cycle", _strip(c15.cfg([1, 2], 4, 7, c15.KINDS, ["TrustRegionReflection"], [True], [True, False], "InvalidSingles", swap=True,
                                                          spec="Spec", invs=[], props=[]))))
    return out


def witnesses(spec: str):
    text = (VERIF / "spec" / f"Witness_{spec}.tla").read_text()
    return re.findall(r"^(W_[A-Za-z0-9_]+) ==", text, re.M)


def main() -> int:
    t0 = time.time()
    jobs = []
    for spec, label, cfg in plans():
        for w in witnesses(spec):
            jobs.append((spec, label, cfg, w))

    def one(job):
        spec, label, cfg, w = job
        res = run_tlc(f"Witness_{spec}", cfg + f"INVARIANT {w}\n", workers=2, timeout=900, coverage=False, allow_violation=True)
        return spec, label, w, res.get("violated") == w, res.get("distinct")

    with ThreadPoolExecutor(max_workers=6) as ex:
        results = list(ex.map(one, jobs))
    # a witness needs to be reachable in at least one configuration of its specification
    by = {}
    for spec, label, w, ok, _ in results:
        by.setdefault((spec, w), []).append((label, ok))
    bad = [(k, v) for k, v in by.items() if not any(ok for _, ok in v)]
    for (spec, w), v in sorted(by.items()):
        print(f"{spec}.{w}: " + ", ".join(f"{label}={'reached' if ok else 'NOT reached'}" for label, ok in v))
    ev = {"what": "reachability witnesses for antecedents of implication-shaped properties (TLC must refute the negation)",
          "witnesses": [{"spec": s, "configuration": l, "witness": w, "reached": ok} for s, l, w, ok, _ in results],
          "unreached_everywhere": [f"{s}.{w}" for (s, w), _ in bad], "wall_s": round(time.time() - t0, 1)}
    EVIDENCE.mkdir(parents=True, exist_ok=True)
    (EVIDENCE / "vacuity.json").write_text(json.dumps(ev, indent=1) + "\n")
    print(f"vacuity: {len(by)} witnesses, {len(bad)} not reachable in any configuration")
    return 1 if bad else 0


if __name__ == "__main__":
    sys.exit(main())
