"""C11 — parameter transformations, bounds and fixed parameters.

spec -> code: spec/ParamTransform.tla enumerates parameter sets of 1-4 parameters by class (vary, expression,
non-negative, minimum/maximum class, value class incl. exactly 1, at a bound, tiny, huge), TLC checks RoundTrip,
NeverHandedOver, OrderConsistent, BoundsPreserved on every set and emits the expected optimiser vector; every emitted
set is concretised with floats (flat and nested labels) and pushed through
Parameters.get_label_value_and_bounds_arrays(exclude_non_vary=True) / set_from_label_and_value_arrays.
code -> spec: real fits (TrustRegionReflection, Dogbox, Levenberg-Marquardt) are turned into rank-encoded traces and
accepted or rejected by spec/FitTrace.tla (harness/c11_fits.py); spec/Fit.tla's own behaviours are model-checked as a
sanity check of the acceptor.
"""
from __future__ import annotations

import json
import math
import os
import warnings
from concurrent.futures import ProcessPoolExecutor
from multiprocessing import get_context

from .core import Check, MachineryError
from .tlc import printed_json, require_actions, run_tlc

INF = float("inf")
POINT = {0: -INF, 1: -2.5, 2: 0.0, 3: 1e-300, 4: 0.25, 5: 0.5, 6: 1.0, 7: 1.0 + 1e-10, 8: 2.0, 9: 4.0, 10: 1e300, 11: INF}
MINPT = {"ninf": 0, "neg": 1, "zero": 2, "pos": 4, "one": 6}
MAXPT = {"one": 6, "fin": 9, "pinf": 11}
TOL = 1e-9
INVARIANTS = ["TypeOK", "RoundTrip", "NeverHandedOver", "OrderConsistent", "BoundsPreserved"]


def cfg(sets, maxlen, emit=True):
    s = list(sets) + ["tiny"] * (4 - len(sets))
    lines = ["SPECIFICATION Spec", "CONSTANTS", f"  MaxLen = {maxlen}"] + [f'  S{i + 1} = "{s[i]}"' for i in range(4)] + ["CHECK_DEADLOCK FALSE"]
    lines += [f"INVARIANT {i}" for i in INVARIANTS]
    if emit:
        lines.append("CONSTRAINT Emit")
    return "\n".join(lines) + "\n"


# ------------------------------------------------------------------------- elementary interpreter (trusted, DESIGN section 4)
def interp(o) -> float:
    v = POINT[o["pt"]]
    if o["space"] == "log":
        return math.log(v)
    return v


def close(got: float, want: float) -> bool:
    if math.isnan(got) or math.isnan(want):
        return False
    if math.isinf(want) or math.isinf(got):
        return got == want
    return abs(got - want) <= TOL * max(1.0, abs(want))


def safe_exp(x: float) -> float:
    try:
        return math.exp(x)
    except OverflowError:
        return INF


def relclose(got: float, want: float) -> bool:
    if math.isnan(got) or math.isnan(want):
        return False
    if math.isinf(want) or math.isinf(got):
        return got == want
    return abs(got - want) <= TOL * abs(want) if want != 0 else got == 0


# ------------------------------------------------------------------------- real-code side
def label(i: int, nested: bool) -> str:
    if not nested:
        return f"q{i}"
    return f"g.q{i}" if i % 2 else f"h{i}.s.q"


def class_sig(c) -> str:
    return f"vary={c['vary']} expr={c['expr']} nonneg={c['nonneg']} min={c['min']} max={c['max']} val={c['val']}"


def build(case, nested: bool):
    from glotaran.parameter import Parameters
    ps = case["ps"]
    labs = [label(i + 1, nested) for i in range(len(ps))]
    vals = [POINT[p] for p in case["value"]]
    entries = []
    for i, c in enumerate(ps):
        opts = {"vary": c["vary"], "non-negative": c["nonneg"]}
        if c["min"] != "ninf":
            opts["min"] = POINT[MINPT[c["min"]]]
        if c["max"] != "pinf":
            opts["max"] = POINT[MAXPT[c["max"]]]
        if c["expr"]:
            opts["expr"] = repr(vals[i]) if i % 2 == 0 else f"{vals[i]!r} * 1"
        entries.append((labs[i], vals[i], opts))
    if not nested:
        p = Parameters.from_list([[lab, v, o] for lab, v, o in entries])
    else:
        tree: dict = {}
        for lab, v, o in entries:
            parts = lab.split(".")
            node = tree
            for part in parts[:-2]:
                node = node.setdefault(part, {})
            node.setdefault(parts[-2], []).append([parts[-1], v, o])
        p = Parameters.from_dict(tree)
    # the nested dict groups "g.*" together: the real declaration order is what the object says
    return p, labs, vals, [q.label for q in p.all()]


def replay_case(case, nested: bool, out: dict):
    """one emitted parameter set on the real code; appends (key, what) to out['violations']"""
    try:
        _replay_case(case, nested, out)
    except MachineryError:
        raise
    except (ValueError, TypeError, KeyError, ArithmeticError, AttributeError) as ex:
        # the harness side only does table look-ups on TLC's output; an exception here comes out of the library call
        out["nviol"] += 1
        if len(out["violations"]) < 300:
            out["violations"].append((f"ParamTransform[exception {type(ex).__name__}]: set=" + " | ".join(class_sig(c) for c in case["ps"]),
                                      f"{type(ex).__name__}: {ex} [labels {'nested' if nested else 'flat'}]", {"engine": "c11-case", "case": case, "nested": nested}))


def _replay_case(case, nested: bool, out: dict):
    import numpy as np
    ps = case["ps"]
    n = len(ps)
    out["evaluations"] += 1
    rep = {"engine": "c11-case", "case": case, "nested": nested}
    if any(o["pt"] not in POINT for o in case["vector"] + case["lower"] + case["upper"]):
        raise MachineryError(f"unknown point in emitted case {case}")

    def viol(clause, i, what):
        who = class_sig(ps[i]) if i is not None else "set=" + " | ".join(class_sig(c) for c in ps)
        if clause == "lower bound is NaN":      # decided by these two classes alone
            who = f"nonneg={ps[i]['nonneg']} min={ps[i]['min']}"
        elif clause == "upper bound is NaN":
            who = f"nonneg={ps[i]['nonneg']} max={ps[i]['max']}"
        out["nviol"] += 1
        if len(out["violations"]) < 300:
            out["violations"].append((f"ParamTransform[{clause}]: {who}", what + f" [labels {'nested' if nested else 'flat'}; parameter set: {[class_sig(c) for c in ps]}]",
                                      rep if len(out["violations"]) < 10 else None))
    with warnings.catch_warnings():
        warnings.simplefilter("ignore")
        p, labs, vals, real_order = build(case, nested)
        pos = {lab: k for k, lab in enumerate(real_order)}
        # spec: Labels = declaration order filtered by InVector; the real declaration order is real_order
        want_idx = sorted(case["labels"], key=lambda i: pos[labs[i - 1]])
        want_labels = [labs[i - 1] for i in want_idx]
        by_idx = {i: j for j, i in enumerate(case["labels"])}
        labels, x, lo, hi = p.get_label_value_and_bounds_arrays(exclude_non_vary=True)
        labels = list(labels)
        if labels != want_labels:
            handed = [lab for lab in labels if lab not in want_labels]
            if handed:
                i = labs.index(handed[0])
                viol("fixed or expression parameter handed to the optimiser", i, f"labels handed over {labels}, specification says {want_labels}")
            else:
                viol("labels are not the free parameters in declaration order", None, f"labels handed over {labels}, specification says {want_labels}")
            return
        if not (len(x) == len(lo) == len(hi) == len(labels)):
            viol("arrays differ in length", None, f"{len(labels)} labels, {len(x)} values, {len(lo)} lower, {len(hi)} upper bounds")
            return
        for k, i in enumerate(want_idx):
            j = by_idx[i]
            c = ps[i - 1]
            ev, el, eu = interp(case["vector"][j]), interp(case["lower"][j]), interp(case["upper"][j])
            gv, gl, gu = float(x[k]), float(lo[k]), float(hi[k])
            if not close(gv, ev):
                viol("value handed over", i - 1, f"parameter {labs[i - 1]} = {vals[i - 1]!r}: optimiser value {gv!r}, specification says {ev!r}")
            if math.isnan(gl):
                viol("lower bound is NaN", i - 1, f"parameter {labs[i - 1]} = {vals[i - 1]!r} minimum {POINT[MINPT[c['min']]]!r}: lower bound handed over is NaN, specification says {el!r}")
            elif not close(gl, el):
                viol("lower bound", i - 1, f"parameter {labs[i - 1]} minimum {POINT[MINPT[c['min']]]!r}: lower bound handed over {gl!r}, specification says {el!r}")
            if math.isnan(gu):
                viol("upper bound is NaN", i - 1, f"parameter {labs[i - 1]}: upper bound handed over is NaN, specification says {eu!r}")
            elif not close(gu, eu):
                viol("upper bound", i - 1, f"parameter {labs[i - 1]} maximum {POINT[MAXPT[c['max']]]!r}: upper bound handed over {gu!r}, specification says {eu!r}")
            if not (math.isnan(gl) or math.isnan(gu)) and not (gl <= gv <= gu and gl < gu):
                viol("start value infeasible for the bounds handed over", i - 1, f"parameter {labs[i - 1]}: lower {gl!r} value {gv!r} upper {gu!r}")
        # all parameters, including fixed ones: declaration order
        all_labels, _, _, _ = p.get_label_value_and_bounds_arrays()
        if list(all_labels) != real_order:
            viol("get_label_value_and_bounds_arrays() order", None, f"{list(all_labels)} vs declaration order {real_order}")
        # ---- round trip: vector -> parameters
        defs_before = {q.label: (q.expression, q.vary, q.non_negative, q.minimum, q.maximum) for q in p.all()}
        p.set_from_label_and_value_arrays(labels, x)
        for i in range(1, n + 1):
            got = float(p.get(labs[i - 1]).value)
            want = POINT[case["back"][i - 1]]
            c = ps[i - 1]
            if i in by_idx and c["nonneg"]:
                ok = relclose(got, vals[i - 1])
            else:
                ok = got == vals[i - 1]
            if not ok or not relclose(got, want):
                clause = "round trip" if i in by_idx else ("expression parameter changed" if c["expr"] else "fixed parameter changed")
                viol(clause, i - 1, f"parameter {labs[i - 1]} = {vals[i - 1]!r} is {got!r} after parameters -> vector -> parameters")
        # ---- a different vector: free parameters follow it, the others do not move
        if len(labels):
            x2 = np.array(x, dtype=float)
            for k in range(len(x2)):
                d = 0.125
                x2[k] = x2[k] + d if x2[k] + d <= hi[k] or math.isnan(hi[k]) else x2[k] - d
            p.set_from_label_and_value_arrays(labels, x2)
            for i in range(1, n + 1):
                got = float(p.get(labs[i - 1]).value)
                c = ps[i - 1]
                if i in by_idx:
                    k = want_idx.index(i)
                    want = safe_exp(x2[k]) if c["nonneg"] else float(x2[k])
                    ok = relclose(got, want) if c["nonneg"] else got == want
                    if not ok:
                        viol("vector -> parameter", i - 1, f"parameter {labs[i - 1]}: optimiser value {float(x2[k])!r} gives {got!r}, specification says {want!r}")
                elif got != vals[i - 1]:
                    viol("expression parameter changed" if c["expr"] else "fixed parameter changed", i - 1,
                         f"parameter {labs[i - 1]} = {vals[i - 1]!r} is {got!r} after a different vector was set")
        defs_after = {q.label: (q.expression, q.vary, q.non_negative, q.minimum, q.maximum) for q in p.all()}
        if defs_after != defs_before:
            viol("definition changed", None, f"{defs_before} -> {defs_after}")
        for i, c in enumerate(ps):
            q = p.get(labs[i])
            if c["expr"] and (q.vary or q.expression is None):
                viol("expression parameter lost its definition", i, f"{labs[i]}: vary={q.vary} expression={q.expression!r}")


def nontrivial(case) -> bool:
    ps = case["ps"]
    return (any((not c["vary"]) or c["expr"] for c in ps)
            and any(c["vary"] and not c["expr"] and (c["nonneg"] or c["min"] != "ninf" or c["max"] != "pinf") for c in ps))


def _chunk(args):
    cases, start = args
    out = {"evaluations": 0, "violations": [], "nviol": 0, "nontriv": 0, "samples": []}
    for k, case in enumerate(cases):
        for nested in (False, True):
            replay_case(case, nested, out)
        if nontrivial(case):
            out["nontriv"] += 1
        if (start + k) % 3989 == 7:
            out["samples"].append({"classes": [class_sig(c) for c in case["ps"]], "labels_handed_over": case["labels"],
                                   "vector": [[o["space"], POINT[o["pt"]]] for o in case["vector"]],
                                   "lower": [[o["space"], POINT[o["pt"]]] for o in case["lower"]], "upper": [[o["space"], POINT[o["pt"]]] for o in case["upper"]]})
    return out


def transform_run(chk: Check, sets, maxlen, procs):
    name = f"ParamTransform[{'x'.join(sets[:maxlen])}]"
    # cases are independent lines (PrintT is line-atomic), so several workers may emit; completeness is checked by count
    res = run_tlc("ParamTransform", cfg(sets, maxlen), workers=6, timeout=2400, heap="3g")
    require_actions(res, ["Add"])
    cases = printed_json(res["stdout"], "CASE")
    res["stdout"] = ""
    chk.add_tlc(res, name)
    if len(cases) + 1 != res["distinct"]:
        raise MachineryError(f"{name}: {len(cases)} cases emitted, TLC found {res['distinct']} states")
    size = max(200, len(cases) // (procs * 4) + 1)
    chunks = [(cases[i:i + size], i) for i in range(0, len(cases), size)]
    if procs > 1 and len(chunks) > 1:
        with ProcessPoolExecutor(max_workers=procs, mp_context=get_context("fork")) as ex:
            outs = list(ex.map(_chunk, chunks))
    else:
        outs = [_chunk(c) for c in chunks]
    nv = 0
    for o in outs:
        chk.evaluations += o["evaluations"]
        chk.traces += o["evaluations"]
        nv += o["nviol"]
        for key, what, rep in o["violations"]:
            chk.violation(key, what, rep)
        for s in o["samples"]:
            chk.sample(s, limit=3)
    for case in cases:
        if nontrivial(case):
            chk.nontriv(json.dumps(case["ps"], sort_keys=True))
    chk.extra.setdefault("transform", {})[name] = {"parameter_sets": len(cases), "replayed_flat_and_nested": 2 * len(cases), "violating_checks": nv}


def fit_sanity(chk: Check, tier: str):
    """Fit.tla's own behaviours satisfy the invariants FitTrace relies on (sanity of the acceptor)"""
    import re
    maxrec = 2 if tier == "quick" else 3
    c = "\n".join(["SPECIFICATION GenSpec", "CONSTANTS", "  GenRanks = {0, 1, 2, 3, 4}", "  GenLen = 2", f"  GenMaxRec = {maxrec}", "CHECK_DEADLOCK FALSE",
                   "INVARIANT BoundsRespected", "INVARIANT FixedKept", "INVARIANT NeverHandedOver", "INVARIANT OrderConsistent"]) + "\n"
    res = run_tlc("Fit", c, workers=16, timeout=900)
    require_actions(res, ["First", "GenEvaluate"])
    # TLC reports the Finish disjunct with a location suffix the shared coverage parser does not read
    m = re.findall(r"^<Finish line [^>]*>: (\d+):(\d+)", res["stdout"], re.M)
    if not m or max(int(g) for _, g in m) == 0:
        raise MachineryError("vacuity: action Finish never taken in Fit")
    res["actions"]["Finish"] = [max(int(d) for d, _ in m), max(int(g) for _, g in m)]
    chk.add_tlc(res, f"Fit[generated behaviours, 2 parameters, ranks 0..4, <= {maxrec + 1} records]")


def run(tier: str, replay=None) -> int:
    chk = Check("C11", tier)
    chk.rule = ("spec -> code: every parameter set TLC enumerates in ParamTransform.tla (1-4 parameters, class sets full/medium/small/tiny per position) is built "
                "with flat and with nested labels and compared with the emitted vector/bounds/round trip; code -> spec: seeded fits, two traces each (decoded "
                "history rows; values the model was evaluated with) validated by FitTrace.tla; distinct = distinct class vectors / distinct fits; non-trivial = "
                "the set contains a fixed or expression parameter AND a bounded or non-negative free parameter")
    chk.assumptions = [
        "premise: finite start value inside non-degenerate bounds; a non-negative parameter has a positive value",
        "numbers are points of a symbolic scale (-inf, -2.5, 0, 1e-300, 0.25, 0.5, 1, 1+1e-10, 2, 4, 1e300, +inf); log is interpreted with math.log (elementary interpreter)",
        "to rounding = 1e-9 relative (value == 1 guard moves by 1e-10; exp(log v) amplifies rounding by |ln v|); plain parameters and untouched parameters are compared exactly",
        "a non-negative parameter with minimum <= 0 has no lower bound in optimiser space (-inf); the specification does not fix how bounds equal to 1 are guarded, only that they map back to the bound to rounding and keep the start value feasible",
        "expression parameters in the class enumeration are constant expressions (their semantics is C12's); in fits they reference plain parameters",
        "history rows are decoded with Parameters.set_from_history on a copy of the initial parameters (the history stores optimiser-space numbers); values of non-negative parameters within 1e-9 relative of a bound / of the start value are identified with it before ranking",
        "Jacobian columns are identified by forward differences of Optimizer.objective_function (cosine > 0.995, norm ratio within 0.8..1.25); covariance columns against (J^T J)^-1; standard errors against rmse*sqrt(diag) and its non-negative back-transforms; ambiguous matches are passed to the specification as candidate sets",
        "trusted: TLC, CommunityModules Json/IOUtils, numpy/scipy linear algebra used for the column identification, math.log/exp",
    ]
    from . import c11_fits
    if replay:
        r = replay["replay"]
        if r.get("engine") == "c11-case":
            n = len(r["case"]["ps"])
            res = run_tlc("ParamTransform", cfg(["tiny"] * n, n, emit=False), workers=2, timeout=600)
            chk.add_tlc(res, "ParamTransform[tiny class sets, model level]")
            out = {"evaluations": 0, "violations": [], "nviol": 0}
            replay_case(r["case"], r["nested"], out)
            chk.evaluations += out["evaluations"]
            for key, what, rep in out["violations"]:
                chk.violation(key, what, rep)
        else:
            c11_fits.replay(chk, r)
        if chk.states == 0:      # a fit that fails before the first record leaves no trace for FitTrace: keep the model-level side in the evidence
            chk.add_tlc(run_tlc("ParamTransform", cfg(["tiny", "tiny"], 2, emit=False), workers=2, timeout=600), "ParamTransform[tiny class sets, model level]")
        return chk.finish()
    procs = int(os.environ.get("VERIF_PROCS", "8" if tier == "quick" else "12"))
    if tier == "quick":
        plans = [(["full", "tiny"], 2), (["tiny", "full"], 2), (["small", "tiny", "tiny", "tiny"], 4)]
    else:
        plans = [(["full", "small"], 2), (["small", "full"], 2), (["medium", "medium"], 2), (["small", "small", "tiny", "tiny"], 4), (["medium", "tiny", "small", "tiny"], 4)]
    for sets, maxlen in plans:
        transform_run(chk, sets, maxlen, procs)
    if tier == "thorough":
        res = run_tlc("ParamTransform", cfg(["full", "full"], 2, emit=False), workers=16, timeout=2400)
        require_actions(res, ["Add"])
        chk.add_tlc(res, "ParamTransform[fullxfull, model level only]")
    fit_sanity(chk, tier)
    c11_fits.run_c11_fits(chk, tier)
    return chk.finish()
