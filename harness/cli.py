from __future__ import annotations

import argparse
import importlib
import os
import sys

from .core import run_check

CHECKS = {f"C{i:02d}": f"harness.c{i:02d}" for i in range(1, 21)}
CHECKS["X01"] = "harness.x01"      # growth beyond the listed properties (no MANIFEST entry)
CHECKS["X02"] = "harness.x02"
CHECKS["X03"] = "harness.x03"
CHECKS["X04"] = "harness.x04"
CHECKS["X05"] = "harness.x05"


def main(argv=None) -> int:
    ap = argparse.ArgumentParser(prog="check")
    ap.add_argument("id")
    ap.add_argument("rest", nargs="*")
    ap.add_argument("--tier", default=os.environ.get("VERIF_TIER", "quick"), choices=["quick", "thorough"])
    ap.add_argument("--replay", default=None)
    a = ap.parse_args(argv)
    if a.id == "selftest":
        from . import selftest
        return selftest.main(a.rest)
    if a.id == "vacuity":
        from . import vacuity
        return vacuity.main()
    if a.id == "setup":
        from . import setup
        return setup.main()
    if a.id not in CHECKS:
        print(f"unknown check {a.id}", file=sys.stderr)
        return 2
    mod = importlib.import_module(CHECKS[a.id])
    return run_check(mod.run, a.id, a.tier, a.replay)


if __name__ == "__main__":
    sys.exit(main())
